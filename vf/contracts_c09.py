"""CONTRACT engine for C09: icontract postconditions on the pure-Python point helpers of
cherab/tools/plasmas/ionisation_balance.py, plus a recording wrapper around the module's `lsq_linear` reference
(public OptimizeResult.status only) and a deterministic non-termination certificate for scipy's TRF backtracking loop.

The contracts are postconditions that must hold for EVERY call (ranges, conservation); the input-specific oracle
(recurrence solution) lives in vf/props/c09.py.  Tolerances: the normalisation row of the solved system has residual
<= c*eps*||A||_2 for a backward-stable solve, ||A||_2 <= 2*max(rate)*n_e (<= ~1e10 in the generated workloads and in
the repository's tests), so |sum f - 1| <= 1e-5 can never fire on a backward-stable solution; a wrong normalisation is O(1).

mode "raise": a failing contract raises ContractViolation (caught and keyed by run_case);
mode "record": failures are appended to STATE["failures"] and the call continues (used under the repository's tests).
"""
import collections

SUM_TOL = 1e-5
NEUTRAL_RTOL = 1e-9

STATE = {"mode": "raise", "evals": collections.Counter(), "failures": [], "lsq": [], "installed": False,
         "lsq_calls": 0, "lsq_counts": collections.Counter(), "hang_guard": False}

TRF_STATUSES = (-1, 0, 1, 2)


class ContractViolation(Exception):
    from_target = True

    def __init__(self, fn, clause, info):
        Exception.__init__(self, "%s: %s %s" % (fn, clause, info))
        self.fn = fn
        self.clause = clause
        self.info = info


class SolverNonTermination(Exception):
    from_target = True


def last_status():
    return STATE["lsq"][-1] if STATE["lsq"] else None


# ---- named condition functions (return the name of the failed clause or None) ---------------------------------------

def _clause_fractions(result):
    import numpy as np
    r = np.asarray(result, dtype=float)
    if not np.all(np.isfinite(r)):
        return "non-finite"
    if r.min() < 0.0 or r.max() > 1.0 + 1e-12:
        return "outside-[0,1]"
    if abs(float(r.sum()) - 1.0) > SUM_TOL:
        return "sum!=1"
    return None


def _clause_from_density(result, element_density):
    import numpy as np
    r = np.asarray(result, dtype=float)
    if not np.all(np.isfinite(r)):
        return "non-finite"
    if r.min() < 0.0:
        return "negative-density"
    ed = float(element_density)
    if abs(float(r.sum()) - ed) > SUM_TOL * abs(ed):
        return "sum!=element_density"
    return None


def _clause_match(result, n_species, n_e):
    import numpy as np
    r = np.asarray(result, dtype=float)
    if not np.all(np.isfinite(r)):
        return "non-finite"
    if r.min() < 0.0:
        return "negative-density"
    other = 0.0
    mag = abs(float(n_e))
    for ab in n_species:
        for index, value in enumerate(ab):
            other += index * float(value)
            mag += abs(index * float(value))
    remaining = float(n_e) - other
    if remaining < 0:
        remaining = 0.0
    charge = float(np.sum(np.arange(r.shape[0]) * r))
    if abs(charge - remaining) > NEUTRAL_RTOL * mag:
        return "charge!=n_e-other-species"
    return None


def _make_condition(fn, clause_fn, argnames):
    def condition(**kw):
        STATE["evals"][fn] += 1
        clause = clause_fn(*[kw[a] for a in argnames])
        if fn == "_fractional_abundance_point":
            STATE["inner_ok"] = clause is None
        if clause is None:
            return True
        # solver_suspect: the failure may stem from the bounded-TRF path (inner helper itself, or inner postcondition failed)
        suspect = last_status() in TRF_STATUSES and (fn == "_fractional_abundance_point" or STATE.get("inner_ok") is False)
        info = {"lsq_status": last_status(), "solver_suspect": bool(suspect)}
        if STATE["mode"] == "record":
            STATE["failures"].append({"fn": fn, "clause": clause, "info": info})
            return True
        STATE["pending"] = (fn, clause, info)
        return False
    return condition


def install(ib):
    """Wrap the four helpers and the module-level lsq_linear reference of the imported ionisation_balance module."""
    import icontract
    import inspect
    if STATE["installed"]:
        return
    specs = [("_fractional_abundance_point", _clause_fractions, ["result"]),
             ("_from_element_density_point", _clause_from_density, ["result", "element_density"]),
             ("_match_element_density_point", _clause_match, ["result", "n_species", "n_e"])]
    for fn, clause_fn, argnames in specs:
        orig = getattr(ib, fn)
        cond = _make_condition(fn, clause_fn, argnames)
        # icontract inspects the condition's parameter names: build a lambda with the explicit names
        ns = {"cond": cond}
        src = "lambda %s: cond(%s)" % (", ".join(argnames), ", ".join("%s=%s" % (a, a) for a in argnames))
        named = eval(src, ns)

        def err(fn=fn, **_kw):
            f, clause, info = STATE.pop("pending", (fn, "?", {}))
            return ContractViolation(f, clause, info)
        err_sig = eval("lambda %s: err()" % ", ".join(argnames), {"err": err})
        wrapped = icontract.ensure(named, error=err_sig)(orig)
        assert list(inspect.signature(wrapped).parameters) == list(inspect.signature(orig).parameters)
        setattr(ib, fn, wrapped)
    # recording wrapper for the solver reference (public result fields only)
    if hasattr(ib, "lsq_linear"):
        real = ib.lsq_linear

        def lsq_linear_recorded(*a, **k):
            STATE["lsq_calls"] += 1
            res = real(*a, **k)
            try:
                status = int(res["status"])
            except Exception:  # noqa
                status = None
            STATE["lsq"].append(status)
            STATE["lsq_counts"][status] += 1
            return res
        ib.lsq_linear = lsq_linear_recorded
    _install_hang_guard()
    STATE["installed"] = True


def _install_hang_guard():
    """scipy's trf_linear.backtracking halves alpha until the trial step decreases the cost; once x + alpha*p == x
    bit-for-bit and the loop has not exited, no later iteration can exit (the step stays 0, the threshold keeps its
    sign) => the call never returns.  Certificate: 64 consecutive bit-identical arguments passed to
    reflective_transformation from the backtracking frame.  Deterministic, no wall clock."""
    try:
        import importlib
        import sys
        mod = importlib.import_module("scipy.optimize._lsq.trf_linear")
        real = mod.reflective_transformation
        if not hasattr(mod, "backtracking"):
            return
    except Exception:  # noqa
        return
    import numpy as np
    st = {"last": None, "n": 0}

    def guarded(y, lb, ub):
        if sys._getframe(1).f_code.co_name == "backtracking":
            b = np.asarray(y).tobytes()
            if b == st["last"]:
                st["n"] += 1
                if st["n"] >= 64:
                    st["n"] = 0
                    st["last"] = None
                    raise SolverNonTermination("lsq_linear: TRF backtracking line search makes no progress "
                                               "(x + alpha*p == x for 64 consecutive halvings): the call cannot return")
            else:
                st["last"] = b
                st["n"] = 0
        else:
            st["last"] = None
            st["n"] = 0
        return real(y, lb, ub)
    mod.reflective_transformation = guarded
    STATE["hang_guard"] = True
