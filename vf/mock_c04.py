"""MOCKAD for C04 — recording beam-stopping provider.

Every (beam element, plasma element, charge) key gets its own smooth, strictly positive power-law rate

    S_key(E, n, T) = scale * c * (E/E0)^aE * ((n + NF)/N0)^an * ((T + TF)/T0)^aT          [m^3/s]

with (c, aE, an, aT) derived deterministically from the key (md5), all exponents bounded away from zero, so a wrong
species key, a wrong charge, a wrong equivalent density, a wrong temperature or an interaction energy taken in the wrong
frame all change the number.  The offsets NF, TF keep the rate finite where a profile is exactly zero.  Keys listed as
null (and every neutral, for which the documented n_eq = (1/Z_i) sum Z_j^2 n_j is undefined) get a rate that is
identically 0.  `rate_params` / `rate_value` are pure Python/NumPy and do not import cherab: the oracle of C04 uses
them with the *documented* key and arguments, the real attenuator reaches them through the AtomicData interface.
"""
import hashlib
import math

E0 = 1.0e4     # eV/amu
N0 = 1.0e19    # m^-3
NF = 1.0e16    # m^-3
T0 = 1.0e3     # eV
TF = 1.0       # eV


def _away(u, lo, hi):
    """u in [0,1) -> signed exponent with lo <= |a| <= hi."""
    sign = 1.0 if u < 0.5 else -1.0
    w = (2.0 * u) % 1.0
    return sign * (lo + (hi - lo) * w)


def rate_params(beam_el, plasma_el, charge, variant):
    h = hashlib.md5(("%s|%s|%d|%d" % (beam_el, plasma_el, int(charge), int(variant))).encode()).digest()
    u = [int.from_bytes(h[4 * i:4 * i + 4], "little") / 2.0 ** 32 for i in range(4)]
    c = 0.5e-13 * 4.0 ** u[0]
    aE = -0.7 + 1.1 * u[1]
    if abs(aE) < 0.1:
        aE = 0.1 if aE >= 0 else -0.1
    an = _away(u[2], 0.05, 0.30)
    aT = _away(u[3], 0.03, 0.20)
    return (c, aE, an, aT)


def rate_value(params, scale, E, n, T):
    """Works for floats and for NumPy arrays."""
    c, aE, an, aT = params
    return scale * c * (E / E0) ** aE * ((n + NF) / N0) ** an * ((T + TF) / T0) ** aT


_CLASSES = None


def _classes():
    global _CLASSES
    if _CLASSES is not None:
        return _CLASSES
    from cherab.core.atomic import AtomicData, BeamStoppingRate

    class MockStoppingRate(BeamStoppingRate):
        def __init__(self, key, params, scale, log):
            self.key = key
            self.params = params
            self.scale = scale
            self.log = log

        def evaluate(self, energy, density, temperature):
            self.log["rate_evaluations"] += 1
            c, aE, an, aT = self.params
            return self.scale * c * math.pow(energy / E0, aE) * math.pow((density + NF) / N0, an) \
                * math.pow((temperature + TF) / T0, aT)

    class NullStoppingRate(BeamStoppingRate):
        def __init__(self, key, log):
            self.key = key
            self.log = log

        def evaluate(self, energy, density, temperature):
            self.log["null_rate_evaluations"] += 1
            return 0.0

    class MockAtomicDataC04(AtomicData):
        """Only beam_stopping_rate is provided; everything else keeps the interface's NotImplementedError."""

        def __init__(self, scale, variant, null_keys, log):
            super().__init__()
            self.scale = float(scale)
            self.variant = int(variant)
            self.null_keys = set((str(e), int(q)) for e, q in null_keys)
            self.log = log

        def beam_stopping_rate(self, beam_ion, plasma_ion, charge):
            key = (beam_ion.name, plasma_ion.name, int(charge))
            self.log["accessor_calls"].append(key)
            if int(charge) == 0 or (plasma_ion.name, int(charge)) in self.null_keys:
                return NullStoppingRate(key, self.log)
            return MockStoppingRate(key, rate_params(beam_ion.name, plasma_ion.name, charge, self.variant),
                                    self.scale, self.log)

    _CLASSES = (MockAtomicDataC04, MockStoppingRate, NullStoppingRate)
    return _CLASSES


def new_log():
    return {"rate_evaluations": 0, "null_rate_evaluations": 0, "accessor_calls": []}


def build_provider(scale, variant, null_keys, log):
    return _classes()[0](scale, variant, null_keys, log)
