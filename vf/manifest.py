"""Regenerate MANIFEST.json from the property modules present under vf/props (python -m vf.manifest)."""
import importlib
import json
import os

from .core import ROOT, GUARD

ALL = ["C%02d" % i for i in range(1, 21)]
BASELINE_OFF = ("cd /repo && env -u %s /venv/bin/python -m pytest -ra -q -p no:cacheprovider --timeout=900 "
                "--continue-on-collection-errors" % GUARD)


def main():
    checks, na = [], []
    engines = {}
    for pid in ALL:
        path = os.path.join(ROOT, "vf", "props", pid.lower() + ".py")
        ready = set(open(os.path.join(ROOT, "ready.txt")).read().split())
        if not os.path.exists(path) or pid not in ready:
            na.append({"property_id": pid, "reason": "check not built yet (work in progress; runtime monitoring applies, see DESIGN.md section 4)"})
            continue
        m = importlib.import_module("vf.props." + pid.lower())
        if getattr(m, "NOT_CLAIMED", None):
            na.append({"property_id": pid, "reason": m.NOT_CLAIMED})
            continue
        c = {
            "property_id": pid,
            "quick_cmd": "./check %s --tier quick" % pid,
            "thorough_cmd": "./check %s --tier thorough" % pid,
            "evidence_file": "evidence/%s.json" % pid,
            "replay_cmd_template": "./check %s --replay {path}" % pid,
            "engine": "vf",
            "level_claimed": {"category": getattr(m, "LEVEL", "exploration"),
                              "text": getattr(m, "LEVEL_TEXT", m.RULE), "design_ref": "DESIGN.md section 4, " + pid},
            "level_note": getattr(m, "LEVEL_NOTE", "; ".join(getattr(m, "ASSUMPTIONS", [])) or "oracle code in vf/ is trusted"),
            "technique": getattr(m, "TECHNIQUE", "runtime monitoring: reference-model oracle over generated executions"),
        }
        checks.append(c)
        for e in getattr(m, "ENGINES", []):
            engines.setdefault(e, []).append(pid)
    hooks_commits = []
    hp = os.path.join(ROOT, "hooks_commits.txt")
    if os.path.exists(hp):
        hooks_commits = [l.split()[0] for l in open(hp) if l.strip() and not l.startswith("#")]
    man = {
        "version": 1,
        "setup_cmd": "./setup.sh",
        "hooks": {"guard": GUARD,
                  "enable": "no in-repo hooks are needed: ./check exports %s=1 for its own monitors (Python-level wrappers, "
                            "recording mocks, audit hooks) and rebuilds /repo in place with `setup.py build_ext --inplace`" % GUARD,
                  "baseline_off_cmd": BASELINE_OFF, "source_commits": hooks_commits, "add_only": True},
        "engines": [{"name": k, "path": "vf/%s.py" % k, "serves_properties": v, "kind_free_text": "shared monitor/oracle engine"}
                    for k, v in sorted(engines.items())],
        "checks": checks,
        "not_applicable": na,
        "notes": "Runtime monitoring and sanitizers only; see DESIGN.md. Exit 0 held / 1 VIOLATION / 2 INCONCLUSIVE. "
                 "known_findings.json lists genuine defects (open = suppressed by mechanism key, fixed = not suppressed).",
    }
    with open(os.path.join(ROOT, "MANIFEST.json"), "w") as f:
        json.dump(man, f, indent=1)
    print("MANIFEST: %d checks, %d not_applicable" % (len(checks), len(na)))


if __name__ == "__main__":
    main()
