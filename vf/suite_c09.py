"""Run the repository's own ionisation-balance tests with the C09 contracts active (recording mode).

    python -m vf.suite_c09 <repo_dir> <out.json>

Runs in a subprocess of parent_extra (thorough tier).  `cherab` is redirected to <repo_dir> first (scratch copies),
contracts are installed on the imported module object before the test module is collected, every contract evaluation
is counted and every failed clause recorded; the JSON result is written even when tests fail.
"""
import json
import os
import sys


def main():
    repo, out = os.path.abspath(sys.argv[1]), sys.argv[2]
    root = os.path.dirname(os.path.dirname(os.path.abspath(__file__)))
    deps = os.path.join(root, ".deps")
    if deps not in sys.path:
        sys.path.append(deps)
    res = {"ok": False}
    try:
        m = sys.modules.get("cherab")
        if m is not None and hasattr(m, "__path__") and repo != "/repo":
            m.__path__[:] = [os.path.join(repo, "cherab")]
        os.chdir(repo)
        sys.path.insert(0, repo)
        import pytest
        import cherab.tools.plasmas.ionisation_balance as ib
        assert os.path.abspath(ib.__file__).startswith(repo), ib.__file__
        from vf import contracts_c09 as C
        C.STATE["mode"] = "record"
        C.install(ib)

        class Rec:
            def __init__(self):
                self.passed = 0
                self.failed = []
                self.collected = 0

            def pytest_collection_modifyitems(self, items):
                self.collected = len(items)

            def pytest_runtest_logreport(self, report):
                if report.when == "call":
                    if report.passed:
                        self.passed += 1
                    elif report.failed:
                        self.failed.append({"test": report.nodeid, "repr": str(report.longrepr)[-1500:]})
                elif report.failed:
                    self.failed.append({"test": report.nodeid + "[" + report.when + "]", "repr": str(report.longrepr)[-1500:]})

        rec = Rec()
        rc = pytest.main(["-q", "-p", "no:cacheprovider", "cherab/tools/tests/test_ionization_balance.py"], plugins=[rec])
        res = {"ok": True, "pytest_rc": int(rc), "collected": rec.collected, "passed": rec.passed, "failed": rec.failed,
               "contract_evals": dict(C.STATE["evals"]), "contract_failures": C.STATE["failures"][:50],
               "n_contract_failures": len(C.STATE["failures"]), "lsq_calls": C.STATE["lsq_calls"],
               "lsq_status_counts": {str(k): int(v) for k, v in C.STATE["lsq_counts"].items()},
               "module_file": ib.__file__}
    except BaseException as e:  # noqa
        import traceback
        res = {"ok": False, "error": traceback.format_exc()[-3000:]}
    with open(out, "w") as f:
        json.dump(res, f)
    return 0


if __name__ == "__main__":
    sys.exit(main())
