"""C06 — rate repository: last write wins per key, other keys untouched, no stray files.

Monitor shape: sequential write history on the REAL cherab.openadas.repository functions in a fresh temporary
repository, judged against a last-write-wins reference map (REPOHIST) + a sys.addaudithook file-system monitor (AUDIT).

After EVERY write operation (add_*, update_*, rejected update, install_adf*):
  readback         every key written by the operation is read through the matching get_* and must equal the written
                   arrays bit for bit (float64 viewed as uint64, same shape);
  others_untouched every other key ever written (all 14 key families) is read again - through a rotating alias spelling
                   of its transition (int <-> str, upper/lower case) and species (hydrogen <-> protium share the symbol) -
                   and must still equal the model bit for bit;
  never_written    a rotating set of never-written keys (same tuple in sibling families, neighbouring charges, other
                   isotopes, other transitions / metastables) must raise RuntimeError;
  audit            every file opened for writing / directory created / renamed / removed while repository code ran must
                   lie under the repository_path that was passed;
  home_clean       the redirected $HOME and the scratch working directories contain no new entry (no ~/.cherab);
  rejected         an invalid update (wrong shapes, charge > Z, non-Element species, negative metastable, ragged / missing
                   arrays) leaves every stored key readable and unchanged; keys that are part of the rejected call may
                   hold either their old or their new content (the statement does not demand atomicity).
  rewrite          (generated on top of the above) overwrites whose data differ from the stored data in exactly ONE component
                   (one axis / the table / one element / one element by one ulp / the wavelength), through add_*, update_*
                   and re-installed ADF files with one changed number: last write must still win bit for bit;
  one call, n keys several keys written by one update_* dictionary (up to 9, partly sharing grids and differing in one
                   component) are each read back against their own arrays; keys written by one install_* call (multi-block
                   ADF15 incl. several CHEXC blocks on one grid, multi-charge ADF11, multi-block ADF12) must each carry
                   their own block - judged convention-free by order relations (see _install_cross_key);
  empty branches   update_* dictionaries carrying EMPTY sub-dictionaries at every nesting level (empty class / species / charge /
                   transition branch; first, middle, last in dict order) next to non-empty ones: every non-empty key must be
                   written, nothing else touched (a clean exception is counted as refusal and not judged);
  non-finite       inf / -inf / nan in an axis, a table or a scalar (wavelength, reference values) of every family, through add_*,
                   update_* (next to finite entries) and install_* (ADF file with one INF / NAN field), written into files
                   that already hold other keys: accepted => bit-exact read-back (canonical nan compared by bits); refused by
                   an exception => its own entry old or new and readable, every other stored key unchanged;
  install_files    every front-end also through install_files() with lower / upper / mixed-case configuration keys inside the
                   same last-write-wins histories; a call that returns normally without reaching repository.update_* while the
                   direct front-end installs keys from the same arguments is a violation;
  hostile spelling transition levels whose lower-cased string forms differ ('03' / ' 3' / '+3' / '3.0' / 2.5 / '3_0' vs '3')
                   are different keys: after writing one, the others must raise RuntimeError or keep their own data.
install_adf* front-ends are fed synthetic ADF files (vf/adf_c06.py); the arguments they hand to repository.update_* are
recorded by an argument recorder and those exact arrays must be read back from the repository_path given to install_*.
Every front-end (directly and through install_files) is driven in three modes: file found in adas_path (download=False);
download=True with the file absent from adas_path and fetched - urllib.request.urlretrieve is replaced, only around that
operation, by a harness function that writes the generated ADF text to the requested destination and records URL and
destination; download=True with the file already cached in <repository_path>/_download_cache.  The audit / $HOME / cwd
sensors judge the download cache like any other file: it must lie under the repository_path that was passed
(key <install_fn>:download-cache-outside-repository_path:<where>).
"""
import copy
import inspect
import os
import shutil
import struct
import sys
import tempfile

import numpy as np

from vf import adf_c06 as adfw

ID = "C06"
LEVEL = "exploration"
ENGINES = ["adf_c06"]
RULE = ("random sequential histories (5-60 operations) over the 14 key families / 13 update_* + 14 add_* functions of "
        "cherab.openadas.repository and the 11 install_adf* front-ends, drawn from small per-history pools of species "
        "(H-Ar, isotopes D, T, He3, ... and the hydrogen/protium symbol twins), charges 0..Z, integer / string / "
        "mixed-case transitions, metastables, install modes (file in adas_path / download=True fetched through a faked "
        "urlretrieve / already in the repository's _download_cache), table shapes 1x1..12x15 and value classes (normal, denormal, 1e+-300, "
        "-0.0, integers, DBL_MAX); workload classes: mixed, same-element cross-family, isotopes, transition aliasing, "
        "overwrite-heavy, invalid updates, install front-ends, extreme values. A history is non-trivial when at least "
        "one bit-exact read-back of a written key AND one re-read of another stored key were evaluated; distinct = "
        "distinct fully expanded operation lists")
LEVEL_TEXT = ("Exploration by runtime monitoring: every generated history runs on the real repository functions in a "
              "fresh directory; after every write all keys ever written are read back and compared bit for bit with a "
              "sequential last-write-wins reference map, and an audit hook observes every file-system write. Right level "
              "because the property quantifies over unbounded interleavings of file-backed read-modify-write calls; "
              "only executions can be observed, not all histories")
LEVEL_NOTE = ("trusted: the reference map in this module, CPython's audit events 'open'/'os.mkdir'/'os.rename'/... as "
              "the complete set of file-creating calls of pure-Python code, and json round-tripping float64 exactly. "
              "The repository is single-threaded; crash points and concurrent writers are outside the property")
TECHNIQUE = ("runtime monitoring: history checked against a sequential last-write-wins reference model (bit-exact "
             "read-back of all keys after every write) + sys.addaudithook file-system monitor + argument recorder on "
             "repository.update_* while install_adf* runs")
ASSUMPTIONS = [
    "the ADF11-style families are fed rate dictionaries carrying the table under both 'rates' (the entry the code and "
    "install.py use) and 'rate' (the entry the docstrings name); which of the two is consumed is not judged",
    "within one update_* call no two entries alias the same key (order inside a single call is not specified)",
    "atomicity of a rejected multi-entry update is not demanded: its own entries may be old or new, all others must be "
    "unchanged",
    "which numbers install_adf* derives from an ADF file is property C08; C06 judges only that what install hands to "
    "repository.update_* is what the given repository_path returns, and where files are written",
    "create.populate() needs ~130 genuine OpenADAS files / network access and is not driven",
]
QUICK = dict(cases=120, workers=2, timecap=40)
THOROUGH = dict(cases=15000, workers=16, timecap=600)
# minima sized at ~1/4 of an undisturbed quick run, so that a heavily loaded machine (time cap reached early) still decides
REQUIRED = {"readback": 1000, "others_untouched": 8000, "never_written": 8000, "alias_read": 2000,
            "audit_write_open": 1000, "audit_mkdir": 1000, "home_clean": 40, "rejected_update": 60,
            "rejected_intact": 600, "install_call": 40, "install_readback": 60, "install_download_fetch": 25,
            "install_download_cache_hit": 15, "rewrite_one_component": 150, "hostile_spelling_probe": 1500,
            "install_cross_key_distinct": 150, "update_with_empty_branches": 100, "empty_branch": 200,
            "install_files_key_upper": 8, "install_files_key_mixed": 8, "nonfinite_write": 60}

# ----------------------------------------------------------------------------------------------------------------
# independent species table: variable name in cherab.core.atomic.elements -> (symbol, Z)
# ----------------------------------------------------------------------------------------------------------------
SPECIES = {
    "hydrogen": ("H", 1), "helium": ("He", 2), "lithium": ("Li", 3), "beryllium": ("Be", 4), "boron": ("B", 5),
    "carbon": ("C", 6), "nitrogen": ("N", 7), "oxygen": ("O", 8), "fluorine": ("F", 9), "neon": ("Ne", 10),
    "sodium": ("Na", 11), "magnesium": ("Mg", 12), "aluminium": ("Al", 13), "silicon": ("Si", 14),
    "phosphorus": ("P", 15), "sulfur": ("S", 16), "chlorine": ("Cl", 17), "argon": ("Ar", 18),
    "protium": ("H", 1), "deuterium": ("D", 1), "tritium": ("T", 1), "helium3": ("He3", 2), "helium4": ("He4", 2),
    "lithium6": ("Li6", 3), "lithium7": ("Li7", 3), "beryllium9": ("Be9", 4), "boron10": ("B10", 5),
    "boron11": ("B11", 5), "carbon12": ("C12", 6), "carbon13": ("C13", 6),
}
ELEMENTS = [n for n in SPECIES if n in ("hydrogen", "helium", "lithium", "beryllium", "boron", "carbon", "nitrogen",
                                        "oxygen", "fluorine", "neon", "sodium", "magnesium", "aluminium", "silicon",
                                        "phosphorus", "sulfur", "chlorine", "argon")]
ISOTOPES = [n for n in SPECIES if n not in ELEMENTS]
ISO_GROUPS = [["hydrogen", "protium", "deuterium", "tritium"], ["helium", "helium3", "helium4"],
              ["lithium", "lithium6", "lithium7"], ["boron", "boron10", "boron11"], ["carbon", "carbon12", "carbon13"]]
SAME_SYMBOL = {"hydrogen": "protium", "protium": "hydrogen"}

# ----------------------------------------------------------------------------------------------------------------
# families
# ----------------------------------------------------------------------------------------------------------------
FAM = {
    # name: kind, add fn, update fn, get fn
    "ionisation": ("sq", "add_ionisation_rate", "update_ionisation_rates", "get_ionisation_rate"),
    "recombination": ("sq", "add_recombination_rate", "update_recombination_rates", "get_recombination_rate"),
    "line_power": ("sq", "add_line_power_rate", "update_line_power_rates", "get_line_radiated_power_rate"),
    "continuum_power": ("sq", "add_continuum_power_rate", "update_continuum_power_rates",
                        "get_continuum_radiated_power_rate"),
    "cx_power": ("sq", "add_cx_power_rate", "update_cx_power_rates", "get_cx_radiated_power_rate"),
    "thermal_cx": ("tcx", "add_thermal_cx_rate", "update_thermal_cx_rates", "get_thermal_cx_rate"),
    "pec_excitation": ("pec", "add_pec_excitation_rate", "update_pec_rates", "get_pec_excitation_rate"),
    "pec_recombination": ("pec", "add_pec_recombination_rate", "update_pec_rates", "get_pec_recombination_rate"),
    "pec_thermal_cx": ("pectcx", "add_pec_thermal_cx_rate", "update_pec_thermal_cx_rates", "get_pec_thermal_cx_rate"),
    "wavelength": ("wl", "add_wavelength", "update_wavelengths", "get_wavelength"),
    "beam_cx": ("bcx", "add_beam_cx_rate", "update_beam_cx_rates", "get_beam_cx_rates"),
    "beam_stopping": ("stop", "add_beam_stopping_rate", "update_beam_stopping_rates", "get_beam_stopping_rate"),
    "beam_population": ("pop", "add_beam_population_rate", "update_beam_population_rates", "get_beam_population_rate"),
    "beam_emission": ("emis", "add_beam_emission_rate", "update_beam_emission_rates", "get_beam_emission_rate"),
}
FAMILIES = list(FAM)
SIBLINGS = {}
for _f, _v in FAM.items():
    SIBLINGS[_f] = [g for g, w in FAM.items() if g != _f and (w[0] == _v[0] or {w[0], _v[0]} == {"pec", "wl"})]
UPD_FAMS = {}
for _f, _v in FAM.items():
    UPD_FAMS.setdefault(_v[2], []).append(_f)
FIELDS = {
    "sq": (("ne", 1), ("te", 1), ("rate", 2)), "tcx": (("ne", 1), ("te", 1), ("rate", 2)),
    "pec": (("ne", 1), ("te", 1), ("rate", 2)), "pectcx": (("ne", 1), ("te", 1), ("td", 1), ("rate", 3)),
    "wl": (("wavelength", 0),),
    "bcx": (("eb", 1), ("ti", 1), ("ni", 1), ("z", 1), ("b", 1), ("qeb", 1), ("qti", 1), ("qni", 1), ("qz", 1), ("qb", 1),
            ("qref", 0)),
    "stop": (("e", 1), ("n", 1), ("t", 1), ("sen", 2), ("st", 1), ("eref", 0), ("nref", 0), ("tref", 0), ("sref", 0)),
}
FIELDS["pop"] = FIELDS["stop"]
FIELDS["emis"] = FIELDS["stop"]
HAS_TRANSITION = {"pec", "pectcx", "wl", "bcx", "emis"}

INSTALL_ROUTES = {
    "adf11scd": ({"update_ionisation_rates"}, {"update_ionisation_rates"}),
    "adf11acd": ({"update_recombination_rates"}, {"update_recombination_rates"}),
    "adf11ccd": ({"update_thermal_cx_rates"}, {"update_thermal_cx_rates"}),
    "adf11plt": ({"update_line_power_rates"}, {"update_line_power_rates"}),
    "adf11prb": ({"update_continuum_power_rates"}, {"update_continuum_power_rates"}),
    "adf11prc": ({"update_cx_power_rates"}, {"update_cx_power_rates"}),
    "adf12": ({"update_beam_cx_rates"}, {"update_beam_cx_rates"}),
    # allowed, required
    "adf15": ({"update_pec_rates", "update_wavelengths", "update_pec_thermal_cx_rates"},
              {"update_pec_rates", "update_wavelengths"}),
    "adf21": ({"update_beam_stopping_rates"}, {"update_beam_stopping_rates"}),
    "adf22bmp": ({"update_beam_population_rates"}, {"update_beam_population_rates"}),
    "adf22bme": ({"update_beam_emission_rates"}, {"update_beam_emission_rates"}),
}

_S = {}
_THIRD_PARTY_HOME = {".cache", ".config", ".local", ".matplotlib", ".fontconfig"}   # font / plotting caches of dependencies
_AUD = {"active": False, "events": []}
_WRITE_FLAGS = os.O_WRONLY | os.O_RDWR | os.O_CREAT | os.O_TRUNC | os.O_APPEND


# ----------------------------------------------------------------------------------------------------------------
# audit hook
# ----------------------------------------------------------------------------------------------------------------
def _audit(event, args):
    if not _AUD["active"]:
        return
    try:
        if event == "open":
            path, mode, flags = args[0], args[1], args[2]
            w = False
            if isinstance(mode, str) and any(c in mode for c in "wax+"):
                w = True
            if isinstance(flags, int) and (flags & _WRITE_FLAGS):
                w = True
            if w and isinstance(path, (str, bytes, os.PathLike)):
                _AUD["events"].append(("open-for-write", os.fsdecode(path)))
        elif event == "os.mkdir":
            if isinstance(args[0], (str, bytes, os.PathLike)):
                _AUD["events"].append(("mkdir", os.fsdecode(args[0])))
        elif event in ("os.rename", "os.link", "os.symlink"):
            for p in args[:2]:
                if isinstance(p, (str, bytes, os.PathLike)):
                    _AUD["events"].append((event, os.fsdecode(p)))
        elif event in ("os.remove", "os.rmdir", "os.truncate", "os.chmod", "shutil.copyfile", "shutil.move",
                       "shutil.copytree", "shutil.rmtree"):
            for p in args[:2]:
                if isinstance(p, (str, bytes, os.PathLike)):
                    _AUD["events"].append((event, os.fsdecode(p)))
    except Exception:  # noqa  (an audit hook must never raise into the monitored code)
        pass


def worker_init(ctx):
    import cherab.core.atomic.elements as em
    import cherab.openadas.repository as repo
    import cherab.openadas.install as inst
    sp = {}
    for name, (sym, z) in SPECIES.items():
        o = getattr(em, name)
        if o.symbol != sym or o.atomic_number != z:
            raise RuntimeError("harness species table disagrees with cherab for %s" % name)
        sp[name] = o
    _S.update(sp=sp, repo=repo, inst=inst)
    if not _S.get("hooked"):
        sys.addaudithook(_audit)
        _S["hooked"] = True


# ----------------------------------------------------------------------------------------------------------------
# case generation
# ----------------------------------------------------------------------------------------------------------------
CLASSES = ["mixed", "same-element", "isotopes", "transition-alias", "overwrite", "invalid", "install", "extreme"]
_CLASS_P = [0.2, 0.12, 0.1, 0.12, 0.1, 0.12, 0.14, 0.1]
_TRANS_POOL = [[3, 2], ["3", "2"], [2, 1], [4, 2], ["4", "2"], [8, 7], [10, 9],
               ["2s1 2P", "1S"], ["2s1 2p", "1s"], ["2S1 2P", "1s"],
               ["2s1 3p1 3P4.0", "2s1 3s1 3S1.0"], ["2S1 3P1 3P4.0", "2S1 3S1 3S1.0"],
               ["1s2 2s2 3d1 2D2.5", "1s2 2s2 2p1 2P0.5"], ["n=3", "n=2"], ["N=3", "N=2"], [3, "2"], ["3", 2], [5, 4],
               # hostile spellings: different lower-cased string forms are DIFFERENT keys (and equal forms alias)
               ["03", "02"], [" 3", "2"], ["+3", "+2"], ["3 ", "2 "], ["3.0", "2.0"], [2.5, 1.5], ["2.5", "1.5"],
               [3.5, 2], ["3_0", "2"], ["30", "2"], ["3e0", "2"], ["0x3", "2"], ["\u0663", "2"]]
_VCLASSES = ["normal", "denormal", "huge", "negzero", "ints", "maxfloat"]


def _ri(rng, a, b):
    return int(rng.integers(a, b + 1))


def _pick(rng, seq):
    return seq[int(rng.integers(len(seq)))]


def _vals(rng, n, vclass, positive=True):
    if vclass == "ints":
        return [int(v) for v in rng.integers(1, 1000, size=n)]
    x = np.exp(rng.normal(0.0, 8.0, size=n))
    if not positive:
        x = x * rng.choice([-1.0, 1.0], size=n)
    if vclass == "denormal":
        m = rng.random(n) < 0.5
        x = np.where(m, rng.integers(1, 2 ** 40, size=n) * 5e-324, x)
    elif vclass == "huge":
        m = rng.random(n)
        with np.errstate(over="ignore", under="ignore"):
            x = np.where(m < 0.3, x * 1e300, np.where(m < 0.6, x * 1e-300, x))
        x = np.where(np.isfinite(x), x, 1e300)
    elif vclass == "negzero":
        m = rng.random(n)
        x = np.where(m < 0.3, -0.0, np.where(m < 0.5, 0.0, x))
    elif vclass == "maxfloat":
        m = rng.random(n)
        x = np.where(m < 0.2, np.finfo(float).max, np.where(m < 0.4, np.finfo(float).tiny, np.where(m < 0.5, 5e-324, x)))
    return [float(v) for v in x]


def _axis(rng, n, vclass):
    v = _vals(rng, n, vclass)
    if rng.random() < 0.7:
        v = sorted(v)
    return v


def _table(rng, shape, vclass):
    flat = _vals(rng, int(np.prod(shape)), vclass, positive=rng.random() < 0.8)
    return np.array(flat, dtype=object).reshape(shape).tolist()


def _dim(rng, big):
    if big:
        return _ri(rng, 1, 15)
    return 1 + int(5 * rng.random() ** 2)


def _data(rng, kind, vclass, big=False):
    if rng.random() < 0.15:
        vclass = _pick(rng, _VCLASSES)
    if kind in ("sq", "tcx", "pec"):
        n, m = min(_dim(rng, big), 12), _dim(rng, big)
        return {"ne": _axis(rng, n, vclass), "te": _axis(rng, m, vclass), "rate": _table(rng, (n, m), vclass)}
    if kind == "pectcx":
        n, m, k = min(_dim(rng, big), 8), min(_dim(rng, big), 8), min(_dim(rng, False), 4)
        return {"ne": _axis(rng, n, vclass), "te": _axis(rng, m, vclass), "td": _axis(rng, k, vclass),
                "rate": _table(rng, (n, m, k), vclass)}
    if kind == "wl":
        return {"wavelength": _vals(rng, 1, vclass)[0]}
    if kind == "bcx":
        d = {}
        for x, q in (("eb", "qeb"), ("ti", "qti"), ("ni", "qni"), ("z", "qz"), ("b", "qb")):
            n = _dim(rng, big)
            d[x] = _axis(rng, n, vclass)
            d[q] = _vals(rng, n, vclass)
        d["qref"] = _vals(rng, 1, vclass)[0]
        return d
    n, m, k = min(_dim(rng, big), 12), _dim(rng, big), _dim(rng, big)
    d = {"e": _axis(rng, n, vclass), "n": _axis(rng, m, vclass), "t": _axis(rng, k, vclass),
         "sen": _table(rng, (n, m), vclass), "st": _vals(rng, k, vclass)}
    for r in ("eref", "nref", "tref", "sref"):
        d[r] = _vals(rng, 1, vclass)[0]
    return d


def _mutate_one(rng, kind, data):
    """Copy of `data` that differs from it in exactly ONE component: a whole field (axis or table) replaced by new
    values of the same shape, one element replaced, or one element moved by one ulp.  -> (new data, description)."""
    new = copy.deepcopy(data)
    f, dim = FIELDS[kind][int(rng.integers(len(FIELDS[kind])))]
    a = np.array(new[f], dtype=np.float64)
    mode = _pick(rng, ["field", "element", "ulp"])
    if dim == 0:
        mode = "ulp" if mode == "ulp" else "element"
    flat = a.reshape(-1)
    if mode == "field":
        repl = np.array(_vals(rng, flat.size, "normal"), dtype=np.float64)
        same = repl == flat
        repl[same] = repl[same] * 1.5 + 1.0
        flat[:] = repl
    else:
        i = int(rng.integers(flat.size))
        if mode == "ulp":
            nxt = np.nextafter(flat[i], np.inf)
            if not np.isfinite(nxt):
                nxt = np.nextafter(flat[i], 0.0)
            flat[i] = nxt
        else:
            v = _vals(rng, 1, "normal")[0]
            flat[i] = v if v != flat[i] else v * 1.5 + 1.0
    new[f] = a.tolist() if dim else float(a)
    return new, "%s:%s" % (mode, f)


def _inject_nonfinite(rng, kind, data):
    """Copy of data with one non-finite number ('inf' / '-inf' / 'nan' token) in a random axis, table or scalar."""
    new = copy.deepcopy(data)
    f, dim = FIELDS[kind][int(rng.integers(len(FIELDS[kind])))]
    tok = _pick(rng, ["inf", "-inf", "nan"])
    if dim == 0:
        new[f] = tok
    else:
        lst = new[f]
        while isinstance(lst[0], list):
            lst = lst[int(rng.integers(len(lst)))]
        lst[int(rng.integers(len(lst)))] = tok
        if rng.random() < 0.3:
            lst[int(rng.integers(len(lst)))] = _pick(rng, ["inf", "-inf", "nan"])
    return new


def _inject_install_nonfinite(rng, op):
    new = copy.deepcopy(op)
    kind = op["kind"]
    tok = _pick(rng, ["inf", "-inf", "nan"])

    def put(lst):
        while isinstance(lst[0], list):
            lst = lst[int(rng.integers(len(lst)))]
        lst[int(rng.integers(len(lst)))] = tok

    if kind.startswith("adf11"):
        put(_pick(rng, new["blocks"])[1])
    elif kind == "adf15":
        put(_pick(rng, new["blocks"])[_pick(rng, ["pec", "pec", "ne", "te"])])
    elif kind == "adf12":
        b = _pick(rng, new["blocks"])
        w = _pick(rng, ["eb", "qeb", "ti", "qti", "ni", "qni", "z", "qz", "b", "qb", "qref"])
        if w == "qref":
            b["qref"] = tok
        else:
            put(b[w])
    else:
        w = _pick(rng, ["eb", "dt", "sv", "sv", "tt", "svt", "svref", "tref", "eref", "dref"])
        if isinstance(new[w], list):
            put(new[w])
        else:
            new[w] = tok
    new["nonfinite"] = True
    return new


def _empty_branches(rng, pools, items):
    """1-3 empty branches for an update dictionary: a sibling of an existing entry at a random nesting level
    (another species / charge / transition / metastable / class with nothing below it), placed first, in the middle or last."""
    out = []
    for _ in range(_ri(rng, 1, 3)):
        base = _pick(rng, items)
        fam = base["fam"]
        names = PATH_FIELDS[FAM[fam][0]]
        key = copy.deepcopy(base["key"]) if rng.random() < 0.7 else pools.key(fam)
        depth = _ri(rng, 1, len(names) - 1)
        f = names[depth - 1]
        if rng.random() < 0.8:
            if f == "CLASS":
                fam = "pec_recombination" if fam == "pec_excitation" else "pec_excitation"
            elif f in _SPECIES_FIELDS:
                key[f] = pools.sp()
            elif f in ("q", "rq"):
                spf = {"q": "sp" if "sp" in key else "tgt", "rq": "rec"}[f]
                key[f] = pools.charge(key[spf])
            elif f == "dq":
                key[f] = pools.charge(key["don"], 0, SPECIES[key["don"]][1] - 1)
            elif f == "ms":
                key[f] = _pick(rng, pools.ms)
            elif f == "tr":
                key[f] = pools.tr()
        # components below the empty level are irrelevant but must stay well-formed
        for spf, qf in (("sp", "q"), ("tgt", "q"), ("rec", "rq")):
            if spf in key and qf in key and key[qf] > SPECIES[key[spf]][1]:
                key[qf] = SPECIES[key[spf]][1]
        if "don" in key and "dq" in key and key["dq"] > SPECIES[key["don"]][1] - 1:
            key["dq"] = SPECIES[key["don"]][1] - 1
        out.append({"fam": fam, "key": key, "depth": depth, "pos": _pick(rng, ["first", "last", _ri(rng, 0, len(items))])})
    return out


def _mutate_install(rng, op):
    """Copy of an install operation whose ADF file differs in exactly ONE printed number."""
    new = copy.deepcopy(op)
    kind = op["kind"]

    def bump(lst, fmt):
        """change one number of a (nested) list so that its printed form changes"""
        while isinstance(lst[0], list):
            lst = lst[int(rng.integers(len(lst)))]
        i = int(rng.integers(len(lst)))
        if fmt == "f5":
            lst[i] = round(lst[i] + 0.25, 5)
        else:
            lst[i] = float("%.2E" % (lst[i] * 1.5))
        return i

    if kind.startswith("adf11"):
        which = _pick(rng, ["log_ne", "log_te", "table", "table"])
        if which == "table":
            bump(_pick(rng, new["blocks"])[1], "f5")
        else:
            bump(new[which], "f5")
    elif kind == "adf15":
        b = _pick(rng, new["blocks"])
        which = _pick(rng, ["ne", "te", "pec", "pec", "wl"])
        if which == "wl":
            wl = round(b["wl"] + 1.5, 1)
            for x in new["blocks"]:          # one transition, one wavelength (as in genuine files)
                if (x["upper"], x["lower"]) == (b["upper"], b["lower"]):
                    x["wl"] = wl
        else:
            bump(b[which], "e2")
    elif kind == "adf12":
        b = _pick(rng, new["blocks"])
        which = _pick(rng, ["eb", "qeb", "ti", "qti", "ni", "qni", "z", "qz", "b", "qb", "qref"])
        if which == "qref":
            b["qref"] = float("%.2E" % (b["qref"] * 1.5))
        else:
            bump(b[which], "e2")
    else:
        which = _pick(rng, ["eb", "dt", "sv", "tt", "svt", "svref", "tref", "eref", "dref"])
        if isinstance(new[which], list):
            bump(new[which], "e2")
        else:
            new[which] = float("%.2E" % (new[which] * 1.5))
    new["rewrite"] = which
    new["via_files"] = bool(rng.random() < 0.5) if not op.get("via_files") else bool(rng.random() < 0.3)
    new["files_key"] = _pick(rng, ["lower", "upper", "mixed"])
    new["download"] = ["none", "fetch", "cached"][int(rng.choice(3, p=[0.5, 0.3, 0.2]))]
    return new


class _Pools:
    def __init__(self, rng, cls):
        self.rng = rng
        if cls == "isotopes":
            g = _pick(rng, ISO_GROUPS[:2] if rng.random() < 0.7 else ISO_GROUPS)
            self.species = list(g)
            if rng.random() < 0.5:
                self.species.append(_pick(rng, ELEMENTS))
        elif cls in ("same-element", "overwrite"):
            self.species = [_pick(rng, ELEMENTS)]
            if rng.random() < 0.5:
                self.species.append(_pick(rng, ELEMENTS + ISOTOPES))
        else:
            k = _ri(rng, 2, 4)
            self.species = [_pick(rng, ELEMENTS + ISOTOPES) for _ in range(k)]
            if rng.random() < 0.4:
                self.species += ["hydrogen", "deuterium"]
            if rng.random() < 0.2:
                self.species += ["protium"]
        nt = 2 if cls == "overwrite" else _ri(rng, 2, 5)
        if cls == "transition-alias":
            self.trans = [t for t in _TRANS_POOL]
        else:
            self.trans = [_pick(rng, _TRANS_POOL) for _ in range(nt)]
        self.ms = [0, 1] if cls == "overwrite" else [0, 1, 2, 5]
        self.charge_span = 1 if cls == "overwrite" else 3

    def sp(self):
        return _pick(self.rng, self.species)

    def charge(self, name, lo=0, hi=None):
        z = SPECIES[name][1]
        hi = z if hi is None else hi
        r = self.rng.random()
        if r < 0.25:
            return hi
        if r < 0.45:
            return lo
        return _ri(self.rng, lo, min(hi, lo + self.charge_span))

    def tr(self):
        return copy.deepcopy(_pick(self.rng, self.trans))

    def key(self, fam):
        kind = FAM[fam][0]
        if kind == "sq":
            s = self.sp()
            return {"sp": s, "q": self.charge(s)}
        if kind == "tcx":
            d, r = self.sp(), self.sp()
            return {"don": d, "dq": self.charge(d, 0, SPECIES[d][1] - 1), "rec": r, "rq": self.charge(r)}
        if kind == "pec":
            s = self.sp()
            return {"sp": s, "q": self.charge(s), "tr": self.tr()}
        if kind == "pectcx":
            d, r = self.sp(), self.sp()
            return {"don": d, "dq": self.charge(d, 0, SPECIES[d][1] - 1), "rec": r, "rq": self.charge(r), "tr": self.tr()}
        if kind == "wl":
            s = self.sp()
            return {"sp": s, "q": self.charge(s), "tr": self.tr()}
        if kind == "bcx":
            d, r = self.sp(), self.sp()
            return {"don": d, "rec": r, "rq": self.charge(r), "tr": self.tr(), "ms": _pick(self.rng, self.ms)}
        if kind == "stop":
            b, t = self.sp(), self.sp()
            return {"beam": b, "tgt": t, "q": self.charge(t)}
        if kind == "pop":
            b, t = self.sp(), self.sp()
            return {"beam": b, "ms": _pick(self.rng, self.ms), "tgt": t, "q": self.charge(t)}
        b, t = self.sp(), self.sp()
        return {"beam": b, "tgt": t, "q": self.charge(t), "tr": self.tr()}


def canon_tr(tr):
    return (str(tr[0]).lower(), str(tr[1]).lower())


def canon_key(fam, key):
    """Model key: species by symbol, integers, transition levels by lower-cased string form."""
    kind = FAM[fam][0]
    sym = lambda n: SPECIES[n][0]
    if kind == "sq":
        return (sym(key["sp"]), int(key["q"]))
    if kind == "tcx":
        return (sym(key["don"]), int(key["dq"]), sym(key["rec"]), int(key["rq"]))
    if kind in ("pec", "wl"):
        return (sym(key["sp"]), int(key["q"]), canon_tr(key["tr"]))
    if kind == "pectcx":
        return (sym(key["don"]), int(key["dq"]), sym(key["rec"]), int(key["rq"]), canon_tr(key["tr"]))
    if kind == "bcx":
        return (sym(key["don"]), sym(key["rec"]), int(key["rq"]), canon_tr(key["tr"]), int(key["ms"]))
    if kind == "stop":
        return (sym(key["beam"]), sym(key["tgt"]), int(key["q"]))
    if kind == "pop":
        return (sym(key["beam"]), int(key["ms"]), sym(key["tgt"]), int(key["q"]))
    return (sym(key["beam"]), sym(key["tgt"]), int(key["q"]), canon_tr(key["tr"]))


def _bad_item(rng, pools, fam, vclass):
    """An invalid entry for family fam: returns (item, kind-of-invalidity)."""
    kind = FAM[fam][0]
    key = pools.key(fam)
    data = _data(rng, kind, vclass)
    options = ["charge>Z", "non-element"]
    if kind != "wl":
        options += ["shape", "ndim", "ragged", "missing-field"]
    else:
        options += ["not-a-number"]
    if kind in ("bcx", "pop"):
        options += ["neg-metastable"]
    bad = _pick(rng, options)
    if bad == "charge>Z":
        f = "q" if "q" in key else "rq"
        sp = key.get("sp") or key.get("rec") or key.get("tgt")
        key[f] = SPECIES[sp][1] + _ri(rng, 1, 3)
    elif bad == "non-element":
        f = _pick(rng, [k for k in ("sp", "rec", "tgt", "beam", "don") if k in key and not (fam == "thermal_cx" and k == "don")])
        key[f + "_as_str"] = True
    elif bad == "missing-field":
        f = _pick(rng, [n for n, _ in FIELDS[kind]])
        data.pop(f)
        data["_missing"] = f
    elif bad == "not-a-number":
        data["wavelength"] = "abc"
    elif bad == "neg-metastable":
        key["ms"] = -_ri(rng, 1, 3)
    elif bad in ("shape", "ndim", "ragged"):
        twod = [n for n, d in FIELDS[kind] if d >= 2]
        oned = [n for n, d in FIELDS[kind] if d == 1]
        if bad == "ndim":
            f = _pick(rng, oned)
            data[f] = [data[f]]
        elif bad == "shape":
            if twod and rng.random() < 0.7:
                f = twod[0]
                data[f] = data[f] + [copy.deepcopy(data[f][0])]      # one row too many
            else:
                f = _pick(rng, oned)
                data[f] = data[f] + [1.0]                             # axis longer than its table / partner
        else:
            if twod:
                f = twod[0]
                row = data[f][0]
                data[f] = data[f] + [(row + row)[:len(row) + 1]]      # ragged: last row longer
            else:
                f = _pick(rng, oned)
                data[f] = [data[f], [1.0]]
    return {"fam": fam, "key": key, "data": data, "bad": bad}, bad


def _install_op(rng, pools, big):
    kind = _pick(rng, list(INSTALL_ROUTES))
    op = {"op": "install", "kind": kind, "via_files": bool(rng.random() < 0.35),
          "files_key": _pick(rng, ["lower", "upper", "mixed"]),
          "download": ["none", "fetch", "cached"][int(rng.choice(3, p=[0.5, 0.3, 0.2]))]}
    lg = lambda lo, hi, n: sorted(round(float(v), 5) for v in rng.uniform(lo, hi, size=n))
    if kind.startswith("adf11"):
        el = _pick(rng, [s for s in pools.species if s in ELEMENTS] or ELEMENTS)
        z = SPECIES[el][1]
        nd, nt = _ri(rng, 1, 11 if big else 5), _ri(rng, 1, 13 if big else 5)
        z1_lo = _ri(rng, 1, z)
        z1_hi = _ri(rng, z1_lo, min(z, z1_lo + 3))
        op.update(species=el, log_ne=lg(7, 15, nd), log_te=lg(0, 4, nt),
                  blocks=[[z1, [[round(float(v), 5) for v in rng.uniform(-40, -5, size=nd)] for _ in range(nt)]]
                          for z1 in range(z1_lo, z1_hi + 1)])
        if kind == "adf11ccd":
            don = pools.sp()
            op.update(donor=don, donor_charge=pools.charge(don, 0, SPECIES[don][1] - 1))
        return op
    e3 = lambda lo, hi, n: [float("%.2E" % (10 ** v)) for v in rng.uniform(lo, hi, size=n)]
    if kind == "adf15":
        style = _pick(rng, ["hydrogen", "hydrogen", "hydrogen-like", "full"])
        if style == "hydrogen":
            el = "hydrogen" if rng.random() < 0.5 else pools.sp()
            q = pools.charge(el, 0, SPECIES[el][1] - 1)
            hf = None if el == "hydrogen" else "hydrogen"
        elif style == "hydrogen-like":
            el = _pick(rng, [s for s in pools.species if SPECIES[s][1] >= 1])
            if rng.random() < 0.5 and el != "hydrogen":
                q, hf = SPECIES[el][1] - 1, None          # auto-detected: one electron left
            else:
                q, hf = pools.charge(el, 0, SPECIES[el][1] - 1), "hydrogen-like"
            if el == "hydrogen":
                style = "hydrogen"
                hf = None
        else:
            cands = [s for s in pools.species if SPECIES[s][1] >= 3] or ["carbon"]
            el = _pick(rng, cands)
            q = _ri(rng, 0, SPECIES[el][1] - 2)           # at least two electrons: 'full' header style auto-detected
            hf = None
        nb = _ri(rng, 1, 8)
        types = [_pick(rng, ["EXCIT", "RECOM", "CHEXC"]) for _ in range(nb)]
        if rng.random() < 0.5:
            types[:3] = ["EXCIT", "RECOM", "CHEXC"][:nb]
        if rng.random() < 0.25:
            types = [_pick(rng, ["EXCIT", "RECOM", "CHEXC"])] * nb      # one type only: many keys of one family per file
        # genuine files share one (ne, te) grid between blocks
        shared = None
        if rng.random() < 0.6:
            shared = (_ri(rng, 1, 10 if big else 4), _ri(rng, 1, 10 if big else 4))
            shared_axes = (sorted(e3(8, 15, shared[0])), sorted(e3(-1, 4, shared[1]))) if rng.random() < 0.5 else None
        levels = None
        if style == "full":
            confs = ["1S2 2S2 2P1", "1S2 2S1 2P2", "1S2 2S2 3S1", "1S2 2S2 3P1", "1S2 2S2 3D1", "1S2 2P3"]
            levels = [{"id": i + 1, "conf": confs[i], "mult": str(_pick(rng, [1, 2, 3, 4])), "L": _ri(rng, 0, 4),
                       "J": _pick(rng, ["0.5", "1.5", "2.5", "0.0", "1.0", "4.0"])} for i in range(_ri(rng, 2, 6))]
        blocks, seen, wl_of = [], set(), {}
        for i, t in enumerate(types):
            for _ in range(20):
                if style == "full":
                    lo = _ri(rng, 1, len(levels) - 1)
                    up = _ri(rng, lo + 1, len(levels))
                else:
                    lo = _ri(rng, 1, 5)
                    up = _ri(rng, lo + 1, 9)
                if (t, up, lo) not in seen:
                    break
            if (t, up, lo) in seen:
                continue
            seen.add((t, up, lo))
            nn, nt = shared if shared else (_ri(rng, 1, 10 if big else 4), _ri(rng, 1, 10 if big else 4))
            ne_ax, te_ax = (list(shared_axes[0]), list(shared_axes[1])) if (shared and shared_axes) else \
                (sorted(e3(8, 15, nn)), sorted(e3(-1, 4, nt)))
            wl_of.setdefault((up, lo), round(float(rng.uniform(100, 9000)), 1))
            blocks.append({"isel": len(blocks) + 1, "wl": wl_of[(up, lo)], "type": t, "upper": up,
                           "lower": lo, "ne": ne_ax, "te": te_ax,
                           "pec": [e3(-14, -7, nt) for _ in range(nn)]})
        op.update(species=el, charge=q, style=style, header_format=hf, blocks=blocks, levels=levels)
        return op
    if kind == "adf12":
        don, rec = pools.sp(), pools.sp()
        blocks, seen = [], set()
        for _ in range(_ri(rng, 1, 4)):
            lo = _ri(rng, 1, 9)
            up = _ri(rng, lo + 1, 12)
            if (up, lo) in seen:
                continue
            seen.add((up, lo))
            b = {"upper": up, "lower": lo, "qref": e3(-10, -7, 1)[0], "refs": e3(0, 5, 5)}
            for x, q, mx in (("eb", "qeb", 24), ("ti", "qti", 12), ("ni", "qni", 24), ("z", "qz", 12), ("b", "qb", 12)):
                n = _ri(rng, 1, mx if big else 6)
                b[x] = sorted(e3(0, 5, n))
                b[q] = e3(-10, -7, n)
            blocks.append(b)
        op.update(donor=don, ms=_pick(rng, pools.ms), receiver=rec, charge=pools.charge(rec), blocks=blocks)
        return op
    beam, tgt = pools.sp(), pools.sp()
    ne, nd, nt = _ri(rng, 1, 12 if big else 5), _ri(rng, 1, 10 if big else 4), _ri(rng, 1, 12 if big else 5)
    op.update(beam=beam, target=tgt, charge=pools.charge(tgt), svref=e3(-9, -6, 1)[0], tref=e3(1, 4, 1)[0],
              eb=sorted(e3(2, 5, ne)), dt=sorted(e3(11, 15, nd)), sv=[e3(-9, -6, nd) for _ in range(ne)],
              eref=e3(3, 5, 1)[0], dref=e3(12, 14, 1)[0], tt=sorted(e3(0, 4, nt)), svt=e3(-9, -6, nt))
    if kind == "adf22bmp":
        op["ms"] = _pick(rng, pools.ms)
    if kind == "adf22bme":
        op["transition"] = _pick(rng, [[3, 2], [4, 2], ["3", "2"], [2, 1]])
    return op


def gen_case(rng, tier):
    cls = CLASSES[int(rng.choice(len(CLASSES), p=_CLASS_P))]
    pools = _Pools(rng, cls)
    nops = 5 + int(56 * rng.random() ** 2.2)
    if cls == "install":
        nops = min(nops, 30)
    vclass = "normal"
    if cls == "extreme":
        vclass = _pick(rng, _VCLASSES[1:])
    big = cls == "extreme" and rng.random() < 0.5
    if big:
        nops = min(nops, 25)
    if cls == "same-element":
        k0 = _pick(rng, ["sq", "sq", "pec", "stop"])
        fams = [f for f in FAMILIES if FAM[f][0] in ((k0, "wl") if k0 == "pec" else ("stop", "emis", "pop") if k0 == "stop" else (k0,))]
    elif cls == "transition-alias":
        fams = [f for f in FAMILIES if FAM[f][0] in HAS_TRANSITION]
    elif cls == "overwrite":
        fams = [_pick(rng, FAMILIES) for _ in range(_ri(rng, 1, 3))]
    else:
        fams = list(FAMILIES)
    p_bad = {"invalid": 0.35, "install": 0.05}.get(cls, 0.08)
    p_inst = {"install": 0.45, "mixed": 0.08, "isotopes": 0.05}.get(cls, 0.0)
    p_rw = {"overwrite": 0.45, "install": 0.25}.get(cls, 0.15)      # overwrite differing in exactly one component
    p_nf = {"extreme": 0.2, "invalid": 0.12}.get(cls, 0.05)         # one non-finite number in the written data
    ops = []
    hist, inst_hist = [], []       # what valid operations have written so far (generation-time bookkeeping only)

    def remember(item):
        ck = (item["fam"], canon_key(item["fam"], item["key"]))
        hist[:] = [h for h in hist if (h["fam"], canon_key(h["fam"], h["key"])) != ck]
        hist.append(item)

    for _ in range(nops):
        r = rng.random()
        if r < p_inst:
            if inst_hist and rng.random() < 0.4:
                op = _mutate_install(rng, _pick(rng, inst_hist))
            else:
                op = _install_op(rng, pools, big)
            if (op["kind"] != "adf15" or op["blocks"]) and rng.random() < 2 * p_nf:
                ops.append(_inject_install_nonfinite(rng, op))      # same file with one non-finite number
                continue
            if op["kind"] != "adf15" or op["blocks"]:
                inst_hist.append(op)
            ops.append(op)
            continue
        if rng.random() < p_nf:
            # non-finite numbers written into files that already hold other keys: a stored key itself, or a sibling
            if hist and rng.random() < 0.7:
                prev = _pick(rng, hist)
                fam = prev["fam"]
                key = copy.deepcopy(prev["key"]) if rng.random() < 0.5 else pools.key(fam)
                data = prev["data"] if rng.random() < 0.5 else _data(rng, FAM[fam][0], vclass, big)
            else:
                fam = _pick(rng, fams)
                key, data = pools.key(fam), _data(rng, FAM[fam][0], vclass, big)
            item = {"fam": fam, "key": key, "data": _inject_nonfinite(rng, FAM[fam][0], data), "nonfinite": True}
            ck0 = (fam, canon_key(fam, key))
            hist[:] = [h for h in hist if (h["fam"], canon_key(h["fam"], h["key"])) != ck0]     # state unknown at generation time
            if rng.random() < 0.5:
                ops.append({"op": "add", "fn": FAM[fam][1], "fam": fam, "key": key, "data": item["data"], "nonfinite": True})
            else:
                items, seen = [item], {ck0}
                for _j in range(_ri(rng, 0, 2)):
                    f2 = _pick(rng, UPD_FAMS[FAM[fam][2]])
                    k2 = pools.key(f2)
                    ck = (f2, canon_key(f2, k2))
                    if ck in seen:
                        continue
                    seen.add(ck)
                    items.append({"fam": f2, "key": k2, "data": _data(rng, FAM[f2][0], vclass, big)})
                    hist[:] = [h for h in hist if (h["fam"], canon_key(h["fam"], h["key"])) != ck]
                if rng.random() < 0.5:
                    items.reverse()
                ops.append({"op": "update", "fn": FAM[fam][2], "items": items, "nonfinite": True})
            continue
        if hist and rng.random() < p_rw:
            # re-write stored keys with data that differ from the stored ones in exactly one component
            prev = _pick(rng, hist)
            fam = prev["fam"]
            data, what = _mutate_one(rng, FAM[fam][0], prev["data"])
            item = {"fam": fam, "key": copy.deepcopy(prev["key"]), "data": data}
            if rng.random() < 0.5:
                ops.append({"op": "add", "fn": FAM[fam][1], "fam": fam, "key": item["key"], "data": data, "rewrite": what})
            else:
                items, seen = [item], {(fam, canon_key(fam, item["key"]))}
                for h in hist:
                    if len(items) >= 4 or rng.random() < 0.5 or FAM[h["fam"]][2] != FAM[fam][2]:
                        continue
                    ck = (h["fam"], canon_key(h["fam"], h["key"]))
                    if ck in seen:
                        continue
                    seen.add(ck)
                    d2, _w = _mutate_one(rng, FAM[h["fam"]][0], h["data"])
                    items.append({"fam": h["fam"], "key": copy.deepcopy(h["key"]), "data": d2})
                ops.append({"op": "update", "fn": FAM[fam][2], "items": items, "rewrite": what})
                if rng.random() < 0.25:
                    ops[-1]["empties"] = _empty_branches(rng, pools, items)
                for it in items[1:]:
                    remember(it)
            remember(item)
            continue
        fam = _pick(rng, fams)
        kind = FAM[fam][0]
        if r < p_inst + p_bad:
            item, bad = _bad_item(rng, pools, fam, vclass)
            if rng.random() < 0.4:
                ops.append({"op": "bad", "via": "add", "fn": FAM[fam][1], "items": [item]})
            else:
                ufn = FAM[fam][2]
                items, seen = [], {(fam, canon_key(fam, item["key"]))}
                n_before, n_after = _ri(rng, 0, 2), _ri(rng, 0, 2)
                for j in range(n_before + n_after):
                    f2 = _pick(rng, UPD_FAMS[ufn])
                    k2 = pools.key(f2)
                    ck = (f2, canon_key(f2, k2))
                    if ck in seen:
                        continue
                    seen.add(ck)
                    items.append({"fam": f2, "key": k2, "data": _data(rng, FAM[f2][0], vclass, big)})
                items.insert(min(n_before, len(items)), item)
                ops.append({"op": "bad", "via": "update", "fn": ufn, "items": items})
            continue
        if rng.random() < 0.5:
            ops.append({"op": "add", "fn": FAM[fam][1], "fam": fam, "key": pools.key(fam),
                        "data": _data(rng, kind, vclass, big)})
            remember({"fam": fam, "key": ops[-1]["key"], "data": ops[-1]["data"]})
        else:
            ufn = FAM[fam][2]
            items, seen = [], set()
            # several keys written by ONE call; part of them share the grid and differ in one component only
            for j in range(_ri(rng, 1, 4) if rng.random() < 0.8 else _ri(rng, 5, 9)):
                f2 = fam if j == 0 else _pick(rng, UPD_FAMS[ufn])
                k2 = pools.key(f2)
                ck = (f2, canon_key(f2, k2))
                if ck in seen:
                    continue
                seen.add(ck)
                twin = [it for it in items if it["fam"] == f2]
                if twin and rng.random() < 0.4:
                    d2 = _mutate_one(rng, FAM[f2][0], _pick(rng, twin)["data"])[0]
                else:
                    d2 = _data(rng, FAM[f2][0], vclass, big)
                items.append({"fam": f2, "key": k2, "data": d2})
            ops.append({"op": "update", "fn": ufn, "items": items})
            if rng.random() < 0.35:
                ops[-1]["empties"] = _empty_branches(rng, pools, items)
            for it in items:
                remember(it)
    probes = []
    for _ in range(12):
        f = _pick(rng, fams)
        probes.append({"fam": f, "key": pools.key(f)})
    return {"cls": cls, "repo_exists": bool(rng.random() < 0.5), "repo_name": _pick(rng, ["repository", "my repo", "Repo.v2", "r"]),
            "ops": ops, "probes": probes}


def fixed_cases(tier):
    """Deterministic regression / hostile histories (shard 0)."""
    t22 = {"ne": [1e18, 1e19], "te": [1.0, 10.0], "rate": [[1e-20, 2e-20], [3e-20, 4e-20]]}
    t12 = {"ne": [1e19], "te": [1.0, 5.0], "rate": [[-0.0, 5e-324]]}

    def add(fam, key, data):
        return {"op": "add", "fn": FAM[fam][1], "fam": fam, "key": key, "data": copy.deepcopy(data)}

    cases = []
    # every add_* of the (species, charge) families on one element, then overwrite each once
    ops = []
    for i, fam in enumerate(["ionisation", "recombination", "line_power", "continuum_power", "cx_power"]):
        ops.append(add(fam, {"sp": "carbon", "q": 2}, dict(t22, rate=[[1.0 + i, 2.0], [3.0, 4.0]])))
    for i, fam in enumerate(["cx_power", "continuum_power", "line_power", "recombination", "ionisation"]):
        ops.append(add(fam, {"sp": "carbon", "q": 2}, dict(t12, rate=[[10.0 + i, 5e-324]])))
    ops.append(add("thermal_cx", {"don": "hydrogen", "dq": 0, "rec": "carbon", "rq": 6}, t22))
    cases.append({"cls": "same-element", "repo_exists": False, "repo_name": "repository", "ops": ops,
                  "probes": [{"fam": "ionisation", "key": {"sp": "carbon", "q": 3}}]})
    # transition aliasing across spellings in every transition-keyed family
    ops = []
    for fam in ("pec_excitation", "pec_recombination", "wavelength"):
        d = {"wavelength": 656.28} if fam == "wavelength" else t22
        d2 = {"wavelength": 121.5} if fam == "wavelength" else t12
        ops += [add(fam, {"sp": "deuterium", "q": 0, "tr": [3, 2]}, d), add(fam, {"sp": "deuterium", "q": 0, "tr": ["3", "2"]}, d2),
                add(fam, {"sp": "carbon", "q": 1, "tr": ["2S1 2P", "1S"]}, d), add(fam, {"sp": "carbon", "q": 1, "tr": ["2s1 2p", "1s"]}, d2)]
    cases.append({"cls": "transition-alias", "repo_exists": True, "repo_name": "my repo", "ops": ops, "probes": []})
    # install_adf15 with EXCIT + RECOM + CHEXC blocks for hydrogen (reaches the thermal-CX branch)
    blocks = [{"isel": i + 1, "wl": 6561.9, "type": t, "upper": 3, "lower": 2, "ne": [1e8, 1e10, 1e12], "te": [1.0, 10.0],
               "pec": [[1e-9 * (i + 1), 2e-9], [3e-9, 4e-9], [5e-9, 6e-9]]} for i, t in enumerate(["EXCIT", "RECOM", "CHEXC"])]
    ops = [add("pec_excitation", {"sp": "hydrogen", "q": 0, "tr": [2, 1]}, t22),
           {"op": "install", "kind": "adf15", "species": "hydrogen", "charge": 0, "style": "hydrogen", "header_format": None,
            "blocks": blocks, "levels": None},
           add("pec_thermal_cx", {"don": "hydrogen", "dq": 0, "rec": "hydrogen", "rq": 1, "tr": [4, 2]},
               {"ne": [1e19], "te": [1.0, 2.0], "td": [1.0], "rate": [[[1e-20], [2e-20]]]})]
    cases.append({"cls": "install", "repo_exists": True, "repo_name": "repository", "ops": ops, "probes": []})
    # one install of every front-end kind, fixed numbers
    rng = np.random.default_rng(20260928)
    pools = _Pools(rng, "mixed")
    pools.species = ["hydrogen", "deuterium", "carbon", "neon"]
    ops = []
    kinds = list(INSTALL_ROUTES)
    guard = 0
    while kinds and guard < 500:
        guard += 1
        op = _install_op(rng, pools, False)
        if op["kind"] in kinds:
            kinds.remove(op["kind"])
            ops.append(op)
    from vf.core import jsonable
    for op in ops:
        op["download"] = "none"
    cases.append(jsonable({"cls": "install", "repo_exists": False, "repo_name": "Repo.v2", "ops": ops, "probes": []}))
    # the same front-ends with download=True: file fetched (fake network) / already cached in the given repository,
    # called directly and through install_files()
    for mode, via, exists in (("fetch", False, False), ("fetch", True, True), ("cached", False, True), ("cached", True, False)):
        ops2 = [dict(copy.deepcopy(op), download=mode, via_files=via, files_key=["upper", "mixed", "lower"][i % 3])
                for i, op in enumerate(ops)]
        cases.append(jsonable({"cls": "install", "repo_exists": exists, "repo_name": "repository", "ops": ops2, "probes": []}))
    # overwrites that differ from the stored data in exactly one component, through add_*, update_* and install_*
    ops = []
    for fam in ("ionisation", "recombination", "line_power", "continuum_power", "cx_power"):
        k = {"sp": "neon", "q": 3}
        ops.append(add(fam, k, t22))
        ops.append(dict(add(fam, k, dict(t22, ne=[1e12, 1e13])), rewrite="field:ne"))
        ops.append({"op": "update", "fn": FAM[fam][2], "rewrite": "field:te",
                    "items": [{"fam": fam, "key": dict(k), "data": dict(copy.deepcopy(t22), ne=[1e12, 1e13], te=[1.5, 15.0])}]})
        ops.append(dict(add(fam, k, dict(t22, ne=[1e12, 1e13], te=[1.5, 15.0], rate=[[1e-20, 2e-20], [3e-20, 4.000000000000001e-20]])),
                        rewrite="ulp:rate"))
    k = {"don": "hydrogen", "dq": 0, "rec": "neon", "rq": 3}
    ops += [add("thermal_cx", k, t22), dict(add("thermal_cx", k, dict(t22, te=[2.0, 20.0])), rewrite="field:te")]
    cases.append({"cls": "overwrite", "repo_exists": True, "repo_name": "repository", "ops": copy.deepcopy(ops), "probes": []})
    ops = []
    for kind in ("adf11scd", "adf11acd", "adf11ccd", "adf11plt", "adf11prb", "adf11prc"):
        op = {"op": "install", "kind": kind, "via_files": False, "download": "none", "species": "carbon",
              "log_ne": [8.0, 9.0, 10.0], "log_te": [0.0, 1.0],
              "blocks": [[z1, [[-10.0 - z1, -11.0, -12.0], [-10.5, -11.5 - z1, -12.5]]] for z1 in (2, 3, 4)]}
        if kind == "adf11ccd":
            op.update(donor="hydrogen", donor_charge=0)
        ops.append(op)
        ops.append(dict(copy.deepcopy(op), log_ne=[14.0, 15.0, 16.0], rewrite="log_ne"))
        ops.append(dict(copy.deepcopy(op), log_ne=[14.0, 15.0, 16.0], log_te=[0.5, 1.5], rewrite="log_te", via_files=True))
    cases.append({"cls": "install", "repo_exists": True, "repo_name": "repository", "ops": ops, "probes": []})
    # many keys written by one file: several EXCIT and CHEXC blocks on one shared (ne, te) grid
    blocks = [{"isel": i + 1, "wl": 1000.0 + 100 * up, "type": t, "upper": up, "lower": 2, "ne": [1e13, 2e13], "te": [1.0, 10.0, 100.0],
               "pec": [[1e-9 * (i + 1) + 1e-10 * j for j in range(3)], [1e-9 * (i + 1) + 1e-10 * (j + 3) for j in range(3)]]}
              for i, (t, up) in enumerate([("EXCIT", 3), ("CHEXC", 3), ("CHEXC", 4), ("CHEXC", 5), ("EXCIT", 4), ("RECOM", 3), ("RECOM", 5)])]
    ops = [{"op": "install", "kind": "adf15", "species": "hydrogen", "charge": 0, "style": "hydrogen", "header_format": None,
            "blocks": blocks, "levels": None, "via_files": False, "download": "none"},
           {"op": "install", "kind": "adf15", "species": "carbon", "charge": 5, "style": "hydrogen-like", "header_format": None,
            "blocks": copy.deepcopy(blocks), "levels": None, "via_files": True, "download": "fetch"}]
    cases.append({"cls": "install", "repo_exists": False, "repo_name": "repository", "ops": ops, "probes": []})
    # hostile level spellings: different string forms are different keys
    ops = []
    for fam in ("wavelength", "pec_excitation", "pec_recombination"):
        d = {"wavelength": 656.28} if fam == "wavelength" else t22
        d2 = {"wavelength": 121.5} if fam == "wavelength" else t12
        for i, tr in enumerate(([3, 2], ["03", "02"], [2.5, 1.5], ["+3", " 2"], [2, 1], ["3.0", "2.0"])):
            ops.append(add(fam, {"sp": "carbon", "q": 2, "tr": tr}, d if i % 2 == 0 else d2))
    ops.append(add("beam_emission", {"beam": "deuterium", "tgt": "carbon", "q": 6, "tr": [3, 2]},
                   {"e": [1e3], "n": [1e19], "t": [10.0], "sen": [[1e-14]], "st": [1.0], "eref": 1e4, "nref": 1e19, "tref": 100.0, "sref": 1e-14}))
    ops.append(add("beam_emission", {"beam": "deuterium", "tgt": "carbon", "q": 6, "tr": ["03", "2"]},
                   {"e": [2e3], "n": [2e19], "t": [20.0], "sen": [[2e-14]], "st": [2.0], "eref": 1e4, "nref": 1e19, "tref": 100.0, "sref": 1e-14}))
    cases.append({"cls": "transition-alias", "repo_exists": True, "repo_name": "r", "ops": ops, "probes": []})
    # update dictionaries with an EMPTY branch at every nesting level, placed first / in the middle / last
    rng = np.random.default_rng(14)
    pools = _Pools(rng, "mixed")
    pools.species = ["carbon", "neon", "deuterium"]
    base_key = {"sp": "carbon", "don": "carbon", "rec": "carbon", "beam": "carbon", "tgt": "carbon", "q": 2, "rq": 2, "dq": 1,
                "ms": 1, "tr": [3, 2]}
    alt = {"sp": "neon", "don": "neon", "rec": "neon", "beam": "neon", "tgt": "neon", "q": 1, "rq": 1, "dq": 0, "ms": 0, "tr": [2, 1]}
    ops = []
    for fam in FAMILIES:
        kind = FAM[fam][0]
        names = [n for n in PATH_FIELDS[kind]]
        fields = [n for n in names if n != "CLASS"]
        k1 = {f: copy.deepcopy(base_key[f]) for f in fields}
        last = fields[-1]
        k2 = dict(copy.deepcopy(k1), **{last: [4, 2] if last == "tr" else base_key[last] + 1})
        k3 = dict(copy.deepcopy(k1), **{last: [5, 2] if last == "tr" else base_key[last] + 2})
        for depth in range(1, len(names)):
            f = names[depth - 1]
            for pos in ("first", 1, "last"):
                ek, efam = copy.deepcopy(k1), fam
                if f == "CLASS":
                    efam = "pec_recombination" if fam == "pec_excitation" else "pec_excitation"
                else:
                    ek[f] = copy.deepcopy(alt[f])      # sorts before the non-empty siblings where order matters
                items = [{"fam": fam, "key": copy.deepcopy(k), "data": _data(rng, kind, "normal")} for k in (k1, k2, k3)]
                ops.append({"op": "update", "fn": FAM[fam][2], "items": items,
                            "empties": [{"fam": efam, "key": ek, "depth": depth, "pos": pos}]})
    from vf.core import jsonable as _js
    cases.append(_js({"cls": "mixed", "repo_exists": True, "repo_name": "repository", "ops": ops, "probes": []}))
    # non-finite numbers written next to stored keys of the same file, every family, add_* and update_*
    ops = []
    for n, fam in enumerate(FAMILIES):
        kind = FAM[fam][0]
        fields = [f for f in PATH_FIELDS[kind] if f != "CLASS"]
        last = fields[-1]
        k1 = {f: copy.deepcopy(base_key[f]) for f in fields}
        sib = lambda j: dict(copy.deepcopy(k1), **{last: [3 + j, 2] if last == "tr" else base_key[last] + j})
        ops.append(add(fam, sib(0), _data(rng, kind, "normal")))
        ops.append(add(fam, sib(1), _data(rng, kind, "normal")))
        for j, via in ((2, "add"), (0, "update"), (1, "add")):
            d = _inject_nonfinite(rng, kind, _data(rng, kind, "normal"))
            if via == "add":
                ops.append(dict(add(fam, sib(j), d), nonfinite=True))
            else:
                ops.append({"op": "update", "fn": FAM[fam][2], "nonfinite": True,
                            "items": [{"fam": fam, "key": sib(3), "data": _data(rng, kind, "normal")},
                                      {"fam": fam, "key": sib(j), "data": d, "nonfinite": True}]})
    cases.append(_js({"cls": "extreme", "repo_exists": True, "repo_name": "repository", "ops": ops, "probes": []}))
    # rejected updates in the middle of a history, every invalidity kind on the beam families
    ops = [add("beam_stopping", {"beam": "deuterium", "tgt": "carbon", "q": 6},
               {"e": [1e3, 1e4], "n": [1e19], "t": [10.0, 100.0, 1000.0], "sen": [[1e-14], [2e-14]], "st": [1.0, 2.0, 3.0],
                "eref": 1e4, "nref": 1e19, "tref": 100.0, "sref": 1e-14})]
    good = ops[0]["data"]
    for bad, mut in (("charge>Z", None), ("shape", None), ("ndim", None)):
        k = {"beam": "deuterium", "tgt": "carbon", "q": 7 if bad == "charge>Z" else 6}
        d = copy.deepcopy(good)
        if bad == "shape":
            d["sen"] = d["sen"] + [[3e-14]]
        if bad == "ndim":
            d["t"] = [d["t"]]
        ops.append({"op": "bad", "via": "add", "fn": "add_beam_stopping_rate",
                    "items": [{"fam": "beam_stopping", "key": k, "data": d, "bad": bad}]})
    cases.append({"cls": "invalid", "repo_exists": True, "repo_name": "r", "ops": ops, "probes": []})
    return cases


# ----------------------------------------------------------------------------------------------------------------
# calling the real functions
# ----------------------------------------------------------------------------------------------------------------
def _sp(name, key=None, field=None):
    if key is not None and key.get(field + "_as_str"):
        return SPECIES[name][0]
    return _S["sp"][name]


def _tr(tr):
    return (tr[0], tr[1])


def _rate_in(kind, data):
    """Rate dictionary handed to the repository (fresh containers; ADF11-style families get 'rate' and 'rates')."""
    d = copy.deepcopy({k: v for k, v in data.items() if not k.startswith("_")})
    if kind in ("sq", "tcx") and "rate" in d:
        d["rates"] = copy.deepcopy(d["rate"])
    return d


def _expected(kind, data):
    """Model value: field -> float64 ndarray (0-d for scalars), from the case data only."""
    return {f: np.array(data[f], dtype=np.float64) for f, _ in FIELDS[kind]}


def _same_bits(a, b):
    a = np.asarray(a)
    b = np.asarray(b)
    if a.dtype != np.float64:
        try:
            a = a.astype(np.float64)
        except (TypeError, ValueError):
            return False
    if a.shape != b.shape:
        return False
    return bool(np.array_equal(np.ascontiguousarray(a).reshape(-1).view(np.uint64),
                               np.ascontiguousarray(b).reshape(-1).view(np.uint64)))


def _value_equal(kind, got, want):
    """-> None if equal else name of first differing field."""
    for f, _ in FIELDS[kind]:
        if f not in got:
            return f + ":absent"
        if not _same_bits(got[f], want[f]):
            return f
    return None


def _prep_add(fam, key, data, repo_path):
    """-> (function, args, kwargs) of the add_* call; built outside the monitored region."""
    R = _S["repo"]
    kind, fn = FAM[fam][0], getattr(R, FAM[fam][1])
    rate = _rate_in(kind, data)
    kw = {"repository_path": repo_path}
    S = lambda f: _sp(key[f], key, f)
    if kind == "sq":
        return fn, (S("sp"), key["q"], rate), kw
    if kind == "tcx":
        if "receiver_charge" in inspect.signature(fn).parameters:
            return fn, (S("don"), key["dq"], S("rec"), key["rq"], rate), kw
        # signature as shipped: no receiver_charge parameter; documented call
        return fn, (S("don"), key["dq"], S("rec"), rate), kw
    if kind == "pec":
        return fn, (S("sp"), key["q"], _tr(key["tr"]), rate), kw
    if kind == "pectcx":
        return fn, (S("don"), key["dq"], S("rec"), key["rq"], _tr(key["tr"]), rate), kw
    if kind == "wl":
        return fn, (S("sp"), key["q"], _tr(key["tr"]), rate.get("wavelength")), kw
    if kind == "bcx":
        return fn, (S("don"), key["ms"], S("rec"), key["rq"], _tr(key["tr"]), rate), kw
    if kind == "stop":
        return fn, (S("beam"), S("tgt"), key["q"], rate), kw
    if kind == "pop":
        return fn, (S("beam"), key["ms"], S("tgt"), key["q"], rate), kw
    return fn, (S("beam"), S("tgt"), key["q"], _tr(key["tr"]), rate), kw


def _nest(d, path, leaf):
    for p in path[:-1]:
        d = d.setdefault(p, {})
    d[path[-1]] = leaf


PATH_FIELDS = {"sq": ["sp", "q"], "tcx": ["don", "dq", "rec", "rq"], "pec": ["CLASS", "sp", "q", "tr"],
               "pectcx": ["don", "dq", "rec", "rq", "tr"], "wl": ["sp", "q", "tr"], "bcx": ["don", "rec", "rq", "tr", "ms"],
               "stop": ["beam", "tgt", "q"], "pop": ["beam", "ms", "tgt", "q"], "emis": ["beam", "tgt", "q", "tr"]}
_SPECIES_FIELDS = ("sp", "don", "rec", "beam", "tgt")


def _path(fam, key):
    """Nesting path of a key inside the dictionary its update_* function takes."""
    out = []
    for f in PATH_FIELDS[FAM[fam][0]]:
        if f == "CLASS":
            out.append(fam.split("_")[1])
        elif f in _SPECIES_FIELDS:
            out.append(_sp(key[f], key, f))
        elif f == "tr":
            out.append(_tr(key["tr"]))
        else:
            out.append(key[f])
    return out


def _build_update(ufn, items, empties=()):
    """Nested update dictionary; `empties` adds EMPTY sub-dictionaries (branches without any rate) at the requested
    nesting depth and position (dict order = insertion order) without disturbing non-empty branches."""
    entries = []
    for it in items:
        kind = FAM[it["fam"]][0]
        rate = _rate_in(kind, it["data"])
        if kind == "wl":
            rate = rate.get("wavelength")
        entries.append((_path(it["fam"], it["key"]), rate, False))
    for e in empties:
        ent = (_path(e["fam"], e["key"])[:e["depth"]], None, True)
        pos = e.get("pos", "last")
        if pos == "first":
            entries.insert(0, ent)
        elif pos == "last":
            entries.append(ent)
        else:
            entries.insert(min(int(pos), len(entries)), ent)
    rates = {}
    for path, leaf, empty in entries:
        if empty:
            d = rates
            for comp in path:
                d = d.setdefault(comp, {})
        else:
            _nest(rates, path, leaf)
    return rates


_ALIAS_N = [0]


def _hostile_spellings(u, l, rot):
    """Level spellings with a different lower-cased string form than (u, l) that a numeric normalisation would merge."""
    out = []

    def variants(x):
        v = []
        if x.isascii() and x.isdigit() and str(int(x)) == x:
            v += ["0" + x, " " + x, x + " ", "+" + x, x + ".0", x + ".5", x[0] + "_" + x[1:] if len(x) > 1 else x + "_0"]
        else:
            for conv in (int, float):
                try:
                    n = conv(x)
                    if n == n and abs(n) < 1e6:
                        c = str(int(n))
                        if c != x:
                            v.append(c)
                        break
                except (ValueError, OverflowError):
                    pass
        return v

    vu, vl = variants(u), variants(l)
    if vu:
        out.append((vu[rot % len(vu)], l))
    if vl:
        out.append((u, vl[(rot // 3) % len(vl)]))
    if vu and vl:
        out.append((vu[(rot + 1) % len(vu)], vl[rot % len(vl)]))
    return [(a.lower(), b.lower()) for a, b in out]


def _alias_tr(ctr, mode):
    """A differently spelled but equivalent transition (levels compare by lower-cased string form).
    mode = ("exact", (upper, lower)) re-uses the spelling the key was written with."""
    if isinstance(mode, tuple):
        return mode[1], False
    u, l = ctr
    if mode % 3 == 0:
        if u.isdigit() and l.isdigit() and str(int(u)) == u and str(int(l)) == l:
            return (int(u), int(l)), True
        return (u.upper(), l.upper()), (u.upper() != u or l.upper() != l)
    if mode % 3 == 1:
        return (u.upper(), l), u.upper() != u
    return (u, l), False


def _read(fam, ckey, repo_path, alias=0, spelled=None):
    """Read one model key through the matching get_*.  -> ('ok', value) | ('missing', None) | ('error', exc).
    For beam_cx the value is {metastable: rate} of the whole transition."""
    R = _S["repo"]
    kind, fn = FAM[fam][0], getattr(R, FAM[fam][3])
    by_sym = _S.setdefault("by_sym", {})
    if not by_sym:
        for n, (s, z) in SPECIES.items():
            by_sym.setdefault(s, []).append(n)

    def sp(sym):
        names = by_sym[sym]
        return _S["sp"][names[alias % len(names)]]

    aliased = False
    tmode = alias
    if spelled is not None:
        tmode = ("exact", spelled)
    try:
        if kind == "sq":
            got = fn(sp(ckey[0]), ckey[1], repository_path=repo_path)
        elif kind == "tcx":
            got = fn(sp(ckey[0]), ckey[1], sp(ckey[2]), ckey[3], repository_path=repo_path)
        elif kind in ("pec", "wl"):
            tr, aliased = _alias_tr(ckey[2], tmode)
            got = fn(sp(ckey[0]), ckey[1], tr, repository_path=repo_path)
            if kind == "wl":
                got = {"wavelength": got}
        elif kind == "pectcx":
            tr, aliased = _alias_tr(ckey[4], tmode)
            got = fn(sp(ckey[0]), ckey[1], sp(ckey[2]), ckey[3], tr, repository_path=repo_path)
        elif kind == "bcx":
            tr, aliased = _alias_tr(ckey[3], tmode)
            lst = fn(sp(ckey[0]), sp(ckey[1]), ckey[2], tr, repository_path=repo_path)
            got = {}
            for ms, rate in lst:
                got[int(ms)] = rate
        elif kind == "stop":
            got = fn(sp(ckey[0]), sp(ckey[1]), ckey[2], repository_path=repo_path)
        elif kind == "pop":
            got = fn(sp(ckey[0]), ckey[1], sp(ckey[2]), ckey[3], repository_path=repo_path)
        else:
            tr, aliased = _alias_tr(ckey[3], tmode)
            got = fn(sp(ckey[0]), sp(ckey[1]), ckey[2], tr, repository_path=repo_path)
    except RuntimeError as e:
        if type(e) is RuntimeError:
            return "missing", None, aliased
        return "error", e, aliased
    except Exception as e:  # noqa
        return "error", e, aliased
    return "ok", got, aliased


class _History:
    """Reference map + judging for one history."""

    def __init__(self, ctx, repo_path, probes):
        self.ctx = ctx
        self.repo = repo_path
        self.model = {f: {} for f in FAMILIES}
        self.probes = probes
        self.rot = 0
        self.dead = False
        self.n_readback = 0
        self.n_others = 0
        self.outside_paths = []
        self.spell = {}          # (fam, ckey) -> transition spelling of the last write
        self.symbols = set()     # species symbols this history refers to

    # --- model access (beam_cx grouped by transition for reading) -------------------------------------------------
    def lookup(self, fam, ckey):
        return self.model[fam].get(ckey)

    def read_key(self, fam, ckey, alias=None):
        """-> (status, value-or-exc, aliased); for beam_cx extracts the metastable of ckey ('missing' if absent).
        alias=None: the spelling the key was last written with (lower-case string form if unknown)."""
        spelled = None
        if alias is None:
            alias = 2
            spelled = self.spell.get((fam, ckey))
        _AUD["events"] = []
        _AUD["active"] = True
        try:
            st, got, aliased = _read(fam, ckey, self.repo, alias, spelled)
        finally:
            _AUD["active"] = False
        if _AUD["events"]:
            ev, _AUD["events"] = _AUD["events"], []
            _judge_audit(self.ctx, self, FAM[fam][3], ev, self.repo, self.ctx.home)
        if FAM[fam][0] == "bcx" and st == "ok":
            if ckey[4] in got:
                return "ok", got[ckey[4]], aliased
            return "missing", None, aliased
        return st, got, aliased

    def resync(self, fam, ckey):
        st, got, _ = self.read_key(fam, ckey)
        kind = FAM[fam][0]
        if st == "ok":
            try:
                self.model[fam][ckey] = {f: np.array(got[f], dtype=np.float64) for f, _ in FIELDS[kind]}
                return
            except Exception:  # noqa
                pass
        self.model[fam].pop(ckey, None)

    # --- the three sweeps ------------------------------------------------------------------------------------------
    def check_written(self, fn, written, explained_outside):
        """written: list of (fam, ckey, value).  Returns False if the history must stop."""
        ctx = self.ctx
        for fam, ckey, val in written:
            kind = FAM[fam][0]
            st, got, _ = self.read_key(fam, ckey)
            self.ctx.mon("readback")
            self.n_readback += 1
            bad = None
            if st == "ok":
                diff = _value_equal(kind, got, val)
                if diff is None:
                    self.model[fam][ckey] = val
                    if kind in HAS_TRANSITION and not self.alias_probe(fam, ckey, val):
                        return False
                    continue
                bad = "read-back-differs"
            elif st == "missing":
                bad = "written-key-unreadable"
            else:
                ctx.viol("%s:read-after-write-raises:%s:%s" % (fn, FAM[fam][3], type(got).__name__),
                         "%s raised %s: %s right after %s wrote that key" % (FAM[fam][3], type(got).__name__, str(got)[:200], fn),
                         family=fam, stored_key=repr(ckey))
                self.dead = True
                return False
            # diagnosis: did the data land in a sibling family under the same key tuple?
            routed = None
            for sib in SIBLINGS[fam]:
                if FAM[sib][0] != kind:
                    continue
                s2, g2, _ = self.read_key(sib, ckey)
                if s2 == "ok" and _value_equal(kind, g2, val) is None:
                    old = self.model[sib].get(ckey)
                    if old is None or _value_equal(kind, old, val) is not None:
                        routed = sib
                        break
            if routed:
                ctx.viol("%s:writes-to:%s" % (fn, routed),
                         "%s stored its table under the %s key of the same species/charge instead of the %s key: %s then %s, and %s returns the new table"
                         % (fn, routed, fam, FAM[fam][3], "raises RuntimeError" if st == "missing" else "returns the old table",
                            FAM[routed][3]), family=fam, stored_key=repr(ckey), landed_in=routed)
                self.model[routed][ckey] = val
                self.resync(fam, ckey)
                continue
            if explained_outside:
                # the write demonstrably went to files outside repository_path (already reported by the audit monitor)
                ctx.skip("read-back skipped: write went outside repository_path (reported by audit)")
                self.resync(fam, ckey)
                continue
            if bad == "read-back-differs":
                ctx.viol("%s:read-back-differs:%s:%s" % (fn, fam, diff),
                         "%s after %s returns arrays that differ bit-wise from the ones written (field %s)" % (FAM[fam][3], fn, diff),
                         family=fam, stored_key=repr(ckey), field=diff)
            else:
                ctx.viol("%s:written-key-unreadable:%s" % (fn, fam),
                         "%s raises RuntimeError for a key that %s has just written" % (FAM[fam][3], fn),
                         family=fam, stored_key=repr(ckey))
            self.dead = True
            return False
        return True

    def alias_probe(self, fam, ckey, val):
        """A key just read back under the spelling it was written with must also be found under an equivalent spelling."""
        self.rot += 1
        st, got, aliased = self.read_key(fam, ckey, alias=self.rot)
        if not aliased:
            return True
        self.ctx.mon("alias_read")
        if st == "ok" and _value_equal(FAM[fam][0], got, val) is None:
            return True
        self.alias_viol(fam, ckey, st, got)
        return False

    def alias_viol(self, fam, ckey, st, got):
        self.ctx.viol("%s:alias-spelling-not-equivalent:%s" % (FAM[fam][3], fam),
                      "a stored %s key is returned under the spelling it was written with but not under an equivalent spelling of "
                      "its transition (int vs str level, upper vs lower case): %s" % (
                          fam, "RuntimeError" if st == "missing" else "other content" if st == "ok" else type(got).__name__),
                      stored_key=repr(ckey), written_as=repr(self.spell.get((fam, ckey))))
        self.dead = True

    def check_others(self, fn, exclude, tag="changes-other-key", mon="others_untouched"):
        ctx = self.ctx
        for fam in FAMILIES:
            kind = FAM[fam][0]
            for ckey, val in list(self.model[fam].items()):
                if (fam, ckey) in exclude:
                    continue
                self.rot += 1
                st, got, aliased = self.read_key(fam, ckey, alias=self.rot)
                ctx.mon(mon)
                self.n_others += 1
                if aliased:
                    ctx.mon("alias_read")
                if st == "ok":
                    diff = _value_equal(kind, got, val)
                    if diff is None:
                        continue
                    what = "content changed (field %s)" % diff
                    key = "%s:%s:%s" % (fn, tag, fam)
                elif st == "missing":
                    what = "raises RuntimeError now"
                    key = "%s:%s-unreadable:%s" % (fn, tag.replace("changes-", ""), fam)
                else:
                    what = "raises %s: %s" % (type(got).__name__, str(got)[:200])
                    key = "%s:%s-unreadable:%s:%s" % (fn, tag.replace("changes-", ""), fam, type(got).__name__)
                if aliased:
                    # distinguish an aliasing failure from damage: re-read with the spelling of the last write
                    st2, got2, _ = self.read_key(fam, ckey)
                    if st2 == "ok" and _value_equal(kind, got2, val) is None:
                        self.alias_viol(fam, ckey, st, got)
                        return False
                ctx.viol(key, "after %s a previously stored %s key %s" % (fn, fam, what), family=fam, stored_key=repr(ckey))
                self.dead = True
                return False
        return True

    def check_never_written(self, fn, touched, extra=()):
        ctx = self.ctx
        cand = list(extra)
        hostile = set()
        for fam, ckey in touched:
            for sib in SIBLINGS[fam]:
                if FAM[sib][0] == FAM[fam][0] or (FAM[sib][0] in ("pec", "wl") and FAM[fam][0] in ("pec", "wl")):
                    cand.append((sib, ckey))
            # neighbours of the written key in every coordinate: integer positions (charges, donor charge, metastable)
            # +-1, symbol positions replaced by the other symbols of the same element and by the other symbols this
            # history uses, transition swapped / extended
            for i, x in enumerate(ckey):
                if isinstance(x, int):
                    for dq in (-1, 1):
                        if x + dq >= 0:
                            cand.append((fam, ckey[:i] + (x + dq,) + ckey[i + 1:]))
                elif isinstance(x, str):
                    alts = set(self.symbols)
                    for g in ISO_GROUPS:
                        syms = [SPECIES[n][0] for n in g]
                        if x in syms:
                            alts.update(syms)
                    for sname in sorted(alts):
                        if sname != x:
                            cand.append((fam, ckey[:i] + (sname,) + ckey[i + 1:]))
                else:
                    u, l = x
                    cand.append((fam, ckey[:i] + ((l, u),) + ckey[i + 1:]))
                    cand.append((fam, ckey[:i] + ((u + "x", l),) + ckey[i + 1:]))
                    # spellings that differ as (lower-cased) strings although they "mean" the same number
                    for hu, hl in _hostile_spellings(u, l, self.rot):
                        hostile.add((fam, ckey[:i] + ((hu, hl),) + ckey[i + 1:]))
                        cand.append((fam, ckey[:i] + ((hu, hl),) + ckey[i + 1:]))
        for p in self.probes:
            cand.append((p["fam"], canon_key(p["fam"], p["key"])))
        seen = set()
        for fam, ckey in cand:
            if (fam, ckey) in seen:
                continue
            seen.add((fam, ckey))
            if FAM[fam][0] == "bcx":
                if ckey in self.model[fam]:
                    continue
            elif ckey in self.model[fam]:
                continue
            self.rot += 1
            if (fam, ckey) in hostile:
                st, got, _ = self.read_key(fam, ckey, alias=2)       # exactly this spelling
                ctx.mon("hostile_spelling_probe")
            else:
                st, got, _ = self.read_key(fam, ckey, alias=self.rot)
            ctx.mon("never_written")
            if st == "missing":
                continue
            if st == "ok" and (fam, ckey) in hostile:
                ctx.viol("%s:distinct-level-strings-collide:%s" % (FAM[fam][3], fam),
                         "after %s, %s returns data for a transition that was never written and whose levels differ, as lower-cased "
                         "strings, from every written one (e.g. leading zero / sign / blank / fraction): %r"
                         % (fn, FAM[fam][3], [x for x in ckey if isinstance(x, tuple)]), family=fam, stored_key=repr(ckey))
                self.dead = True
                return False
            if st == "ok":
                ctx.viol("%s:creates-phantom-key:%s" % (fn, fam),
                         "after %s, %s returns data for a key that was never written (must raise RuntimeError)" % (fn, FAM[fam][3]),
                         family=fam, stored_key=repr(ckey))
            else:
                ctx.viol("%s:never-written-key-raises:%s" % (FAM[fam][3], type(got).__name__),
                         "%s raises %s instead of RuntimeError for a key never written: %s" % (FAM[fam][3], type(got).__name__, str(got)[:200]),
                         family=fam, stored_key=repr(ckey))
            self.dead = True
            return False
        return True


# ----------------------------------------------------------------------------------------------------------------
# audit evaluation
# ----------------------------------------------------------------------------------------------------------------
def _under(path, root):
    path = os.path.realpath(os.path.abspath(path))
    root = os.path.realpath(os.path.abspath(root))
    return path == root or path.startswith(root.rstrip(os.sep) + os.sep)


def _is_download_path(path, dests):
    """Is `path` part of a download cache: a recorded download destination, one of its parent directories or a sibling,
    or (when nothing was fetched) a path with a _download_cache component."""
    rp = os.path.realpath(os.path.abspath(path))
    for d in dests:
        rd = os.path.realpath(os.path.abspath(d))
        if rd == rp or rd.startswith(rp.rstrip(os.sep) + os.sep) or os.path.dirname(rd) == os.path.dirname(rp):
            return True
    return "_download_cache" in rp.split(os.sep)


def _judge_audit(ctx, H, fn, events, repo_path, home, download_dests=None):
    """-> True if some write went outside the repository path."""
    outside = False
    for ev, path in events:
        if ev == "open-for-write":
            ctx.mon("audit_write_open")
        elif ev == "mkdir":
            ctx.mon("audit_mkdir")
        else:
            ctx.mon("audit_other")
        if _under(path, repo_path):
            continue
        outside = True
        H.outside_paths.append(os.path.realpath(os.path.abspath(path)))
        if _under(path, os.path.join(home, ".cherab")):
            where = "$HOME/.cherab"
        elif _under(path, home):
            where = "$HOME"
        elif _under(path, os.getcwd()):
            where = "cwd"
        else:
            where = "elsewhere"
        if download_dests is not None and _is_download_path(path, download_dests):
            ctx.viol("%s:download-cache-outside-repository_path:%s" % (fn, where),
                     "%s(download=True, repository_path=<repo>) performed %s on %s: the download cache must lie under the "
                     "repository_path that was passed" % (fn, ev, path.replace(home, "$HOME")),
                     event=ev, path=path.replace(home, "$HOME"))
            continue
        ctx.viol("%s:writes-outside-repository_path:%s" % (fn, where),
                 "%s was given repository_path=%s but performed %s on %s" % (fn, "<repo>", ev, path.replace(home, "$HOME")),
                 event=ev, path=path.replace(home, "$HOME"))
    return outside


def _snapshot(root):
    out = set()
    for d, dirs, files in os.walk(root):
        for n in dirs + files:
            out.add(os.path.relpath(os.path.join(d, n), root))
    return out


# ----------------------------------------------------------------------------------------------------------------
# install front-ends
# ----------------------------------------------------------------------------------------------------------------
def _flatten(ufn, rates):
    """Flatten the dictionary install_* passed to repository.<ufn> into [(fam, ckey, value)]."""
    out = []
    sym = lambda o: o.symbol

    def walk(d, depth, path):
        if depth == 0:
            yield path, d
            return
        for k, v in d.items():
            yield from walk(v, depth - 1, path + [k])

    if ufn in ("update_ionisation_rates", "update_recombination_rates", "update_line_power_rates",
               "update_continuum_power_rates", "update_cx_power_rates"):
        fam = UPD_FAMS[ufn][0]
        for (s, q), r in walk(rates, 2, []):
            out.append((fam, (sym(s), int(q)), r))
    elif ufn == "update_thermal_cx_rates":
        for (d, dq, rcv, rq), r in walk(rates, 4, []):
            out.append(("thermal_cx", (sym(d), int(dq), sym(rcv), int(rq)), r))
    elif ufn == "update_pec_rates":
        for (c, s, q, tr), r in walk(rates, 4, []):
            out.append(("pec_" + c.lower(), (sym(s), int(q), canon_tr(tr)), r, tr))
    elif ufn == "update_pec_thermal_cx_rates":
        for (d, dq, rcv, rq, tr), r in walk(rates, 5, []):
            out.append(("pec_thermal_cx", (sym(d), int(dq), sym(rcv), int(rq), canon_tr(tr)), r, tr))
    elif ufn == "update_wavelengths":
        for (s, q, tr), r in walk(rates, 3, []):
            out.append(("wavelength", (sym(s), int(q), canon_tr(tr)), {"wavelength": r}, tr))
    elif ufn == "update_beam_cx_rates":
        for (d, rcv, q, tr, ms), r in walk(rates, 5, []):
            out.append(("beam_cx", (sym(d), sym(rcv), int(q), canon_tr(tr), int(ms)), r, tr))
    elif ufn == "update_beam_stopping_rates":
        for (b, t, q), r in walk(rates, 3, []):
            out.append(("beam_stopping", (sym(b), sym(t), int(q)), r))
    elif ufn == "update_beam_population_rates":
        for (b, ms, t, q), r in walk(rates, 4, []):
            out.append(("beam_population", (sym(b), int(ms), sym(t), int(q)), r))
    elif ufn == "update_beam_emission_rates":
        for (b, t, q, tr), r in walk(rates, 4, []):
            out.append(("beam_emission", (sym(b), sym(t), int(q), canon_tr(tr)), r, tr))
    res = []
    for entry in out:
        fam, ckey, r = entry[:3]
        kind = FAM[fam][0]
        val = {}
        if len(entry) > 3:
            val["_tr"] = (entry[3][0], entry[3][1])      # spelling used by install_* (not a data field)
        for f, _ in FIELDS[kind]:
            src = "rates" if (kind in ("sq", "tcx") and f == "rate" and "rates" in r) else f
            val[f] = np.array(r[src], dtype=np.float64)
        res.append((fam, ckey, val))
    return res


def _adf_text(op):
    kind = op["kind"]
    if kind.startswith("adf11"):
        name = op["species"]
        txt = adfw.adf11_text(name, SPECIES[name][1], op["log_ne"], op["log_te"], [(b[0], b[1]) for b in op["blocks"]], kind[5:])
    elif kind == "adf15":
        txt = adfw.adf15_text(op["style"], SPECIES[op["species"]][0], op["charge"], op["blocks"], op.get("levels"))
    elif kind == "adf12":
        txt = adfw.adf12_text(op["blocks"])
    else:
        txt = adfw.adf2x_text(op["charge"], op["svref"], SPECIES[op["target"]][0], op["tref"], op["eb"], op["dt"], op["sv"],
                              op["eref"], op["dref"], op["tt"], op["svt"])
    return txt


def _write_adf(op, root, n):
    """Write the synthetic ADF file of an install operation below `root`; -> path relative to root."""
    rel = "%s/file%03d.dat" % (op["kind"], n)
    path = os.path.join(root, rel)
    os.makedirs(os.path.dirname(path), exist_ok=True)
    with open(path, "w") as f:
        f.write(_adf_text(op))
    return rel


class _FakeDownload:
    """Stands in for the network while an install_* front-end runs with download=True: urllib.request.urlretrieve
    (the call install._locate_adas_file makes) writes the harness-generated ADF text to the requested destination and
    records (url, destination).  Installed only around that one operation and restored afterwards.  The write happens
    inside the audited region, so the destination is judged like every other file the front-end creates."""

    def __init__(self, text):
        self.text = text
        self.fetched = []
        self.saved = []

    def __enter__(self):
        import urllib.request

        def fake_urlretrieve(url, filename=None, *a, **kw):
            self.fetched.append((str(url), os.fsdecode(filename) if filename is not None else None))
            if filename is None:
                raise OSError("C06 harness: urlretrieve without a destination is not supported (no network)")
            with open(filename, "w") as f:
                f.write(self.text)
            return filename, None

        def no_network(*a, **kw):
            raise OSError("C06 harness: no network access")

        targets = [(urllib.request, "urlretrieve", fake_urlretrieve), (urllib.request, "urlopen", no_network)]
        inst = _S["inst"]
        for name, repl in (("urlretrieve", fake_urlretrieve), ("urlopen", no_network)):
            if hasattr(inst, name):                      # `from urllib.request import urlretrieve` style
                targets.append((inst, name, repl))
        for obj, name, repl in targets:
            self.saved.append((obj, name, getattr(obj, name)))
            setattr(obj, name, repl)
        return self

    def __exit__(self, *exc):
        for obj, name, real in reversed(self.saved):
            setattr(obj, name, real)
        self.saved = []
        return False


def _install_args(op, rel):
    k = op["kind"]
    sp = _S["sp"]
    if k in ("adf11scd", "adf11acd", "adf11plt", "adf11prb", "adf11prc"):
        return (sp[op["species"]], rel), {}
    if k == "adf11ccd":
        return (sp[op["donor"]], op["donor_charge"], sp[op["species"]], rel), {}
    if k == "adf12":
        return (sp[op["donor"]], op["ms"], sp[op["receiver"]], op["charge"], rel), {}
    if k == "adf15":
        return (sp[op["species"]], op["charge"], rel), {"header_format": op.get("header_format")}
    if k == "adf21":
        return (sp[op["beam"]], sp[op["target"]], op["charge"], rel), {}
    if k == "adf22bmp":
        return (sp[op["beam"]], op["ms"], sp[op["target"]], op["charge"], rel), {}
    return (sp[op["beam"]], sp[op["target"]], op["charge"], _tr(op["transition"]), rel), {}


class _Recorder:
    """Argument recorder on cherab.openadas.repository.update_* (what install_* hands over, copied before the call)."""

    def __init__(self):
        self.calls = []
        self.saved = {}

    def __enter__(self):
        R = _S["repo"]
        for ufn in UPD_FAMS:
            real = getattr(R, ufn)
            self.saved[ufn] = real

            def make(ufn, real):
                def recording_update(rates, repository_path=None, *a, **kw):
                    rec = {"fn": ufn, "repository_path": repository_path, "items": None, "error": None}
                    try:
                        rec["items"] = _flatten(ufn, rates)
                    except Exception as e:  # noqa
                        rec["error"] = "%s: %s" % (type(e).__name__, e)
                    self.calls.append(rec)
                    return real(rates, repository_path, *a, **kw)
                return recording_update
            setattr(R, ufn, make(ufn, real))
        return self

    def __exit__(self, *exc):
        R = _S["repo"]
        for ufn, real in self.saved.items():
            setattr(R, ufn, real)
        return False


# ----------------------------------------------------------------------------------------------------------------
# run one history
# ----------------------------------------------------------------------------------------------------------------
def _guarded(fn, *a, **kw):
    """Run repository code with the audit monitor active; -> (exception or None, events)."""
    _AUD["events"] = []
    _AUD["active"] = True
    err = None
    try:
        fn(*a, **kw)
    except Exception as e:  # noqa
        err = e
    finally:
        _AUD["active"] = False
    ev = _AUD["events"]
    _AUD["events"] = []
    return err, ev


_NF_TOKENS = {"inf": float("inf"), "-inf": float("-inf"), "nan": float("nan")}


def _decode_nonfinite(o):
    """Cases carry non-finite numbers as the strings 'inf' / '-inf' / 'nan' (strict JSON); turn them into floats."""
    if isinstance(o, str):
        return _NF_TOKENS.get(o, o)
    if isinstance(o, list):
        return [_decode_nonfinite(x) for x in o]
    if isinstance(o, dict):
        return {k: _decode_nonfinite(v) for k, v in o.items()}
    return o


def _refused(ctx, H, fn, written, why):
    """A write that was refused by raising: its own entries hold their old or their new content and stay readable,
    every other stored key is unchanged.  -> False if the history must stop."""
    for fam, ck, val in written:
        st, got, _ = H.read_key(fam, ck)
        old = H.lookup(fam, ck)
        kind = FAM[fam][0]
        ctx.mon("refused_own_entry")
        if st == "ok" and val is not None and _value_equal(kind, got, val) is None:
            H.model[fam][ck] = val
        elif (st == "ok" and old is not None and _value_equal(kind, got, old) is None) or (st == "missing" and old is None):
            pass
        else:
            ctx.viol("%s:refused-write-corrupts-its-entry:%s%s" % (fn, fam, ":" + type(got).__name__ if st == "error" else ""),
                     "after %s raised (%s) an entry of that call holds neither its old nor its new content (%s)"
                     % (fn, why, st if st != "error" else "%s: %s" % (type(got).__name__, str(got)[:120])), family=fam, stored_key=repr(ck))
            H.dead = True
            return False
    return H.check_others(fn, {(w[0], w[1]) for w in written}, tag="refused-write-changes-other-key", mon="refused_intact")


def run_case(case, ctx):
    if "repo" not in _S:
        worker_init(ctx)
    case = _decode_nonfinite(case)
    ctx.cls(case["cls"])
    home = ctx.home
    base = tempfile.mkdtemp(prefix="vfc06_")
    cwd0 = os.getcwd()
    try:
        repo_path = os.path.join(base, "given", case.get("repo_name", "repository"))
        os.makedirs(os.path.join(base, "given"))
        if case.get("repo_exists"):
            os.makedirs(repo_path)
        adas_dir = os.path.join(base, "adas")
        os.makedirs(adas_dir)
        work = os.path.join(base, "cwd")
        os.makedirs(work)
        os.chdir(work)
        home_before = _snapshot(home)
        H = _History(ctx, repo_path, case.get("probes", []))
        for op in case["ops"]:
            for d in [op] + [it["key"] for it in op.get("items", [])] + ([op["key"]] if "key" in op else []):
                for f in ("sp", "don", "rec", "beam", "tgt", "species", "donor", "receiver", "target"):
                    if isinstance(d.get(f), str) and d[f] in SPECIES:
                        H.symbols.add(SPECIES[d[f]][0])
        if H.check_never_written("fresh-repository", []):
            _run_history(case, ctx, H, repo_path, adas_dir, home)
        # final file-system sensors
        ctx.mon("home_clean")
        new_all = sorted(_snapshot(home) - home_before)
        third_party = [p for p in new_all if p.split(os.sep)[0] in _THIRD_PARTY_HOME]
        if third_party:
            ctx.skip("third-party cache/config entries appeared in $HOME during a history (not repository files)")
            new_all = [p for p in new_all if p not in third_party]
        reported = set(H.outside_paths)
        new_home = [p for p in new_all if os.path.realpath(os.path.join(home, p)) not in reported]
        top = sorted({p.split(os.sep)[0] for p in new_all})
        if new_home:
            ctx.viol("stray-files-in:$HOME/%s" % new_home[0].split(os.sep)[0],
                     "the history was given an explicit repository_path but new entries appeared under the redirected $HOME: %s" % new_home[:6],
                     entries=new_home[:20])
        for t in top:            # keep histories independent of each other
            p = os.path.join(home, t)
            shutil.rmtree(p, ignore_errors=True) if os.path.isdir(p) else os.remove(p)
        ctx.mon("cwd_clean")
        left = [p for p in sorted(_snapshot(work)) if os.path.realpath(os.path.join(work, p)) not in reported]
        if left:
            ctx.viol("stray-files-in:cwd", "new entries appeared in the working directory: %s" % left[:6], entries=left[:20])
        if os.path.isdir(repo_path):
            ctx.mon("tree_files", sum(len(f) for _, _, f in os.walk(repo_path)))
        if H.n_readback and H.n_others:
            ctx.nontrivial()
    finally:
        os.chdir(cwd0)
        shutil.rmtree(base, ignore_errors=True)


def _run_history(case, ctx, H, repo_path, adas_dir, home):
    n_file = 0
    for op in case["ops"]:
        if H.dead:
            ctx.skip("history stopped after its first violation")
            return
        kind_op = op["op"]
        if op.get("rewrite"):
            ctx.mon("rewrite_one_component")
            ctx.mon("rewrite_" + str(op["rewrite"]).split(":")[0])
        if kind_op == "add":
            fam, fn = op["fam"], op["fn"]
            ctx.mon("op_add")
            ck = canon_key(fam, op["key"])
            f, a, kw = _prep_add(fam, op["key"], op["data"], repo_path)
            err, ev = _guarded(f, *a, **kw)
            outside = _judge_audit(ctx, H, fn, ev, repo_path, home)
            if op.get("nonfinite"):
                ctx.mon("nonfinite_write")
                ctx.mon("nonfinite_%s:%s" % ("refused" if err is not None else "accepted", fam))
            if err is not None and op.get("nonfinite"):
                # non-finite numbers: accepted => bit-exact read-back (below); refused => nothing damaged
                ctx.mon("nonfinite_refused")
                if not _refused(ctx, H, fn, [(fam, ck, _expected(FAM[fam][0], op["data"]))], "non-finite values"):
                    return
                continue
            if err is not None:
                ctx.viol("%s:valid-write-raises:%s" % (fn, type(err).__name__),
                         "%s raised %s for a valid call (documented signature and rate dictionary): %s" % (fn, type(err).__name__, str(err)[:200]),
                         family=fam, stored_key=repr(ck))
                H.resync(fam, ck)
                if not H.check_others(fn, {(fam, ck)}):
                    return
                continue
            val = _expected(FAM[fam][0], op["data"])
            if "tr" in op["key"]:
                H.spell[(fam, ck)] = _tr(op["key"]["tr"])
            if not H.check_written(fn, [(fam, ck, val)], outside):
                return
            if not H.check_others(fn, {(fam, ck)}):
                return
            if not H.check_never_written(fn, [(fam, ck)]):
                return
        elif kind_op == "update":
            fn = op["fn"]
            ctx.mon("op_update")
            empties = op.get("empties") or []
            rates = _build_update(fn, op["items"], empties)
            written = [(it["fam"], canon_key(it["fam"], it["key"]), _expected(FAM[it["fam"]][0], it["data"])) for it in op["items"]]
            wkeys = {(w[0], w[1]) for w in written}
            extra = []
            if empties:
                ctx.mon("update_with_empty_branches")
                ctx.mon("empty_branch", len(empties))
                for e in empties:
                    ctx.mon("empty_branch_depth_%d_of_%d" % (e["depth"], len(PATH_FIELDS[FAM[e["fam"]][0]])))
                    ek = (e["fam"], canon_key(e["fam"], e["key"]))
                    if ek not in wkeys:
                        extra.append(ek)       # an empty branch writes nothing: that key keeps its state
            err, ev = _guarded(getattr(_S["repo"], fn), rates, repo_path)
            outside = _judge_audit(ctx, H, fn, ev, repo_path, home)
            if op.get("nonfinite"):
                ctx.mon("nonfinite_write")
                for fam_nf in sorted({it["fam"] for it in op["items"] if it.get("nonfinite")}):
                    ctx.mon("nonfinite_%s:%s" % ("refused" if err is not None else "accepted", fam_nf))
            if err is not None and (empties or op.get("nonfinite")):
                # refusing empty branches / non-finite numbers by raising is not judged; damage to stored keys is
                if empties:
                    ctx.mon("empty_branch_refused")
                if op.get("nonfinite"):
                    ctx.mon("nonfinite_refused")
                ctx.skip("%s raised %s for an update dictionary with %s (refusal, not judged)" % (
                    fn, type(err).__name__, "empty branches" if empties else "non-finite values"))
                if not _refused(ctx, H, fn, written, "empty branches" if empties else "non-finite values"):
                    return
                continue
            if err is not None:
                ctx.viol("%s:valid-write-raises:%s" % (fn, type(err).__name__),
                         "%s raised %s for a valid update dictionary: %s" % (fn, type(err).__name__, str(err)[:200]),
                         families=sorted({w[0] for w in written}))
                for fam, ck, _ in written:
                    H.resync(fam, ck)
                if not H.check_others(fn, {(w[0], w[1]) for w in written}):
                    return
                continue
            for it in op["items"]:
                if "tr" in it["key"]:
                    H.spell[(it["fam"], canon_key(it["fam"], it["key"]))] = _tr(it["key"]["tr"])
            if not H.check_written(fn, written, outside):
                return
            if not H.check_others(fn, {(w[0], w[1]) for w in written}):
                return
            if not H.check_never_written(fn, [(w[0], w[1]) for w in written], extra=extra):
                return
        elif kind_op == "bad":
            fn = op["fn"]
            ctx.mon("op_bad")
            items = op["items"]
            if op["via"] == "add":
                it = items[0]
                f, a, kw = _prep_add(it["fam"], it["key"], it["data"], repo_path)
                err, ev = _guarded(f, *a, **kw)
            else:
                try:
                    rates = _build_update(fn, items)
                except Exception:  # noqa  (cannot even be expressed as a dictionary)
                    ctx.skip("invalid update not expressible")
                    continue
                err, ev = _guarded(getattr(_S["repo"], fn), rates, repo_path)
            _judge_audit(ctx, H, fn, ev, repo_path, home)
            badkind = [it.get("bad") for it in items if it.get("bad")][0]
            if err is None:
                ctx.mon("invalid_update_accepted")
                ctx.skip("invalid update (%s) accepted without exception by %s: not judged (statement silent)" % (badkind, fn))
            else:
                ctx.mon("rejected_update")
                ctx.mon("rejected:%s" % type(err).__name__)
            # entries of the rejected call itself: old or new content (no atomicity demanded); then everything else
            own = set()
            for it in items:
                fam = it["fam"]
                try:
                    ck = canon_key(fam, it["key"])
                except Exception:  # noqa
                    continue
                own.add((fam, ck))
                old = H.lookup(fam, ck)
                st, got, _ = H.read_key(fam, ck)
                kind = FAM[fam][0]
                ctx.mon("rejected_own_entry")
                if it.get("bad"):
                    if err is not None and old is not None:
                        if not (st == "ok" and _value_equal(kind, got, old) is None):
                            ctx.viol("%s:rejected-update-damages-its-own-stored-key:%s" % (fn, fam),
                                     "%s rejected invalid data (%s) for a key that was stored before; the old content is no longer returned (%s)"
                                     % (fn, badkind, st if st != "error" else type(got).__name__), family=fam, stored_key=repr(ck))
                            H.dead = True
                            return
                    elif err is not None and old is None:
                        if st == "error":
                            ctx.viol("%s:rejected-update-leaves-unreadable-key:%s:%s" % (fn, fam, type(got).__name__),
                                     "after %s rejected invalid data, reading that key raises %s instead of RuntimeError"
                                     % (fn, type(got).__name__), family=fam, stored_key=repr(ck))
                            H.dead = True
                            return
                        if st == "ok":
                            H.resync(fam, ck)
                    else:
                        H.resync(fam, ck)
                    continue
                try:
                    new = _expected(kind, it["data"])
                except Exception:  # noqa
                    new = None
                if st == "ok" and new is not None and _value_equal(kind, got, new) is None:
                    H.model[fam][ck] = new
                    if "tr" in it["key"]:
                        H.spell[(fam, ck)] = _tr(it["key"]["tr"])
                elif st == "ok" and old is not None and _value_equal(kind, got, old) is None:
                    pass
                elif st == "missing" and old is None:
                    pass
                else:
                    ctx.viol("%s:rejected-update-corrupts-sibling-entry:%s" % (fn, fam),
                             "a valid entry of a rejected %s call holds neither its old nor its new content afterwards (%s)"
                             % (fn, st if st != "error" else type(got).__name__), family=fam, stored_key=repr(ck))
                    H.dead = True
                    return
            if not H.check_others(fn, own, tag="rejected-update-changes-other-key", mon="rejected_intact"):
                return
        elif kind_op == "install":
            if not _do_install(op, ctx, H, repo_path, adas_dir, home, n_file):
                return
            n_file += 1
        else:
            raise ValueError("unknown op %r" % kind_op)


def _install_blocks(op):
    """[(family, pairing token, {field: numbers as printed in the file})] for the blocks of one synthetic ADF file.
    The token pairs a block with the key written for it without using charge / unit conventions:
    ('tr', canonical transition) or ('rank', position in ascending order)."""
    kind = op["kind"]
    out = []
    if kind.startswith("adf11"):
        fam = UPD_FAMS[sorted(INSTALL_ROUTES[kind][1])[0]][0]
        for r, b in enumerate(sorted(op["blocks"], key=lambda b: b[0])):
            out.append((fam, ("rank", r), {"rate": b[1]}))
    elif kind == "adf15":
        lv = {l["id"]: adfw.adf15_level_string(l) for l in (op.get("levels") or [])}
        for b in op["blocks"]:
            fam = {"EXCIT": "pec_excitation", "RECOM": "pec_recombination", "CHEXC": "pec_thermal_cx"}[b["type"]]
            tr = (lv[b["upper"]], lv[b["lower"]]) if op["style"] == "full" else (b["upper"], b["lower"])
            out.append((fam, ("tr", canon_tr(tr)), {"ne": b["ne"], "te": b["te"], "rate": b["pec"]}))
            wls = {x["wl"] for x in op["blocks"] if (x["upper"], x["lower"]) == (b["upper"], b["lower"])}
            if len(wls) == 1:          # which block's wavelength wins for one transition is a parser convention (C08)
                out.append(("wavelength", ("tr", canon_tr(tr)), {"wavelength": b["wl"]}))
    elif kind == "adf12":
        for b in op["blocks"]:
            d = {f: b[f] for f in ("eb", "qeb", "ti", "qti", "ni", "qni", "z", "qz", "b", "qb")}
            d["qref"] = b["qref"]
            out.append(("beam_cx", ("tr", canon_tr((b["upper"], b["lower"]))), d))
    return out


def _install_cross_key(op, ctx, H, fn, written):
    """Keys written by ONE install call must each carry their own block ("other keys untouched" inside a single write).
    Judged without unit / charge conventions: every conversion install applies is the same strictly increasing map
    for all blocks of a file, so for two blocks A, B of one family the element-wise order relation between the sorted
    numbers of A and of B in the file must be the order relation between the sorted stored numbers of their keys."""
    blocks = _install_blocks(op)
    if len(blocks) < 2:
        return True
    by_fam = {}
    for fam, ck, val in written:
        by_fam.setdefault(fam, []).append(ck)
    paired = []
    for fam in {b[0] for b in blocks}:
        bl = [b for b in blocks if b[0] == fam]
        keys = by_fam.get(fam, [])
        if bl[0][1][0] == "rank":
            if len(keys) != len(bl):
                ctx.skip("install cross-key check: number of stored keys differs from number of blocks (C08 territory)")
                continue
            for b, ck in zip(bl, sorted(keys, key=lambda k: k[-1])):      # last coordinate: (receiver) charge
                paired.append((fam, b[2], ck))
        else:
            seen_tr = set()
            for b in bl:
                if b[1][1] in seen_tr:
                    continue            # the same transition twice in one family (wavelength of EXCIT and RECOM blocks)
                seen_tr.add(b[1][1])
                m = [ck for ck in keys if b[1][1] in ck]
                if len(m) == 1:
                    paired.append((fam, b[2], m[0]))
    for i in range(len(paired)):
        for j in range(i + 1, len(paired)):
            fa, ina, ka = paired[i]
            fb, inb, kb = paired[j]
            if fa != fb:
                continue
            va, vb = H.model[fa].get(ka), H.model[fb].get(kb)
            if va is None or vb is None:
                continue
            for f in ina:
                a_in = np.sort(np.array(ina[f], dtype=np.float64).reshape(-1))
                b_in = np.sort(np.array(inb[f], dtype=np.float64).reshape(-1))
                a_out, b_out = np.asarray(va[f]), np.asarray(vb[f])
                if a_out.ndim == 3:
                    a_out, b_out = a_out[:, :, 0], b_out[:, :, 0]
                a_out, b_out = np.sort(a_out.reshape(-1)), np.sort(b_out.reshape(-1))
                if not (a_in.size == b_in.size == a_out.size == b_out.size):
                    continue
                if not (np.all(np.isfinite(a_in)) and np.all(np.isfinite(b_in))):
                    continue            # order relations are undefined for nan / saturate for inf
                ctx.mon("install_cross_key")
                if np.any(a_in != b_in):
                    ctx.mon("install_cross_key_distinct")
                if np.array_equal(np.sign(a_in - b_in), np.sign(a_out - b_out)):
                    continue
                same = bool(np.array_equal(a_out, b_out))
                ctx.viol("%s:keys-of-one-call-mixed-up:%s:%s" % (fn, fa, f),
                         "%s stored two keys of one file whose '%s' numbers differ in the file, but the stored arrays are %s: each "
                         "key must hold the data of its own block" % (fn, f, "identical" if same else "ordered the other way round"),
                         family=fa, key_a=repr(ka), key_b=repr(kb), field=f)
                H.dead = True
                return False
    return True


def _do_install(op, ctx, H, repo_path, adas_dir, home, n_file):
    kind = op["kind"]
    fn = "install_" + kind
    ctx.mon("op_install")
    if op.get("nonfinite"):
        ctx.mon("nonfinite_write")
        ctx.mon("nonfinite_install")
    if kind == "adf15" and not op["blocks"]:
        ctx.skip("empty adf15 file")
        return True
    mode = op.get("download", "none")
    ctx.mon("install_mode_" + mode)
    empty_adas = os.path.join(os.path.dirname(adas_dir), "adas_without_the_file")
    if mode == "none":
        rel = _write_adf(op, adas_dir, n_file)
        use_adas, dl = adas_dir, False
    else:
        # download=True and the file is NOT in adas_path: either fetched (fake network) or already cached inside
        # the repository that is passed
        os.makedirs(empty_adas, exist_ok=True)
        use_adas, dl = empty_adas, True
        if mode == "cached":
            rel = _write_adf(op, os.path.join(repo_path, "_download_cache"), n_file)
        else:
            rel = "%s/file%03d.dat" % (kind, n_file)
    args, kw = _install_args(op, rel)
    f = getattr(_S["inst"], fn)
    text = _adf_text(op)

    def invoke(f, args, kw):
        devnull = open(os.devnull, "w")
        out0 = sys.stdout
        fake = _FakeDownload(text) if dl else None
        with _Recorder() as rec:
            sys.stdout = devnull
            try:
                if fake is not None:
                    with fake:
                        err, ev = _guarded(f, *args, download=True, repository_path=repo_path, adas_path=use_adas, **kw)
                else:
                    err, ev = _guarded(f, *args, download=False, repository_path=repo_path, adas_path=use_adas, **kw)
            finally:
                sys.stdout = out0
                devnull.close()
        dests = None
        if fake is not None:
            dests = [d for _, d in fake.fetched if d]
            ctx.mon("install_download_fetch", len(fake.fetched))
            for url, d in fake.fetched:
                ctx.mon("install_download_url_recorded")
                ctx.notes.setdefault("download_examples", [])
                if len(ctx.notes["download_examples"]) < 3:
                    ctx.notes["download_examples"].append({"fn": fn, "url": url, "dest": (d or "").replace(repo_path, "<repo>").replace(home, "$HOME")})
        outside = _judge_audit(ctx, H, fn, ev, repo_path, home, download_dests=dests)
        return err, rec, outside, (fake.fetched if fake is not None else [])

    fetched = []
    if op.get("via_files") and not kw.get("header_format"):
        # same front-end reached through the install_files() dispatcher of install.py, configuration key in lower,
        # upper or mixed case (install_files matches its keys case-insensitively)
        case = op.get("files_key", "lower")
        ckey = {"lower": kind, "upper": kind.upper(), "mixed": kind[:1].upper() + kind[1:3] + kind[3:].upper()
                if kind[3:].upper() != kind[3:] else kind.capitalize()}[case]
        ctx.mon("install_via_install_files")
        ctx.mon("install_files_key_" + case)
        err, rec, outside, fetched = invoke(_S["inst"].install_files, ({ckey: (tuple(args),)},), {})
        if err is None and not rec.calls:
            # nothing reached repository.update_*: differential against the direct front-end with the same arguments
            err2, rec2, outside2, fetched2 = invoke(f, args, kw)
            if err2 is None and rec2.calls:
                ctx.viol("install_files:entry-silently-not-installed:key-case-%s" % case,
                         "install_files({%r: [...]}) returned normally without handing anything to repository.update_*, while %s "
                         "with the same arguments installs %d key(s): the keys of that file are not readable after the call"
                         % (ckey, fn, sum(len(c["items"] or []) for c in rec2.calls)), configuration_key=ckey)
            err, rec, outside, fetched = err2, rec2, outside or outside2, fetched + fetched2
    else:
        err, rec, outside, fetched = invoke(f, args, kw)
    if dl and mode == "cached":
        if fetched:
            ctx.skip("file cached under <repository_path>/_download_cache was fetched again (statement silent)")
        else:
            ctx.mon("install_download_cache_hit")
    if err is not None:
        # parsing problems belong to C08; C06 only requires that a failed install damaged nothing
        ctx.skip("%s raised %s (parser / install failure, judged by C08)" % (fn, type(err).__name__))
        ctx.mon("install_raised")
        own = []
        for c in rec.calls:
            for fam, ck, val in (c["items"] or []):
                own = [w for w in own if (w[0], w[1]) != (fam, ck)] + [(fam, ck, val)]
        return _refused(ctx, H, fn, own, "install raised %s" % type(err).__name__)
    if not rec.calls:
        ctx.skip("argument recorder saw no repository.update_* call from %s" % fn)
        return True
    allowed, required = INSTALL_ROUTES[kind]
    called = [c["fn"] for c in rec.calls]
    for c in called:
        ctx.mon("install_call")
        if c not in allowed:
            ctx.viol("%s:routes-to:%s" % (fn, c), "%s handed its rates to repository.%s (expected %s)" % (fn, c, sorted(allowed)))
            H.dead = True
    for r in required:
        if r not in called:
            ctx.viol("%s:does-not-call:%s" % (fn, r), "%s never called repository.%s" % (fn, r))
            H.dead = True
    written, wrong_path = [], []
    for c in rec.calls:
        if c["items"] is None:
            ctx.skip("recorded update dictionary not understood: %s" % c["error"])
            continue
        if c["repository_path"] != repo_path:
            wrong_path.append(c)
            continue
        # later calls win for equal keys
        for fam, ck, val in c["items"]:
            written = [w for w in written if (w[0], w[1]) != (fam, ck)]
            written.append((fam, ck, val))
    # species of the keys must be the species install was asked for
    want_syms = {SPECIES[op[k]][0] for k in ("species", "donor", "receiver", "beam", "target") if k in op}
    if kind == "adf15":
        want_syms.add("H")     # ADF15 CHEXC blocks: donor is neutral hydrogen by the documented convention
    for c in rec.calls:
        for fam, ck, _ in (c["items"] or []):
            ctx.mon("install_key_species")
            syms = {x for x in ck if isinstance(x, str)}
            if not syms <= want_syms:
                ctx.viol("%s:key-species-not-the-requested-one:%s" % (fn, fam),
                         "%s was asked for species %s but wrote a %s key for %s" % (fn, sorted(want_syms), fam, sorted(syms)),
                         stored_key=repr(ck))
                H.dead = True
    for c in wrong_path:
        if not outside:
            # path dropped but nothing observed outside (e.g. the update raised): still a forwarding defect
            ctx.viol("%s:repository_path-not-forwarded-to:%s" % (fn, c["fn"]),
                     "%s called repository.%s with repository_path=%r instead of the path it was given" % (fn, c["fn"], c["repository_path"]))
        for fam, ck, val in (c["items"] or []):
            ctx.mon("install_misdirected_key")
            st, got, _ = H.read_key(fam, ck)
            old = H.lookup(fam, ck)
            if st == "ok" and old is None:
                H.resync(fam, ck)
    if H.dead:
        return False
    n0 = H.n_readback
    for fam, ck, val in written:
        if "_tr" in val:
            H.spell[(fam, ck)] = val["_tr"]
    if not H.check_written(fn, written, outside and not wrong_path):
        return False
    ctx.mon("install_readback", H.n_readback - n0)
    if not _install_cross_key(op, ctx, H, fn, written):
        return False
    excl = {(w[0], w[1]) for w in written}
    if not H.check_others(fn, excl):
        return False
    touched = [(w[0], w[1]) for w in written]
    for c in wrong_path:
        touched += [(fam, ck) for fam, ck, _ in (c["items"] or [])]
    # keys that were sent to another path must NOT appear in the given repository (they count as never written)
    return H.check_never_written(fn, touched)
