"""C02 — line shapes are normalised: the spectral integral equals the supplied radiance.

Monitor shape: reference model per call.  Every case builds a real plasma / species / (beam) / line-shape object
through the public API, calls the real ``add_line`` on fresh ``Spectrum`` objects and judges the samples it added
with closed-form bin integrals of the *documented* profile (vf/lineshape_ref_c02.py, which imports nothing from
cherab):

  bins_gauss / bins_stark : every bin = radiance x bin-average of the documented profile
                            (Gaussian parts: erf/erfc closed form; modified-Lorentzian parts: closed-form primitive,
                            two-sided because the code normalises on +-50 FWHM but integrates the un-truncated function
                            over the first/last touched bin, and integrates by GaussianQuadrature(rtol 1e-5))
  total                   : sum(samples) x delta = radiance x fraction of the profile inside the window, the fraction
                            computed from the two window edges only
  bins_stark_coarse /     : the same two comparisons on Stark grids with bins wider than FWHM/10 (tolerance 2e-3), where before
  total_stark_coarse        repo commit 94cac74 the quadrature of add_lorentzian_line lost accuracy (0.5 % at 4-8 FWHM per bin,
                            7 % at 16-40 FWHM, factors beyond); violations there carry the separate mechanism key
                            StarkBroadenedLine:lorentzian-bin-quadrature-unresolved (finding, fixed in the repository)
  integrator_diff /       : StarkBroadenedLine with a user-supplied GaussianQuadrature whose settings were reached by a random
  bins_stark_user /         history of property assignments (min_order / max_order up and down, relative_tolerance) interleaved
  total_user                with integrations: (a) the mutated integrator integrates five test functions to the same value
                            (4 ulp) as a freshly constructed one with the same final settings; (b) the spectrum is judged with
                            the same closed-form oracle and a tolerance derived from the final relative_tolerance
  seq_steps / seq_bins    : call sequence on ONE object of each of the seven classes (3-8 add_line calls; between calls the
                            polarisation property, B direction / magnitude, species temperature / flow, n_e/T_e, evaluation
                            point of a non-uniform plasma, view, radiance, window, beam energy / temperature / direction
                            change, by mutating the profile state or through the public plasma / beam setters): every step =
                            the spectrum of a FRESH object with the step's settings (rtol 1e-13) and satisfies the closed-form
                            oracle (seq_judged:<Class>)
  arg_alias               : MultipletLineShape / ZeemanMultiplet are built from caller-owned containers (C-contiguous float64
                            ndarray or view of a larger buffer, nested lists; lists of component tuples); the caller modifying them after construction
                            (every plain case) or between add_line calls (sequence step "caller-touches-...", for Stark: the
                            caller integrating something else with the integrator it handed over) must not change the object
  pol_sum                 : pi + sigma = unpolarised, bin by bin (three calls on identical inputs)
  zero_width              : width-less line => a pre-filled spectrum is returned bit-identical
  adds                    : on a pre-filled spectrum the increment equals what is added to a zero spectrum
"""
import math

import numpy as np

from vf import lineshape_ref_c02 as R

ID = "C02"
LEVEL = "exploration"
RULE = ("random (line-shape class, radiance, rest wavelength, isotope, species temperature and flow, n_e, T_e, B vector, "
        "view direction incl. non-unit / parallel / perpendicular to B, evaluation point of optionally non-uniform profiles, "
        "class parameters: multiplet table, (alpha,beta,gamma), field-dependent Zeeman structure with 0-6 components per "
        "polarisation, Stark (c,a,b) over the tabulated range, MSE ratio functions and beam) x spectral window placed "
        "relative to the documented profile (inside / straddling either edge / outside / just outside / one wide bin / "
        "bins so fine that the cut-off is 3e8-3e10 bins away / "
        "window much narrower than the line / 1024-4096 bins / Stark grids resolving or not resolving the FWHM / window "
        "over the +-50 FWHM cut-off); a case is non-trivial when radiance > 0 and either a positive-width profile with "
        "> 1e-9 of its mass inside the window was compared bin by bin, or the zero-width clause was evaluated on a "
        "pre-filled spectrum (distinct = distinct fully expanded parameter sets)")
LEVEL_TEXT = ("Exploration by runtime reference-model monitoring: each generated configuration is pushed through the real "
              "add_line of all seven line-shape classes and compared bin by bin with independent closed-form integrals of the "
              "documented profile, plus conservation (window fraction), pi+sigma=unpolarised and the zero-width clause; "
              "right level because the property quantifies over continuous inputs of deterministic numeric code")
LEVEL_NOTE = ("trusted: scipy erf/erfc, the series/Gauss-Legendre primitive of 1/(1+t^2.5) (verified against mpmath in every "
              "worker), the documented fit polynomials and constants quoted from the class docstrings and constants.pyx; "
              "inputs the workload never drives (NaN/inf, negative ratios, zero direction vectors) are not covered")
TECHNIQUE = ("runtime monitoring: per-call reference-model oracle (closed-form erf / 2F1-type bin integrals), conservation "
             "monitor on the window total, metamorphic pi+sigma=unpolarised monitor, exact no-op monitor for width-less lines")
ASSUMPTIONS = [
    "the documented profile is: Doppler shift lambda(1+v.d/c), thermal sigma of the rest wavelength, Zeeman weights "
    "1/2 sin^2 (pi) and 1/4 sin^2 + 1/2 cos^2 (each sigma), Lomanowski pseudo-Voigt fits, MSE ratios as in the class docstrings",
    "physical constants agree with the oracle's to 1e-7 relative (two CODATA sets coexist in the code base)",
    "modified-Lorentzian parts are accepted between the documented truncated profile and the un-truncated one, within "
    "2e-4 relative (20x the documented quadrature tolerance 1e-5); Stark grids with bins wider than FWHM/10 are judged "
    "with 2e-3 (the two-successive-orders stopping rule can stop early on an interval centred on the inflection point, "
    "2.6e-4 observed) under the separate key of the (fixed) quadrature finding",
    "StarkBroadenedLine is driven with its default integrator and with user-supplied GaussianQuadrature objects (random "
    "setter histories, final relative_tolerance 1e-9..1e-3, final max_order >= 4, grids with >= 10 bins per FWHM); other "
    "Integrator1D subclasses are not driven",
    "Zeeman structures with an empty or all-zero polarisation list, MSE calls with n_e <= 0 or T_e <= 0 and Stark "
    "parameters within 1e-6 relative of a fit-branch switching point are outside the statement (counted as skipped)",
]
ASAN_MODULES = ['cherab.core.model.lineshape.gaussian', 'cherab.core.model.lineshape.multiplet', 'cherab.core.model.lineshape.zeeman', 'cherab.core.model.lineshape.stark', 'cherab.core.model.lineshape.doppler', 'cherab.core.model.lineshape.beam.mse', 'cherab.core.atomic.zeeman', 'cherab.core.math.integrators.integrators1d']
ASAN = dict(cases=6000, workers=8, timecap=240)
QUICK = dict(cases=6500, workers=2, timecap=35)
THOROUGH = dict(cases=600000, workers=16, timecap=600)
REQUIRED = {"arg_alias_cases": 100, "bins_gauss": 20000, "bins_stark": 5000, "total": 1000, "pol_sum": 10000, "zero_width": 60, "adds": 200,
            "judged:GaussianLine": 30, "judged:MultipletLineShape": 30, "judged:ZeemanTriplet": 30,
            "judged:ParametrisedZeemanTriplet": 30, "judged:ZeemanMultiplet": 30, "judged:StarkBroadenedLine": 60,
            "judged:BeamEmissionMultiplet": 30, "integrator_diff": 300, "bins_stark_user": 5000, "total_user": 60,
            "seq_steps": 300, "seq_judged:GaussianLine": 8, "seq_judged:MultipletLineShape": 8, "seq_judged:ZeemanTriplet": 8,
            "seq_judged:ParametrisedZeemanTriplet": 8, "seq_judged:ZeemanMultiplet": 8, "seq_judged:StarkBroadenedLine": 8,
            "seq_judged:BeamEmissionMultiplet": 8}

MODELS = ["GaussianLine", "MultipletLineShape", "ZeemanTriplet", "ParametrisedZeemanTriplet", "ZeemanMultiplet",
          "StarkBroadenedLine", "BeamEmissionMultiplet"]
_MODEL_P = np.array([1.0, 1.2, 1.4, 1.2, 1.6, 2.6, 1.4])
_MODEL_P = _MODEL_P / _MODEL_P.sum()
ZEEMAN_FAMILY = ("ZeemanTriplet", "ParametrisedZeemanTriplet", "ZeemanMultiplet", "StarkBroadenedLine")

ELEMENTS = ["hydrogen", "deuterium", "tritium", "helium", "helium3", "lithium", "beryllium", "boron", "carbon",
            "nitrogen", "oxygen", "neon"]
_APPROX_WEIGHT = dict(hydrogen=1.008, deuterium=2.014, tritium=3.016, helium=4.0026, helium3=3.016, lithium=6.9675,
                      beryllium=9.0122, boron=10.8135, carbon=12.0106, nitrogen=14.0069, oxygen=15.9994, neon=20.1797)

EPS = 2.220446049250313e-16
PHYS = 1e-7                 # relative agreement demanded of physical constants (positions of split components, widths)
LOR_RTOL = 2e-4             # modified-Lorentzian parts: 20 x the documented GaussianQuadrature tolerance
LOR_RTOL_COARSE = 2e-3      # bins wider than FWHM/10: the documented stopping rule (two successive orders agree to rtol) can
                            # stop early when a (sub-)interval is centred on the profile's inflection point (midpoint and
                            # 2-point rules then agree by accident): up to 2.6e-4 measured on 40 000 targeted grids
RESOLVED = 0.1              # Stark grids with delta <= RESOLVED x FWHM are "resolved" (>= 10 bins per FWHM)
BRANCH_GUARD = 1e-6


# ------------------------------------------------------------------------------------------------------------------
# documented profile of a case  ->  components (kind, centre, width, weight, split)
# ------------------------------------------------------------------------------------------------------------------

def _factor(case):
    g = case["grad"]
    p = case["point"]
    return 1.0 + g[0] * p[0] + g[1] * p[1] + g[2] * p[2]


def local_state(case):
    """Plasma state at the evaluation point (profiles are base x (1 + g.p))."""
    f = _factor(case)
    return dict(ts=case["ts"] * f, vel=[c * f for c in case["vel"]], ne=case["ne"] * f, te=case["te"] * f,
                b=[c * f for c in case["b"]])


def zeeman_structure_values(zs, bm):
    """Documented ZeemanStructure semantics: wavelengths and ratios at field bm, ratios renormalised if their sum > 0."""
    out = {}
    for pol in ("pi", "sigma_plus", "sigma_minus"):
        wl = [c["w"][0] + c["w"][1] * bm + c["w"][2] * bm * bm for c in zs[pol]]
        rt = [max(0.0, c["r"][0] + c["r"][1] * bm) for c in zs[pol]]
        s = sum(rt)
        if s > 0:
            rt = [r / s for r in rt]
        out[pol] = (wl, rt, s)
    return out


def mse_ratio(spec, ne, energy):
    return spec[0] * (ne / 1e19) ** spec[1] * (energy / 5e4) ** spec[2]


def components(case, atomic_weight, beam_weight=None):
    """Returns dict(parts={'pi': [...], 'sigma': [...]} or {'no': [...]}, zero_width, complete, skip, info)."""
    st = local_state(case)
    model = case["model"]
    lam0 = case["lam0"]
    d = case["dir"]
    info = {}
    if model == "BeamEmissionMultiplet":
        m = case["mse"]
        if st["te"] <= 0 or st["ne"] <= 0:
            return dict(parts={"no": []}, zero_width=False, complete=False, skip="mse: n_e <= 0 or T_e <= 0 (statement silent)", info=info)
        if m["temperature"] <= 0:
            return dict(parts={"no": []}, zero_width=True, complete=True, skip=None, info=info)
        sig = R.thermal_sigma(lam0, m["temperature"], beam_weight)
        s2p = mse_ratio(m["sigma_to_pi"], st["ne"], m["energy"])
        s1s0 = mse_ratio(m["s1_to_s0"], st["ne"], 5e4)
        p2p3 = mse_ratio(m["pi2_to_pi3"], st["ne"], 5e4)
        p4p3 = mse_ratio(m["pi4_to_pi3"], st["ne"], 5e4)
        comps, split = R.mse_components(lam0, m["energy"], m["beam_dir"], d, st["b"], s2p, s1s0, p2p3, p4p3)
        centre0 = comps[0][0]
        info.update(sigma=sig, split=split)
        return dict(parts={"no": [("G", c, sig, w, abs(c - centre0)) for c, w in comps]}, zero_width=False, complete=True,
                    skip=None, info=info)

    ts = st["ts"]
    if model == "StarkBroadenedLine":
        fg = R.SIGMA2FWHM * R.thermal_sigma(lam0, ts, atomic_weight) if ts > 0 else 0.0
        c, a, b = case["stark"]
        full, eta, dist, fl = R.stark_parameters(c, a, b, st["ne"], st["te"], fg)
        info.update(fwhm_gauss=fg, fwhm_lorentz=fl, fwhm_full=full, eta=eta)
        if full == 0.0:
            return dict(parts={"pi": [], "sigma": []}, zero_width=True, complete=True, skip=None, info=info)
        skip = "stark: within 1e-6 of a fit-branch switching point" if dist < BRANCH_GUARD else None
        wp_no, ws_no, bm = None, None, None
        parts = {}
        for part in ("pi", "sigma"):
            wp, ws, bm = R.zeeman_weights(st["b"], d, part)
            lst = []
            cen = R.doppler(lam0, d, st["vel"])
            if bm == 0.0:
                lst += [k + (0.0,) for k in R.pseudo_voigt(cen, wp, full, eta)]
            elif part == "pi":
                lst += [k + (0.0,) for k in R.pseudo_voigt(cen, wp, full, eta)]
            else:
                e0 = R_HC / lam0
                for sgn in (-1.0, 1.0):
                    lam = R_HC / (e0 + sgn * R_MUB * bm)
                    lst += [k + (abs(lam - lam0),) for k in R.pseudo_voigt(R.doppler(lam, d, st["vel"]), ws, full, eta)]
            parts[part] = lst
        return dict(parts=parts, zero_width=False, complete=True, skip=skip, info=info)

    # Gaussian family
    if ts <= 0:
        parts = {"pi": [], "sigma": []} if model in ZEEMAN_FAMILY else {"no": []}
        return dict(parts=parts, zero_width=True, complete=True, skip=None, info=info)
    sig = R.thermal_sigma(lam0, ts, atomic_weight)
    info["sigma"] = sig
    if model == "GaussianLine":
        return dict(parts={"no": [("G", R.doppler(lam0, d, st["vel"]), sig, 1.0, 0.0)]}, zero_width=False, complete=True,
                    skip=None, info=info)
    if model == "MultipletLineShape":
        wl, rt = case["multiplet"]
        return dict(parts={"no": [("G", R.doppler(w, d, st["vel"]), sig, r, 0.0) for w, r in zip(wl, rt)]},
                    zero_width=False, complete=True, skip=None, info=info)
    parts = {}
    complete = True
    skip = None
    for part in ("pi", "sigma"):
        wp, ws, bm = R.zeeman_weights(st["b"], d, part)
        lst = []
        if model == "ParametrisedZeemanTriplet":
            alpha, beta, gamma = case["pzt"]
            s = sig * math.sqrt(1.0 + beta * beta * ts ** (2.0 * gamma))
            info["sigma"] = s
        else:
            s = sig
        if bm == 0.0 or part == "pi" and model != "ZeemanMultiplet":
            lst.append(("G", R.doppler(lam0, d, st["vel"]), s, wp, 0.0))
        elif model == "ZeemanTriplet":
            e0 = R_HC / lam0
            for sgn in (-1.0, 1.0):
                lam = R_HC / (e0 + sgn * R_MUB * bm)
                lst.append(("G", R.doppler(lam, d, st["vel"]), s, ws, abs(lam - lam0)))
        elif model == "ParametrisedZeemanTriplet":
            for sgn in (-1.0, 1.0):
                lam = lam0 + sgn * 0.5 * alpha * bm
                lst.append(("G", R.doppler(lam, d, st["vel"]), s, ws, 0.0))
        else:  # ZeemanMultiplet, B > 0
            zv = zeeman_structure_values(case["zs"], bm)
            if part == "pi":
                wl, rt, rs = zv["pi"]
                if rs <= 0:
                    complete = False
                lst += [("G", R.doppler(w, d, st["vel"]), s, wp * r, 0.0) for w, r in zip(wl, rt)]
            else:
                for key in ("sigma_plus", "sigma_minus"):
                    wl, rt, rs = zv[key]
                    if rs <= 0:
                        complete = False
                    lst += [("G", R.doppler(w, d, st["vel"]), s, ws * r, 0.0) for w, r in zip(wl, rt)]
        parts[part] = lst
    return dict(parts=parts, zero_width=False, complete=complete, skip=skip, info=info)


# the two constants below are the documented values of cherab/core/utility/constants.pyx (HC_EV_NM, BOHR_MAGNETON);
# positions derived from them are compared with a 1e-7 relative allowance (PHYS), not bit for bit
R_HC = 1239.8419738620933
R_MUB = 5.78838180123e-5


# ------------------------------------------------------------------------------------------------------------------
# case generator
# ------------------------------------------------------------------------------------------------------------------

def _rand_unit(rng):
    v = rng.normal(size=3)
    return v / np.linalg.norm(v)


def _perp(rng, b):
    b = np.asarray(b, dtype=float)
    v = np.cross(b, _rand_unit(rng))
    n = np.linalg.norm(v)
    return v / n if n > 0 else _rand_unit(rng)


def _dyadic_ratios(rng, n):
    """n non-negative ratios that are multiples of 2^-16 and sum to 1 exactly in any summation order."""
    q = 1 << 16
    r = rng.dirichlet(np.ones(n) * rng.uniform(0.3, 3.0))
    k = np.floor(r * q).astype(int)
    k[int(np.argmax(k))] += q - int(k.sum())
    return [float(x) / q for x in k]


def _zs_list(rng, n, spread):
    out = []
    for _ in range(n):
        out.append(dict(w=[float(rng.normal(0, spread)), float(rng.normal(0, 0.02)), float(rng.normal(0, 5e-4))],
                        r=[float(rng.uniform(0.05, 1.0)), float(rng.uniform(-0.04, 0.04))]))
    return out


def gen_case(rng, tier):
    model = MODELS[int(rng.choice(len(MODELS), p=_MODEL_P))]
    case = dict(model=model)
    case["radiance"] = 0.0 if rng.random() < 0.03 else float(10 ** rng.uniform(-6, 6))
    lam0 = float(10 ** rng.uniform(math.log10(90.0), math.log10(2000.0)))
    case["lam0"] = lam0
    if model == "StarkBroadenedLine" and rng.random() < 0.7:
        el = ELEMENTS[int(rng.integers(3))]
    else:
        el = ELEMENTS[int(rng.integers(len(ELEMENTS)))]
    case["element"] = el
    u = rng.random()
    zero_t = u < (0.16 if model == "StarkBroadenedLine" else 0.07)
    case["ts"] = float([0.0, -1.0, -1e-3][int(rng.integers(3))]) if zero_t else float(10 ** rng.uniform(-2, 4))
    case["vel"] = [0.0, 0.0, 0.0] if rng.random() < 0.25 else [float(c) for c in _rand_unit(rng) * 10 ** rng.uniform(2, 6)]
    # magnetic field
    u = rng.random()
    bm = float(10 ** rng.uniform(-3, 1.3))
    if u < 0.12:
        b = np.zeros(3)
    elif u < 0.27:
        b = np.zeros(3)
        b[int(rng.integers(3))] = bm * (1 if rng.random() < 0.5 else -1)
    else:
        b = _rand_unit(rng) * bm
    case["b"] = [float(c) for c in b]
    # observation direction
    u = rng.random()
    if u < 0.10 and np.any(b != 0):
        d = b / np.linalg.norm(b) * (1 if rng.random() < 0.5 else -1)
    elif u < 0.20 and np.any(b != 0):
        d = _perp(rng, b)
    elif u < 0.27:
        d = np.zeros(3)
        d[int(rng.integers(3))] = 1.0 if rng.random() < 0.5 else -1.0
    else:
        d = _rand_unit(rng)
    if rng.random() < 0.3:
        d = d * 10 ** rng.uniform(-3, 3)
    case["dir"] = [float(c) for c in d]
    # electrons
    ne = float(10 ** rng.uniform(18, 22))
    te = float(10 ** rng.uniform(math.log10(0.2), math.log10(50.0)))
    if model in ("StarkBroadenedLine", "BeamEmissionMultiplet"):
        pz = 0.22 if (model == "StarkBroadenedLine" and zero_t) else 0.06
        u = rng.random()
        if u < pz / 2:
            ne = float([0.0, -1e19][int(rng.integers(2))])
        elif u < pz:
            te = float([0.0, -1.0][int(rng.integers(2))])
    case["ne"], case["te"] = ne, te
    case["point"] = [float(c) for c in rng.uniform(-1, 1, size=3)]
    case["grad"] = [float(c) for c in rng.uniform(-0.3, 0.3, size=3)] if rng.random() < 0.3 else [0.0, 0.0, 0.0]

    # nominal width used for class parameters that scale with the line width
    aw = _APPROX_WEIGHT[el]
    sig_nom = R.thermal_sigma(lam0, case["ts"] if case["ts"] > 0 else 1.0, aw)
    if model == "MultipletLineShape":
        n = int(rng.integers(1, 9))
        spread = sig_nom * 10 ** rng.uniform(-1, 2)
        wl = [lam0 + float(o) for o in rng.uniform(-1, 1, size=n) * spread]
        case["multiplet"] = [wl, _dyadic_ratios(rng, n)]
    elif model == "ParametrisedZeemanTriplet":
        case["pzt"] = [float(10 ** rng.uniform(-3, -1)), 0.0 if rng.random() < 0.08 else float(rng.uniform(0, 2)),
                       float(rng.uniform(-1.0, 0.5))]
    elif model == "ZeemanMultiplet":
        spread = sig_nom * 10 ** rng.uniform(-1, 1.5)
        zs = {}
        for pol in ("pi", "sigma_plus", "sigma_minus"):
            n = 0 if rng.random() < 0.04 else int(rng.integers(1, 7))
            lst = _zs_list(rng, n, spread)
            for c in lst:
                c["w"][0] += lam0
            if n and rng.random() < 0.03:
                for c in lst:
                    c["r"] = [0.0, 0.0]
            zs[pol] = lst
        case["zs"] = zs
    elif model == "StarkBroadenedLine":
        a = float(rng.uniform(0.67, 0.79))
        bb = float(rng.uniform(0.015, 0.065))
        f20 = 10 ** rng.uniform(-2.3, 0.3)
        case["stark"] = [float(f20 / (1e20 ** a)), a, bb]
    elif model == "BeamEmissionMultiplet":
        def spec(lo, hi, flat):
            if flat:
                return [float(10 ** rng.uniform(lo, hi)), 0.0, 0.0]
            return [float(10 ** rng.uniform(lo, hi)), float(rng.uniform(-0.3, 0.3)), float(rng.uniform(-0.3, 0.3))]
        flat = rng.random() < 0.2
        bd = _rand_unit(rng)
        u = rng.random()
        if u < 0.08 and np.any(b != 0):
            bd = b / np.linalg.norm(b)
        if rng.random() < 0.3:
            bd = bd * 10 ** rng.uniform(-2, 2)
        case["mse"] = dict(energy=float(10 ** rng.uniform(3.5, 6)),
                           temperature=0.0 if rng.random() < 0.08 else float(10 ** rng.uniform(-1, 2.5)),
                           element=ELEMENTS[int(rng.integers(3))], beam_dir=[float(c) for c in bd],
                           beam_point=[float(c) for c in rng.uniform(-1, 1, size=3)],
                           sigma_to_pi=spec(-1, 1, flat), s1_to_s0=spec(-1, 0.5, flat), pi2_to_pi3=spec(-1, 0.5, flat),
                           pi4_to_pi3=spec(-1, 0.5, flat))
    _place_window(case, rng, tier)
    # drawn last, so that all cases without a user integrator are the cases generated before this class existed
    if model == "StarkBroadenedLine" and rng.random() < 0.35:
        case["integrator"] = _gen_integrator(rng)
        if case["window"]["cls"] not in ("resolved_inside", "resolved_straddle"):
            _place_window(case, rng, tier, force="resolved_inside" if rng.random() < 0.7 else "resolved_straddle")
    elif rng.random() < 0.09:
        _gen_sequence(case, rng, tier)
    elif rng.random() < 0.02:
        _place_ultrafine(case, rng)
    return case


INT_REACH = 2.0e9      # a cut-off more than ~2^31 bins away from the window start (bin-index arithmetic in C ints)


def _place_ultrafine(case, rng):
    """Window at the line centre, so finely binned that the line's cut-off lies 3e8 .. 3e10 bins away."""
    comps = _nominal_components(case)
    k = comps[int(rng.integers(len(comps)))]
    cut = (R.LORENTZIAN_CUTOFF if k[0] == "L" else R.GAUSSIAN_CUTOFF) * k[2]
    delta = cut / 10 ** rng.uniform(8.5, 10.5)
    bins = int(rng.integers(4, 201))
    lo = max(1.0, k[1] + rng.uniform(-2, 2) * k[2] - 0.5 * bins * delta)
    case["window"] = dict(cls="ultrafine", min=float(lo), max=float(lo + bins * delta), bins=bins)


SEQ_FIELDS = ("radiance", "ts", "vel", "ne", "te", "b", "dir", "point", "window", "mse")


def _gen_sequence(case, rng, tier):
    """Call sequence on ONE line-shape object: 3-8 add_line calls, each preceded by 0-2 legal changes of what may change
    between calls (polarisation property, plasma state at the point, evaluation point, view, radiance, window, beam)."""
    model = case["model"]
    family = model in ZEEMAN_FAMILY
    if rng.random() < 0.6 and case["grad"] == [0.0, 0.0, 0.0]:
        case["grad"] = [float(c) for c in rng.uniform(-0.3, 0.3, size=3)]
    eff = {k: v for k, v in case.items()}
    kinds = ["b-direction", "b-magnitude", "ts", "vel", "electrons", "point", "radiance", "dir", "window"]
    probs = [0.16, 0.14, 0.10, 0.08, 0.10, 0.12, 0.08, 0.12, 0.10]
    if family:
        kinds.append("polarisation")
        probs.append(0.55)
    if model == "BeamEmissionMultiplet":
        kinds.append("beam")
        probs.append(0.25)
    if model in OWNED_ARGUMENT:
        kinds.append("caller-touches-" + OWNED_ARGUMENT[model])
        probs.append(0.4)
    probs = np.array(probs) / sum(probs)
    pol = ["pi", "sigma", "no"][int(rng.integers(3))] if family else "no"
    steps = [dict(changes=[], set={}, pol=pol, how="holder")]
    for _ in range(int(rng.integers(2, 8))):
        n = 1 if rng.random() < 0.7 else 2
        ch = sorted(set(kinds[int(i)] for i in rng.choice(len(kinds), size=n, p=probs)))
        st = {}
        replace = False
        for c in ch:
            if c == "polarisation":
                pol = [q for q in ("pi", "sigma", "no") if q != pol][int(rng.integers(2))]
            elif c in ("b-direction", "b-magnitude"):
                b = np.array(eff["b"], dtype=float)
                bm = float(np.linalg.norm(b))
                if c == "b-direction" and bm > 0:
                    v = _rand_unit(rng)
                    b = v * (bm / float(np.linalg.norm(v)))
                else:
                    new = 0.0 if rng.random() < 0.1 else float(10 ** rng.uniform(-3, 1.3))
                    b = (b / bm if bm > 0 else _rand_unit(rng)) * new
                    replace = True
                st["b"] = [float(x) for x in b]
            elif c == "ts":
                st["ts"] = 0.0 if rng.random() < 0.06 else float(10 ** rng.uniform(-2, 4))
                replace = True
            elif c == "vel":
                st["vel"] = [0.0, 0.0, 0.0] if rng.random() < 0.2 else [float(x) for x in _rand_unit(rng) * 10 ** rng.uniform(2, 6)]
                replace = True
            elif c == "electrons":
                st["ne"] = float(10 ** rng.uniform(18, 22))
                st["te"] = float(10 ** rng.uniform(math.log10(0.2), math.log10(50.0)))
                replace = replace or model == "StarkBroadenedLine"
            elif c == "point":
                st["point"] = [float(x) for x in rng.uniform(-1, 1, size=3)]
            elif c == "radiance":
                st["radiance"] = float(10 ** rng.uniform(-6, 6))
            elif c == "dir":
                d = _rand_unit(rng)
                bb = np.array(st.get("b", eff["b"]), dtype=float)
                u = rng.random()
                if u < 0.15 and np.any(bb != 0):
                    d = bb / np.linalg.norm(bb)
                elif u < 0.3 and np.any(bb != 0):
                    d = _perp(rng, bb)
                st["dir"] = [float(x) for x in d]
            elif c == "beam":
                m = dict(eff["mse"])
                u = rng.random()
                if u < 0.4:
                    m["energy"] = float(10 ** rng.uniform(3.5, 6))
                elif u < 0.7:
                    m["temperature"] = 0.0 if rng.random() < 0.1 else float(10 ** rng.uniform(-1, 2.5))
                else:
                    m["beam_dir"] = [float(x) for x in _rand_unit(rng)]
                st["mse"] = m
                replace = True
        eff.update(st)
        if "window" in ch or (replace and rng.random() < 0.75):
            _place_window(eff, rng, tier)       # also redraws prefill flags, unused in sequences
            if eff["window"]["bins"] > 1024:
                eff["window"]["bins"] = 1024
            st["window"] = dict(eff["window"])
        steps.append(dict(changes=ch, set=st, pol=pol, how="holder" if rng.random() < 0.5 else "assign"))
    case["prefill"] = False
    case["sequence"] = steps


N_TEST_FUNCTIONS = 5


def _test_function(kind):
    """Smooth (and one Stark-like) integrands for the integrator histories and the differential monitor."""
    return [lambda x: math.exp(-x * x), lambda x: 1.0 / (1.0 + x * x), lambda x: math.sin(3.0 * x) + 2.0,
            lambda x: x ** 7 - 2.0 * x ** 3 + 1.0, lambda x: 1.0 / (1.0 + abs(x) ** 2.5)][kind]


def _gen_integrator(rng):
    """A GaussianQuadrature whose final settings are reached by property assignments after construction."""
    mn = int(rng.integers(1, 7))
    mx = int(rng.integers(max(mn, 4), 61))
    rt = float(10 ** rng.uniform(-8, -3))
    init = dict(relative_tolerance=rt, min_order=mn, max_order=mx)
    ops = []

    def interval():
        a = float(rng.uniform(-2, 1))
        return [a, a + float(rng.uniform(0.1, 3))]
    for _ in range(int(rng.integers(1, 7))):
        u = rng.random()
        if u < 0.3:
            mn = int(rng.integers(1, mx + 1))
            ops.append(["min_order", mn])
        elif u < 0.6:
            mx = int(rng.integers(mn, 65))
            ops.append(["max_order", mx])
        elif u < 0.75:
            rt = float(10 ** rng.uniform(-9, -4))
            ops.append(["relative_tolerance", rt])
        else:
            ops.append(["integrate", int(rng.integers(N_TEST_FUNCTIONS))] + interval())
    if mx < 4:                      # the tolerance model of the spectrum comparison needs a final max_order >= 4
        mx = int(rng.integers(6, 51))
        ops.append(["max_order", mx])
    if rng.random() < 0.4:          # tight final tolerance in part of the cases: a 1e-3 quadrature error must be visible
        rt = float(10 ** rng.uniform(-9, -7))
        ops.append(["relative_tolerance", rt])
    probes = [[k] + interval() for k in range(N_TEST_FUNCTIONS)]
    return dict(init=init, ops=ops, final=dict(relative_tolerance=rt, min_order=mn, max_order=mx), probes=probes)


def _nominal_components(case):
    """Profile used only to place the window: a width-less case is placed as if the temperatures were 1 eV."""
    c = dict(case)
    if case["model"] == "BeamEmissionMultiplet":
        m = dict(case["mse"])
        if m["temperature"] <= 0:
            m["temperature"] = 1.0
        c["mse"] = m
        if c["ne"] <= 0:
            c["ne"] = 1e19
        if c["te"] <= 0:
            c["te"] = 1.0
        bw = _APPROX_WEIGHT[m["element"]]
    else:
        bw = None
        if c["ts"] <= 0 and not (case["model"] == "StarkBroadenedLine" and c["ne"] > 0 and c["te"] > 0):
            c["ts"] = 1.0
    res = components(c, _APPROX_WEIGHT[case["element"]], bw)
    comps = [k for lst in res["parts"].values() for k in lst]
    if not comps:      # e.g. Zeeman structure without any component: place around the rest wavelength
        comps = [("G", case["lam0"], R.thermal_sigma(case["lam0"], 1.0, _APPROX_WEIGHT[case["element"]]), 1.0, 0.0)]
    return comps


def _place_window(case, rng, tier, force=None):
    comps = _nominal_components(case)
    has_l = any(k[0] == "L" for k in comps)
    cen = np.array([k[1] for k in comps])
    wid = np.array([k[2] / (R.SIGMA2FWHM if k[0] == "L" else 1.0) for k in comps])   # sigma-equivalent widths
    W = float(wid.min())
    cmin, cmax = float(cen.min()), float(cen.max())
    if has_l:
        classes = ["resolved_inside", "resolved_straddle", "inside", "straddle_lo", "straddle_hi", "outside", "cutoff",
                   "single_bin", "wide", "fine"]
        p = [0.30, 0.14, 0.12, 0.06, 0.06, 0.05, 0.07, 0.10, 0.05, 0.05]
    else:
        classes = ["inside", "straddle_lo", "straddle_hi", "outside", "near_outside", "single_bin", "wide", "fine"]
        p = [0.30, 0.12, 0.12, 0.07, 0.06, 0.14, 0.08, 0.11]
    wc = classes[int(rng.choice(len(classes), p=np.array(p) / sum(p)))]
    if force and has_l:
        wc = force
    bins = int(round(10 ** rng.uniform(0, math.log10(512))))
    k = int(rng.integers(len(comps)))
    ck = float(cen[k])
    if wc == "inside":
        lo = cmin - rng.uniform(10.5, 40) * W
        hi = cmax + rng.uniform(10.5, 40) * W
    elif wc == "fine":
        lo = cmin - rng.uniform(10.5, 20) * W
        hi = cmax + rng.uniform(10.5, 20) * W
        bins = int(rng.integers(1024, 4097))
    elif wc == "straddle_lo":
        lo = ck + rng.uniform(-2, 2) * W
        hi = max(cmax, lo) + rng.uniform(3, 40) * W
    elif wc == "straddle_hi":
        hi = ck + rng.uniform(-2, 2) * W
        lo = min(cmin, hi) - rng.uniform(3, 40) * W
    elif wc in ("outside", "near_outside"):
        cut = R.LORENTZIAN_CUTOFF * R.SIGMA2FWHM if has_l else R.GAUSSIAN_CUTOFF
        gap = rng.uniform(1.05, 10) * cut * W if wc == "outside" else rng.uniform(5, 10) * W
        width = rng.uniform(1, 50) * W
        if rng.random() < 0.5:
            lo = cmax + gap
            hi = lo + width
        else:
            hi = cmin - gap
            lo = hi - width
    elif wc == "cutoff":
        edge = R.LORENTZIAN_CUTOFF * R.SIGMA2FWHM * W
        mid = ck + (1 if rng.random() < 0.5 else -1) * edge
        half = edge * 10 ** rng.uniform(-3, -0.3)
        lo, hi = mid - half * rng.uniform(0.2, 1), mid + half * rng.uniform(0.2, 1)
    elif wc == "single_bin":
        bins = int(rng.integers(1, 6))
        delta = W * 10 ** rng.uniform(1, 4)
        j = int(rng.integers(bins))
        lo = ck - (j + rng.uniform(0.02, 0.98)) * delta
        hi = lo + bins * delta
    elif wc == "wide":
        width = W * 10 ** rng.uniform(-3, -1)
        lo = ck + rng.uniform(-3, 3) * W - 0.5 * width
        hi = lo + width
    elif wc == "resolved_inside":
        fw = W * R.SIGMA2FWHM
        delta = fw * 10 ** rng.uniform(-2, math.log10(RESOLVED) - 0.02)
        bins = int(min(512 if force else (4096 if tier == "thorough" else 1024),
                       max(8, math.ceil((cmax - cmin + fw * rng.uniform(2, 30)) / delta))))
        mid = 0.5 * (cmin + cmax) + rng.uniform(-0.3, 0.3) * fw
        lo = mid - 0.5 * bins * delta
        hi = lo + bins * delta
    else:  # resolved_straddle
        fw = W * R.SIGMA2FWHM
        delta = fw * 10 ** rng.uniform(-2, math.log10(RESOLVED) - 0.02)
        bins = int(rng.integers(8, 513))
        if rng.random() < 0.5:
            lo = ck + rng.uniform(-1, 1) * fw
            hi = lo + bins * delta
        else:
            hi = ck + rng.uniform(-1, 1) * fw
            lo = hi - bins * delta
    lo, hi = float(lo), float(hi)
    if lo < 1.0:                       # Spectrum demands positive wavelengths
        hi = hi + (1.0 - lo) if wc in ("outside", "near_outside") else max(hi, 1.0 + (hi - lo) * 0.01 + 1e-6)
        lo = 1.0
    if not hi > lo * (1 + 1e-12):
        hi = lo * (1 + 1e-9) + 1e-9
    case["window"] = dict(cls=wc, min=lo, max=hi, bins=bins)
    case["prefill"] = bool(rng.random() < 0.35)
    case["prefill_seed"] = int(rng.integers(1 << 30))


def _base_case(**kw):
    c = dict(model="GaussianLine", radiance=1.0, lam0=656.104, element="deuterium", ts=5.0, vel=[2e4, 0.0, 0.0],
             b=[0.0, 5.0, 0.0], dir=[-1.0, 0.0, 0.0], ne=1e19, te=20.0, point=[0.5, 0.5, 0.5], grad=[0.0, 0.0, 0.0],
             window=dict(cls="inside", min=655.6, max=656.6, bins=256), prefill=True, prefill_seed=1)
    c.update(kw)
    return c


def fixed_cases(tier):
    """Deterministic regression / hostile cases (the parameter set of the repository's own test + edge placements)."""
    out = []
    zs = dict(pi=[dict(w=[656.104, 0.0, 0.0], r=[1.0, 0.0])],
              sigma_plus=[dict(w=[656.104, -0.0201, 0.0], r=[0.5, 0.0]), dict(w=[656.15, -0.0201, 0.0], r=[0.5, 0.0])],
              sigma_minus=[dict(w=[656.104, 0.0201, 0.0], r=[0.5, 0.0]), dict(w=[656.05, 0.0201, 0.0], r=[0.5, 0.0])])
    mse = dict(energy=6e4, temperature=10.0, element="deuterium", beam_dir=[0.0, 0.0, 1.0], beam_point=[0.5, 0.5, 0.5],
               sigma_to_pi=[0.56, 0.0, 0.0], s1_to_s0=[0.7060001671878492, 0.0, 0.0], pi2_to_pi3=[0.3140003593919741, 0.0, 0.0],
               pi4_to_pi3=[0.7279994935840365, 0.0, 0.0])
    per_model = dict(
        GaussianLine={}, ZeemanTriplet={}, ParametrisedZeemanTriplet=dict(pzt=[0.0402068, 0.4384, -0.5015]),
        MultipletLineShape=dict(element="nitrogen", lam0=404.21, ts=10.0, vel=[1e4, 5e4, 0.0],
                                multiplet=[[403.509, 404.132, 404.354, 404.479, 405.692], [0.25, 0.5, 0.125, 0.0625, 0.0625]],
                                window=dict(cls="inside", min=403.0, max=406.2, bins=512)),
        ZeemanMultiplet=dict(zs=zs), StarkBroadenedLine=dict(stark=[3.954e-16, 0.7149, 0.028], dir=[-1.0, 1.0, 0.0],
                                                           window=dict(cls="resolved_inside", min=655.904, max=656.304, bins=512)),
        BeamEmissionMultiplet=dict(mse=mse, dir=[1.0, 1.0, 0.0], window=dict(cls="inside", min=650.0, max=662.0, bins=512)))
    for model, kw in per_model.items():
        base = _base_case(model=model, **kw)
        out.append(base)
        # oblique view, B = 0, zero temperature, one huge bin, line exactly on a bin edge, single bin
        out.append(dict(base, dir=[0.3, -2.0, 1.1]))
        out.append(dict(base, b=[0.0, 0.0, 0.0]))
        out.append(dict(base, ts=0.0, ne=0.0, mse=dict(mse, temperature=0.0)) if model == "BeamEmissionMultiplet"
                   else dict(base, ts=0.0, ne=0.0))
        w = base["window"]
        out.append(dict(base, window=dict(cls="single_bin", min=w["min"] - 40.0, max=w["max"] + 40.0, bins=1)))
        out.append(dict(base, window=dict(cls="straddle_lo", min=base["lam0"], max=base["lam0"] + 0.5, bins=64)))
        out.append(dict(base, window=dict(cls="outside", min=w["max"] + 200.0, max=w["max"] + 201.0, bins=16)))
    # Stark: pure Lorentzian (cold neutrals) and pure Gaussian (no electrons), dense and thin plasma
    st = per_model["StarkBroadenedLine"]
    out.append(_base_case(model="StarkBroadenedLine", ts=0.0, **st))
    out.append(_base_case(model="StarkBroadenedLine", ne=0.0, **st))
    out.append(_base_case(model="StarkBroadenedLine", te=-1.0, **st))
    out.append(_base_case(model="StarkBroadenedLine", ne=1e21, ts=1.0, stark=st["stark"], dir=st["dir"],
                          window=dict(cls="resolved_inside", min=655.0, max=657.2, bins=700)))
    out.append(_base_case(model="StarkBroadenedLine", ne=1e18, ts=0.0, stark=st["stark"], dir=st["dir"],
                          window=dict(cls="inside", min=655.6, max=656.6, bins=50)))   # FWHM << delta
    return out


# ------------------------------------------------------------------------------------------------------------------
# building the real objects
# ------------------------------------------------------------------------------------------------------------------

def _profile3d(value, case):
    from cherab.core.math import Constant3D
    g = case["grad"]
    if g == [0.0, 0.0, 0.0]:
        return Constant3D(value)
    return lambda x, y, z: value * (1.0 + g[0] * x + g[1] * y + g[2] * z)


def _vprofile3d(vec, case):
    from cherab.core.math import ConstantVector3D
    from raysect.core import Vector3D
    g = case["grad"]
    if g == [0.0, 0.0, 0.0]:
        return ConstantVector3D(Vector3D(*vec))

    def f(x, y, z):
        s = 1.0 + g[0] * x + g[1] * y + g[2] * z
        return Vector3D(vec[0] * s, vec[1] * s, vec[2] * s)
    return f


def make_integrator(spec, upto=None, skip=()):
    """The real GaussianQuadrature after the case's history of property assignments (ops[i] for i in skip left out)."""
    from cherab.core.math.integrators import GaussianQuadrature
    q = GaussianQuadrature(**spec["init"])
    for i, op in enumerate(spec["ops"] if upto is None else spec["ops"][:upto]):
        if i in skip:
            continue
        if op[0] == "integrate":
            q.integrand = _test_function(op[1])
            q(op[2], op[3])
        else:
            setattr(q, op[0], op[1])
    return q


def fresh_integrator(settings):
    from cherab.core.math.integrators import GaussianQuadrature
    return GaussianQuadrature(**settings)


def _final_settings(spec, skip=()):
    st = dict(spec["init"])
    for i, op in enumerate(spec["ops"]):
        if i not in skip and op[0] != "integrate":
            st[op[0]] = op[1]
    return st


def _probe(q, probes):
    out = []
    for k, a, b in probes:
        q.integrand = _test_function(k)
        out.append(q(a, b))
    return np.array(out)


def _history_label(spec):
    """Mechanism label of a history-dependence: greedily drop operations while the mutated integrator still differs
    from a fresh one with the same final settings; name the setters that remain, with their direction."""
    skip = set()

    def differs(sk):
        try:
            a = _probe(make_integrator(spec, skip=sk), spec["probes"])
            b = _probe(fresh_integrator(_final_settings(spec, sk)), spec["probes"])
        except ValueError:          # dropping an operation made a later assignment invalid (min_order > max_order)
            return False
        return bool(np.any(np.abs(a - b) > 4 * EPS * np.abs(b)))
    for i in range(len(spec["ops"])):
        if differs(skip | {i}):
            skip.add(i)
    st = dict(spec["init"])
    names = []
    for i, op in enumerate(spec["ops"]):
        if op[0] == "integrate":
            if i not in skip:
                names.append("integrate")
            continue
        if i not in skip:
            d = "up" if op[1] > st[op[0]] else ("down" if op[1] < st[op[0]] else "same")
            names.append("%s-%s" % (op[0], d))
        if i not in skip:
            st[op[0]] = op[1]
    return "+".join(sorted(set(names))) or "construction"


def check_integrator(case, ctx):
    """Differential monitor: the mutated integrator = a freshly constructed one with the same final settings."""
    spec = case["integrator"]
    q = make_integrator(spec)
    ctx.cls("stark:user-integrator")
    final = spec["final"]
    ok = (q.min_order == final["min_order"] and q.max_order == final["max_order"]
          and q.relative_tolerance == final["relative_tolerance"])
    ctx.check(ok, "integrator:settings-not-stored:GaussianQuadrature",
              "GaussianQuadrature properties do not read back the assigned values", monitor="integrator_diff",
              got=[q.min_order, q.max_order, q.relative_tolerance], want=final)
    got = _probe(q, spec["probes"])
    want = _probe(fresh_integrator(final), spec["probes"])
    bad = np.abs(got - want) > 4 * EPS * np.abs(want)
    ctx.mon("integrator_diff", int(got.size))
    if bad.any():
        i = int(np.argmax(np.abs(got - want) / (np.abs(want) + 1e-300)))
        ctx.viol("integrator:history-dependent:GaussianQuadrature:" + _history_label(spec),
                 "a GaussianQuadrature whose settings were reached by property assignments integrates a smooth function "
                 "to a different value than a freshly constructed one with the same settings",
                 function=int(spec["probes"][i][0]), interval=spec["probes"][i][1:], got=float(got[i]), want=float(want[i]),
                 rel=float(abs(got[i] - want[i]) / (abs(want[i]) + 1e-300)), final=final)
    return q


# (Fortran-ordered (2, N) arrays are rejected by the constructor with "ndarray is not C-contiguous": no spectrum, not judged)
CONTAINER_KINDS = ["ndarray-c-float64", "list", "ndarray-c-float64-view", "ndarray-c-float64"]
OWNED_ARGUMENT = dict(MultipletLineShape="multiplet", ZeemanMultiplet="zeeman-component-lists", StarkBroadenedLine="integrator")


def container_kind(case):
    """Kind of caller-owned container the multiplet table is handed over in (a deterministic function of the case)."""
    return CONTAINER_KINDS[case.get("prefill_seed", 0) % len(CONTAINER_KINDS)]


def make_table(kind, table):
    if kind == "list":
        return [list(table[0]), list(table[1])]
    a = np.array(table, dtype=np.float64)
    if kind == "ndarray-c-float64-view":          # a contiguous (2, N) window of a larger caller-owned buffer
        big = np.zeros((3, a.shape[1]))
        big[1:] = a
        return big[1:]
    return np.ascontiguousarray(a)


def scramble_table(t):
    """The caller re-uses its own (2, N) container after handing it to a constructor: shifts wavelengths, rescales ratios."""
    for j in range(len(t[0])):
        t[0][j] = t[0][j] + 0.37
        t[1][j] = t[1][j] * 3.0 + 0.01


def scramble_lists(lists):
    """The caller re-uses the lists it built a ZeemanStructure from."""
    for i, lst in enumerate(lists):
        if i % 2 == 0:
            lst.clear()
        else:
            lst.reverse()
            del lst[1:]


def build(case, polarisation, integrator=None, mutate_args=False):
    """Real cherab objects for one case; returns (callable(spectrum) -> spectrum, element atomic weight, beam weight).
    mutate_args: after construction the caller-owned containers handed to the constructor are modified in place."""
    from raysect.core import Point3D, Vector3D
    from cherab.core import Plasma, Species, Maxwellian, Line, AtomicData, Beam
    from cherab.core.atomic import elements, ZeemanStructure
    from cherab.core import model as M

    el = getattr(elements, case["element"])
    plasma = Plasma()
    plasma.b_field = _vprofile3d(case["b"], case)
    plasma.electron_distribution = Maxwellian(_profile3d(case["ne"], case), _profile3d(case["te"], case),
                                              _vprofile3d([0.0, 0.0, 0.0], case), 9.1093837015e-31)
    species = Species(el, 0, Maxwellian(_profile3d(1e18, case), _profile3d(case["ts"], case), _vprofile3d(case["vel"], case),
                                        el.atomic_weight * R.ATOMIC_MASS))
    plasma.composition.add(species)
    line = Line(el, 0, (3, 2))
    ad = AtomicData()
    point = Point3D(*case["point"])
    direction = Vector3D(*case["dir"])
    lam0 = case["lam0"]
    model = case["model"]
    beam_weight = None
    if model == "BeamEmissionMultiplet":
        m = case["mse"]
        bel = getattr(elements, m["element"])
        beam_weight = bel.atomic_weight
        beam = Beam()
        beam.plasma = plasma
        beam.energy = m["energy"]
        beam.temperature = m["temperature"]
        beam.element = bel

        def f2(spec):
            if spec[1] == 0.0 and spec[2] == 0.0:
                return spec[0]
            return lambda ne, e: spec[0] * (ne / 1e19) ** spec[1] * (e / 5e4) ** spec[2]

        def f1(spec):
            if spec[1] == 0.0 and spec[2] == 0.0:
                return spec[0]
            return lambda ne: spec[0] * (ne / 1e19) ** spec[1] * (5e4 / 5e4) ** spec[2]
        obj = M.BeamEmissionMultiplet(line, lam0, beam, ad, f2(m["sigma_to_pi"]), f1(m["s1_to_s0"]), f1(m["pi2_to_pi3"]),
                                      f1(m["pi4_to_pi3"]))
        bp = Point3D(*m["beam_point"])
        bd = Vector3D(*m["beam_dir"])
        rad = case["radiance"]
        return (lambda s: obj.add_line(rad, bp, point, bd, direction, s)), el.atomic_weight, beam_weight
    if model == "GaussianLine":
        obj = M.GaussianLine(line, lam0, species, plasma, ad)
    elif model == "MultipletLineShape":
        table = make_table(container_kind(case), case["multiplet"])
        obj = M.MultipletLineShape(line, lam0, species, plasma, ad, table)
        if mutate_args:
            scramble_table(table)
    elif model == "ZeemanTriplet":
        obj = M.ZeemanTriplet(line, lam0, species, plasma, ad, polarisation)
    elif model == "ParametrisedZeemanTriplet":
        obj = M.ParametrisedZeemanTriplet(line, lam0, species, plasma, ad, tuple(case["pzt"]), polarisation)
    elif model == "ZeemanMultiplet":
        def lst(cs):
            return [((lambda b, w=c["w"]: w[0] + w[1] * b + w[2] * b * b), (lambda b, r=c["r"]: max(0.0, r[0] + r[1] * b)))
                    for c in cs]
        zs = case["zs"]
        owned = [lst(zs["pi"]), lst(zs["sigma_plus"]), lst(zs["sigma_minus"])]
        obj = M.ZeemanMultiplet(line, lam0, species, plasma, ad, ZeemanStructure(*owned), polarisation)
        if mutate_args:
            scramble_lists(owned)
    elif model == "StarkBroadenedLine":
        if integrator is not None:
            obj = M.StarkBroadenedLine(line, lam0, species, plasma, ad, tuple(case["stark"]), integrator, polarisation)
        else:
            obj = M.StarkBroadenedLine(line, lam0, species, plasma, ad, tuple(case["stark"]), polarisation=polarisation)
    else:
        raise ValueError("unknown model %r" % model)
    rad = case["radiance"]
    return (lambda s: obj.add_line(rad, point, direction, s)), el.atomic_weight, beam_weight


class LiveModel:
    """ONE line-shape object kept alive over a call sequence.  The plasma profiles are Python callables reading the
    current state from a holder (state x (1 + g.p), the same expression the fresh objects use), so a step can change the
    plasma state either by mutating the holder ("holder") or by assigning new profile objects to the plasma through its
    public setters ("assign"); polarisation is changed through the public property, beam parameters through the setters."""

    def __init__(self, case, pol):
        from raysect.core import Vector3D
        from cherab.core import Plasma, Species, Maxwellian, Line, AtomicData, Beam
        from cherab.core.atomic import elements, ZeemanStructure
        from cherab.core import model as M
        self.V = Vector3D
        self.Maxwellian = Maxwellian
        h = self.h = dict(ts=case["ts"], vel=list(case["vel"]), ne=case["ne"], te=case["te"], b=list(case["b"]))
        g = case["grad"]
        self.g = g

        def scal(key):
            return lambda x, y, z: h[key] * (1.0 + g[0] * x + g[1] * y + g[2] * z)

        def vec(key):
            def f(x, y, z):
                sc = 1.0 + g[0] * x + g[1] * y + g[2] * z
                v = h[key]
                return Vector3D(v[0] * sc, v[1] * sc, v[2] * sc)
            return f
        self.scal, self.vec = scal, vec
        el = getattr(elements, case["element"])
        self.aw = el.atomic_weight
        self.bw = None
        plasma = self.plasma = Plasma()
        plasma.b_field = vec("b")
        plasma.electron_distribution = Maxwellian(scal("ne"), scal("te"), _vprofile3d([0.0, 0.0, 0.0], case), 9.1093837015e-31)
        species = Species(el, 0, Maxwellian(_profile3d(1e18, case), scal("ts"), vec("vel"), el.atomic_weight * R.ATOMIC_MASS))
        plasma.composition.add(species)
        line = Line(el, 0, (3, 2))
        ad = AtomicData()
        lam0 = case["lam0"]
        model = self.model = case["model"]
        self.pol = pol
        self.beam = None
        self.owned = None
        if model == "BeamEmissionMultiplet":
            m = case["mse"]
            bel = getattr(elements, m["element"])
            self.bw = bel.atomic_weight
            beam = self.beam = Beam()
            beam.plasma = plasma
            beam.energy = m["energy"]
            beam.temperature = m["temperature"]
            beam.element = bel

            def f2(spec):
                if spec[1] == 0.0 and spec[2] == 0.0:
                    return spec[0]
                return lambda ne, e: spec[0] * (ne / 1e19) ** spec[1] * (e / 5e4) ** spec[2]

            def f1(spec):
                if spec[1] == 0.0 and spec[2] == 0.0:
                    return spec[0]
                return lambda ne: spec[0] * (ne / 1e19) ** spec[1] * (5e4 / 5e4) ** spec[2]
            self.obj = M.BeamEmissionMultiplet(line, lam0, beam, ad, f2(m["sigma_to_pi"]), f1(m["s1_to_s0"]),
                                               f1(m["pi2_to_pi3"]), f1(m["pi4_to_pi3"]))
        elif model == "GaussianLine":
            self.obj = M.GaussianLine(line, lam0, species, plasma, ad)
        elif model == "MultipletLineShape":
            self.owned = make_table(container_kind(case), case["multiplet"])
            self.obj = M.MultipletLineShape(line, lam0, species, plasma, ad, self.owned)
        elif model == "ZeemanTriplet":
            self.obj = M.ZeemanTriplet(line, lam0, species, plasma, ad, pol)
        elif model == "ParametrisedZeemanTriplet":
            self.obj = M.ParametrisedZeemanTriplet(line, lam0, species, plasma, ad, tuple(case["pzt"]), pol)
        elif model == "ZeemanMultiplet":
            def lst(cs):
                return [((lambda b, w=c["w"]: w[0] + w[1] * b + w[2] * b * b), (lambda b, r=c["r"]: max(0.0, r[0] + r[1] * b)))
                        for c in cs]
            zs = case["zs"]
            self.owned = [lst(zs["pi"]), lst(zs["sigma_plus"]), lst(zs["sigma_minus"])]
            self.obj = M.ZeemanMultiplet(line, lam0, species, plasma, ad, ZeemanStructure(*self.owned), pol)
        elif model == "StarkBroadenedLine":
            # a caller-owned integrator with the default settings (the fresh objects use the default argument)
            from cherab.core.math.integrators import GaussianQuadrature
            self.owned = GaussianQuadrature()
            self.obj = M.StarkBroadenedLine(line, lam0, species, plasma, ad, tuple(case["stark"]), self.owned, pol)
        else:
            raise ValueError("unknown model %r" % model)

    def caller_touches_arguments(self, count):
        """Between two add_line calls the caller modifies / uses the containers and helper objects it owns."""
        if self.model == "MultipletLineShape":
            scramble_table(self.owned)
        elif self.model == "ZeemanMultiplet":
            scramble_lists(self.owned)
        elif self.model == "StarkBroadenedLine":
            self.owned.integrand = _test_function(count % N_TEST_FUNCTIONS)
            self.owned(-0.5 - count, 1.5)

    def apply(self, eff, pol, how):
        h = self.h
        h["ts"], h["vel"] = eff["ts"], list(eff["vel"])       # the Species object is immutable: holder only
        if how == "assign":
            # new profile objects through the public plasma setters
            if h["b"] != list(eff["b"]):
                h["b"] = list(eff["b"])
                self.plasma.b_field = self.vec("b")
            if h["ne"] != eff["ne"] or h["te"] != eff["te"]:
                h["ne"], h["te"] = eff["ne"], eff["te"]
                self.plasma.electron_distribution = self.Maxwellian(self.scal("ne"), self.scal("te"),
                                                                    _vprofile3d([0.0, 0.0, 0.0], dict(grad=self.g)),
                                                                    9.1093837015e-31)
        else:
            h["b"], h["ne"], h["te"] = list(eff["b"]), eff["ne"], eff["te"]
        if self.beam is not None:
            m = eff["mse"]
            if self.beam.energy != m["energy"]:
                self.beam.energy = m["energy"]
            if self.beam.temperature != m["temperature"]:
                self.beam.temperature = m["temperature"]
        if pol != self.pol:
            self.obj.polarisation = pol
            self.pol = pol

    def call(self, eff, spectrum):
        from raysect.core import Point3D
        point = Point3D(*eff["point"])
        direction = self.V(*eff["dir"])
        if self.beam is not None:
            m = eff["mse"]
            return self.obj.add_line(eff["radiance"], Point3D(*m["beam_point"]), point, self.V(*m["beam_dir"]), direction, spectrum)
        return self.obj.add_line(eff["radiance"], point, direction, spectrum)


def run_sequence(case, ctx):
    """Call sequence on one object: every step's spectrum = the spectrum of a FRESH object built with the step's settings
    (same arithmetic, so equality to rounding), and satisfies the closed-form oracle."""
    from raysect.optical import Spectrum
    model = case["model"]
    steps = case["sequence"]
    eff = {k: v for k, v in case.items() if k != "sequence"}
    ctx.cls("sequence:" + model)
    live = LiveModel(eff, steps[0]["pol"])
    for i, step in enumerate(steps):
        eff.update(step["set"])
        pol = step["pol"]
        live.apply(eff, pol, step["how"])
        if any(c.startswith("caller-touches-") for c in step["changes"]):
            live.caller_touches_arguments(i)
        win = eff["window"]
        s = live.call(eff, Spectrum(win["min"], win["max"], win["bins"]))
        got = np.array(s.samples, dtype=float)
        delta = s.delta_wavelength
        call, aw, bw = build(eff, pol)
        fresh = np.array(call(Spectrum(win["min"], win["max"], win["bins"])).samples, dtype=float)
        what = "+".join(step["changes"]) if step["changes"] else ("first-call" if i == 0 else "nothing")
        if model == "MultipletLineShape" and "caller-touches-multiplet" in step["changes"]:
            what += "(%s)" % container_kind(eff)
        ctx.mon("seq_steps")
        ok = ctx.close(got, fresh, "sequence:%s:differs-from-fresh-object:after-%s" % (model, what),
                       "a line-shape object used for several calls gives a different spectrum than a fresh object "
                       "constructed with the same settings", rtol=1e-13, atol=1e-14 * float(np.max(np.abs(fresh))) + 1e-300,
                       monitor="seq_bins", step=i, changes=step["changes"], how=step["how"], polarisation=pol,
                       previous_polarisation=steps[i - 1]["pol"] if i else None)
        if ok and i > 0 and np.any(fresh != 0.0):
            ctx.nontrivial()
        _run_plain(eff, ctx, live=dict(pol=pol, samples=got, delta=delta, aw=aw, bw=bw))


# ------------------------------------------------------------------------------------------------------------------
# judging
# ------------------------------------------------------------------------------------------------------------------

def _tolerances(comps, rad, delta, lam0):
    """Per-bin and total tolerance of the Gaussian parts + bookkeeping for the Lorentzian parts."""
    tol_bin = 0.0
    tol_tot = 0.0
    wsum = 0.0
    for kind, centre, width, weight, split in comps:
        w = abs(weight)
        wsum += w
        sig = width if kind == "G" else width / R.SIGMA2FWHM
        dc = PHYS * split + 32 * EPS * lam0
        rel = 3 * PHYS + dc / sig
        # 64 eps: absolute rounding of the angular weights (sin^2 = 1 - cos^2 is exact only to ~eps)
        tol_bin += rad * min(0.4 / sig, 1.0 / delta) * (w * rel + 64 * EPS)
        tol_tot += rad * (w * (3 * PHYS + min(1.0, 0.8 * dc / sig)) + 64 * EPS)
    tol_bin += 1e-13 * wsum * rad / delta
    tol_tot += 1e-11 * wsum * rad
    return tol_bin, tol_tot


def _index_overflow(comps, lo, delta):
    """Name of the adder whose bin-range arithmetic leaves the C int range for this window, or ''."""
    out = ""
    for kind, centre, width, weight, split in comps:
        cut = (R.LORENTZIAN_CUTOFF if kind == "L" else R.GAUSSIAN_CUTOFF) * width
        if max(abs(centre + cut - lo), abs(centre - cut - lo)) / delta >= INT_REACH:
            if kind == "L":
                return "add_lorentzian_line"
            out = "add_gaussian_line"
    return out


def _band_check(ctx, got, lower, upper, tol, key, what, monitor, **detail):
    """lower - tol <= got <= upper + tol, elementwise; margin = excursion / tol."""
    got = np.atleast_1d(np.asarray(got, dtype=float))
    lower = np.atleast_1d(np.asarray(lower, dtype=float))
    upper = np.atleast_1d(np.asarray(upper, dtype=float))
    tol = np.broadcast_to(np.asarray(tol, dtype=float), got.shape)
    ctx.mon(monitor, int(got.size))
    exc = np.maximum(lower - got, got - upper)
    exc = np.where(np.isfinite(got), np.maximum(exc, 0.0), np.inf)
    with np.errstate(divide="ignore", invalid="ignore"):
        ratio = np.where(exc == 0, 0.0, exc / np.where(tol > 0, tol, np.nan))
    ratio = np.where(np.isnan(ratio), np.inf, ratio)
    fin = ratio[np.isfinite(ratio)]
    if fin.size:
        ctx.margin(monitor, float(fin.max()))
    bad = ratio > 1.0
    if bad.any():
        i = int(np.argmax(ratio))
        ctx.viol(key, what, index=i, got=float(got[i]), lower=float(lower[i]), upper=float(upper[i]), tol=float(tol[i]),
                 n_bad=int(bad.sum()), n=int(got.size), **detail)
        return False
    return True


def run_case(case, ctx):
    if case.get("sequence"):
        return run_sequence(case, ctx)
    return _run_plain(case, ctx)


def _run_plain(case, ctx, live=None):
    """Judge one configuration.  live=None: fresh objects, all polarisation modes, all monitors.  live=dict(pol, samples,
    delta, aw, bw): judge the spectrum a long-lived object produced for this configuration with the closed-form oracle."""
    from raysect.optical import Spectrum

    model = case["model"]
    win = case["window"]
    rad = case["radiance"]
    lam0 = case["lam0"]
    if live is None:
        ctx.cls(model)
        ctx.cls("window:" + win["cls"])
    family = model in ZEEMAN_FAMILY
    pols = ["pi", "sigma", "no"] if family else ["no"]

    integ = check_integrator(case, ctx) if case.get("integrator") else None
    got = {}
    aw = bw = None
    delta = None
    if live is not None:
        pols = [live["pol"]]
        got[live["pol"]] = live["samples"]
        aw, bw, delta = live["aw"], live["bw"], live["delta"]
    else:
        for pol in pols:
            call, aw, bw = build(case, pol, integ)
            s = Spectrum(win["min"], win["max"], win["bins"])
            s = call(s)
            got[pol] = np.array(s.samples, dtype=float)
            delta = s.delta_wavelength

    ref = components(case, aw, bw)
    info = ref["info"]
    b0 = all(c == 0.0 for c in case["b"])
    tag = ":B=0" if (b0 and family) else ""

    # ---- zero-width clause --------------------------------------------------------------------------------------
    if ref["zero_width"] and live is not None:
        p = live["pol"]
        if ctx.check(not np.any(got[p] != 0.0), "%s:zero-width-adds:%s" % (model, p),
                     "a width-less line added non-zero samples to an empty spectrum", monitor="zero_width",
                     max_added=float(np.max(np.abs(got[p])))) and rad > 0:
            ctx.nontrivial()
        return
    if ref["zero_width"]:
        ctx.cls("zero-width")
        rs = np.random.default_rng(case["prefill_seed"])
        base = rs.uniform(0, 1, size=win["bins"]) * (rad if rad > 0 else 1.0)
        base[rs.random(win["bins"]) < 0.2] = 0.0
        for pol in pols:
            ok = ctx.check(not np.any(got[pol] != 0.0), "%s:zero-width-adds:%s" % (model, pol),
                           "a width-less line added non-zero samples to an empty spectrum", monitor="zero_width",
                           max_added=float(np.max(np.abs(got[pol]))))
            call, _, _ = build(case, pol, integ)
            s = Spectrum(win["min"], win["max"], win["bins"])
            s.samples[:] = base
            s = call(s)
            ctx.check(np.array_equal(np.asarray(s.samples), base), "%s:zero-width-adds:%s" % (model, pol),
                      "a width-less line changed a pre-filled spectrum", monitor="zero_width",
                      max_change=float(np.max(np.abs(np.asarray(s.samples) - base))))
            if ok and rad > 0:
                ctx.nontrivial()
        return
    if ref["skip"]:
        ctx.skip(ref["skip"])
        if ref["skip"].startswith("mse"):
            return

    # ---- reference profiles per polarisation part ------------------------------------------------------------------
    prof = {}
    for part, comps in ref["parts"].items():
        prof[part] = R.bin_profile([k[:4] for k in comps], win["min"], win["max"], win["bins"])
    if family:
        comps_no = ref["parts"]["pi"] + ref["parts"]["sigma"]
        if b0:
            # unsplit line: the two polarised halves are the same component; keep one entry with the full weight
            comps_no = [(k[0], k[1], k[2], 2.0 * k[3], k[4]) for k in ref["parts"]["pi"]]
        prof["no"] = {k: (prof["pi"][k] + prof["sigma"][k]) for k in
                      ("gauss", "lor_trunc", "lor_full", "frac_gauss", "frac_lor_trunc", "frac_lor_full")}
        prof["no"]["delta"] = prof["pi"]["delta"]
        parts = dict(pi=ref["parts"]["pi"], sigma=ref["parts"]["sigma"], no=comps_no)
    else:
        parts = ref["parts"]

    if abs(prof["no"]["delta"] - delta) > 4 * EPS * abs(delta):
        raise AssertionError("harness: bin width of the oracle differs from Spectrum.delta_wavelength")
    if ref["complete"] and not ref["skip"]:
        wsum = sum(k[3] for k in parts["no"])
        if abs(wsum - 1.0) > 1e-9:
            raise AssertionError("harness: documented unpolarised weights sum to %r, not 1" % wsum)

    has_l = any(k[0] == "L" for k in parts["no"])
    skip_branch = bool(ref["skip"])
    fw = info.get("fwhm_full", 0.0)
    resolved = (not has_l) or (delta <= RESOLVED * fw)
    if has_l:
        ctx.cls("stark:resolved" if resolved else "stark:coarse")
        ctx.cls("stark:eta=1" if info["eta"] == 1.0 else ("stark:eta=0" if info["eta"] == 0.0 else "stark:pseudo-voigt"))
    elif model == "StarkBroadenedLine":
        ctx.cls("stark:eta=0")

    # ---- per-bin profile and window total ---------------------------------------------------------------------------
    if not skip_branch:
        ctx.mon("judged:" + model if live is None else "seq_judged:" + model)
        for pol in pols:
            P = prof[pol]
            comps = parts[pol]
            tol_bin, tol_tot = _tolerances(comps, rad, delta, lam0)
            g = rad * P["gauss"]
            lt = rad * P["lor_trunc"]
            lf = rad * P["lor_full"]
            frac = P["frac_gauss"] + P["frac_lor_full"]
            detail = dict(polarisation=pol, window=win["cls"], delta=delta, **{k: v for k, v in info.items()})
            ovf = _index_overflow(comps, win["min"], delta)
            if ovf:
                ctx.cls("bin-index-beyond-int32:" + ovf)
            if has_l:
                key = "%s:bin-profile:%s%s" % (model, pol, tag) if resolved else \
                    "%s:lorentzian-bin-quadrature-unresolved" % model
                what = ("samples differ from radiance x bin-average of the documented pseudo-Voigt profile "
                        "(band: Lorentzian truncated at +-50 FWHM ... un-truncated, 2e-4 relative)") if resolved else \
                    ("bin width exceeds FWHM/10 and the default GaussianQuadrature does not resolve the modified "
                     "Lorentzian: samples leave the [truncated, un-truncated] band by more than 2e-3")
                lor_rtol = LOR_RTOL if resolved else LOR_RTOL_COARSE
                mon_b, mon_t = ("bins_stark", "total") if resolved else ("bins_stark_coarse", "total_stark_coarse")
                keyt = "%s:window-total:%s%s" % (model, pol, tag) if resolved else key
                if integ is not None and resolved:
                    # user-supplied integrator: tolerance from its *final* settings.  On grids with >= 10 bins per FWHM
                    # the stopping rule |I_n - I_(n-1)| < rtol |I_n| leaves an error < 50 rtol (algebraic convergence in
                    # the bin holding the |x|^2.5 cusp), and a quadrature that runs into max_order without converging is
                    # still accurate to 9e-8 (order 4-5) / 5e-9 (order >= 6) there (measured at fixed order, 400 grids each)
                    fin = case["integrator"]["final"]
                    lor_rtol = 50.0 * fin["relative_tolerance"] + (1e-6 if fin["max_order"] < 6 else 1e-7)
                    key = "%s:user-integrator:bin-profile:%s%s" % (model, pol, tag)
                    keyt = "%s:user-integrator:window-total:%s%s" % (model, pol, tag)
                    what = ("with a user-supplied GaussianQuadrature (settings assigned after construction) the samples differ "
                            "from radiance x bin-average of the documented profile by more than the integrator's tolerance")
                    mon_b, mon_t = "bins_stark_user", "total_user"
                    detail = dict(detail, integrator_final=fin, lor_rtol=lor_rtol)
                if ovf:
                    mon_b, mon_t = "bins_index_overflow", "total_index_overflow"
                    key = keyt = "%s:bin-index-int32-overflow" % ovf
                    what = ("the line's cut-off lies more than 2^31 bins from the window start: the bin range computed in C ints "
                            "overflows and the samples differ from radiance x bin-average of the documented profile")
                tol = tol_bin + lor_rtol * lf + 1e-13 * rad / delta
                _band_check(ctx, got[pol], g + lt, g + lf, tol, key, what, mon_b, **detail)
                lo_t = rad * (P["frac_gauss"] + P["frac_lor_trunc"])
                hi_t = rad * (P["frac_gauss"] + P["frac_lor_full"])
                ttol = tol_tot + lor_rtol * rad * P["frac_lor_full"]
                _band_check(ctx, float(got[pol].sum() * delta), lo_t, hi_t, ttol, keyt,
                            "sum(samples) x delta differs from radiance x fraction of the profile inside the window",
                            mon_t, fraction=float(frac), **detail)
            else:
                ctx.close(got[pol], g, ("%s:bin-index-int32-overflow" % ovf) if ovf else "%s:bin-profile:%s%s" % (model, pol, tag),
                          "samples differ from radiance x bin-average of the documented profile" +
                          (" (the line's cut-off lies more than 2^31 bins from the window start)" if ovf else ""),
                          atol=tol_bin, monitor="bins_index_overflow" if ovf else "bins_gauss", **detail)
                ctx.close(float(got[pol].sum() * delta), rad * P["frac_gauss"],
                          ("%s:bin-index-int32-overflow" % ovf) if ovf else "%s:window-total:%s%s" % (model, pol, tag),
                          "sum(samples) x delta differs from radiance x fraction of the profile inside the window",
                          atol=tol_tot, monitor="total_index_overflow" if ovf else "total", fraction=float(frac), **detail)
            if rad > 0 and frac > 1e-9:
                ctx.nontrivial()
        if not ref["complete"]:
            ctx.skip("zeeman structure with an empty/all-zero polarisation list: total-radiance clause not judged")

    # ---- pi + sigma = unpolarised --------------------------------------------------------------------------------------
    if family and live is None:
        ctx.close(got["pi"] + got["sigma"], got["no"], "%s:pi+sigma!=unpolarised%s" % (model, tag),
                  "pi- and sigma-polarised spectra do not add up to the unpolarised spectrum", rtol=1e-12,
                  atol=1e-13 * float(np.max(np.abs(got["no"]))) + 1e-300, monitor="pol_sum")

    # ---- constructor arguments are copied: the caller modifying its own containers afterwards changes nothing -------------
    if live is None and model in ("MultipletLineShape", "ZeemanMultiplet"):
        pol = pols[-1]
        call, _, _ = build(case, pol, integ, mutate_args=True)
        s = call(Spectrum(win["min"], win["max"], win["bins"]))
        arg = OWNED_ARGUMENT[model] + ("(%s)" % container_kind(case) if model == "MultipletLineShape" else "")
        ctx.mon("arg_alias_cases")
        ctx.close(np.asarray(s.samples, dtype=float), got[pol], "constructor-aliases-caller-argument:%s:%s" % (model, arg),
                  "the caller modified the container it had handed to the constructor and the spectrum of the already "
                  "constructed object changed", rtol=1e-13, atol=1e-14 * float(np.max(np.abs(got[pol]))) + 1e-300,
                  monitor="arg_alias", total_before=float(got[pol].sum() * delta), total_after=float(np.sum(s.samples) * delta))

    # ---- the model *adds* to the spectrum --------------------------------------------------------------------------------
    if case["prefill"] and live is None:
        pol = pols[case["prefill_seed"] % len(pols)]
        rs = np.random.default_rng(case["prefill_seed"])
        scale = float(np.max(np.abs(got[pol]))) or (rad / delta)
        base = rs.uniform(0, 2, size=win["bins"]) * scale
        base[rs.random(win["bins"]) < 0.2] = 0.0
        call, _, _ = build(case, pol, integ)
        s = Spectrum(win["min"], win["max"], win["bins"])
        s.samples[:] = base
        s = call(s)
        after = np.asarray(s.samples, dtype=float)
        ctx.close(after - base, got[pol], "%s:not-additive" % model,
                  "increment on a pre-filled spectrum differs from what is added to an empty spectrum",
                  atol=64 * EPS * (scale + float(np.max(base))) + 1e-300, monitor="adds")


_SELF = {}


def worker_init(ctx):
    err = R.self_check()
    if not err < 1e-14:
        raise AssertionError("harness: Lorentzian primitive self-check failed (%g)" % err)
    _SELF["primitive_err"] = err
