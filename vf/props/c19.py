"""C19 — element / isotope registry is unambiguous and self-consistent (exhaustive at run time)."""
import itertools

ID = "C19"
LEVEL = "exploration"
EXHAUSTIVE = True
RULE = ("exhaustive enumeration of every Element/Isotope object in vars(cherab.core.atomic.elements): one case per "
        "species (all identifier spellings x 6 letter cases, independent periodic table), one case per species row "
        "of the all-pairs eq/ne/hash law table (incl. reconstructed equal copies), plus random Line triples; a case "
        "is non-trivial when at least one lookup/law was evaluated on a real registry object")
ASSUMPTIONS = ["periodic table symbol->Z below is the independent reference",
               "species are the module-level objects of cherab.core.atomic.elements (what the package defines)"]
TECHNIQUE = ("runtime monitoring: exhaustive run-time enumeration of the live registry against an independent periodic "
             "table, lookup round trips in every spelling, eq/ne/hash law monitor over all ordered pairs")
LEVEL_TEXT = ("Exhaustive exploration at run time: every Element/Isotope object the package defines is enumerated and driven "
              "through every identifier spelling and every pair-wise equality/hash law; finite space, enumerated completely")
LEVEL_NOTE = "trusted: the symbol->Z table in this module; species = module-level objects of cherab.core.atomic.elements"
QUICK = dict(cases=300, workers=1, timecap=60)
THOROUGH = dict(cases=20000, workers=4, timecap=300)
REQUIRED = {"elements": 80, "isotopes": 250, "lookup": 3000, "pair_law": 100000, "line_law": 100, "foreign_copy_law": 1000}

_PT = ("H He Li Be B C N O F Ne Na Mg Al Si P S Cl Ar K Ca Sc Ti V Cr Mn Fe Co Ni Cu Zn Ga Ge As Se Br Kr Rb Sr Y Zr "
       "Nb Mo Tc Ru Rh Pd Ag Cd In Sn Sb Te I Xe Cs Ba La Ce Pr Nd Pm Sm Eu Gd Tb Dy Ho Er Tm Yb Lu Hf Ta W Re Os Ir "
       "Pt Au Hg Tl Pb Bi Po At Rn Fr Ra Ac Th Pa U Np Pu Am Cm Bk Cf Es Fm Md No Lr Rf Db Sg Bh Hs Mt Ds Rg Cn Nh Fl "
       "Mc Lv Ts Og").split()
SYMBOL_Z = {s: i + 1 for i, s in enumerate(_PT)}

_S = {}


def _variants(s):
    out = {s, s.lower(), s.upper(), s.title(), s.swapcase(), s.capitalize()}
    return sorted(out)


def worker_init(ctx):
    import cherab.core.atomic.elements as em
    from cherab.core.atomic import Element, Isotope
    import cherab.core.atomic as atomic
    elements, isotopes = {}, {}
    for name, obj in vars(em).items():
        if type(obj) is Element:
            elements[name] = obj
        elif type(obj) is Isotope:
            isotopes[name] = obj
    _S.update(elements=elements, isotopes=isotopes, em=em, Element=Element, Isotope=Isotope, atomic=atomic)
    _S["species"] = sorted(list(elements.items()) + list(isotopes.items()), key=lambda kv: kv[0])
    # equal-but-not-identical copies
    copies = {}
    for n, e in elements.items():
        copies[n] = Element(e.name, e.symbol, e.atomic_number, e.atomic_weight)
    for n, i in isotopes.items():
        copies[n] = Isotope(i.name, i.symbol, i.element, i.mass_number, i.atomic_weight)
    _S["copies"] = copies


def fixed_cases(tier):
    # enumeration has to happen here as well (parent of the cases); import is cheap
    import cherab.core.atomic.elements as em
    from cherab.core.atomic import Element, Isotope
    names = sorted(n for n, o in vars(em).items() if type(o) in (Element, Isotope))
    cases = [{"kind": "registry"}]
    cases += [{"kind": "species", "var": n} for n in names]
    cases += [{"kind": "pairs", "var": n} for n in names]
    # copies made by ANOTHER interpreter process (different str-hash salt), by pickle / deepcopy in this one
    cases += [{"kind": "foreign_copies", "how": "other-process-pickle", "hashseed": 4242},
              {"kind": "foreign_copies", "how": "other-process-pickle", "hashseed": 7},
              {"kind": "foreign_copies", "how": "pickle"}, {"kind": "foreign_copies", "how": "deepcopy"}]
    return cases


def gen_case(rng, tier):
    import cherab.core.atomic.elements as em
    from cherab.core.atomic import Element, Isotope
    names = sorted(n for n, o in vars(em).items() if type(o) in (Element, Isotope))
    pick = lambda: names[int(rng.integers(len(names)))]
    trans = [(3, 2), (2, 1), ("3", "2"), ("2s1 3p1 3P4.0", "2s1 3s1 3S1.0"), ("2S1 3P1 3P4.0", "2s1 3s1 3S1.0"),
             (4, 2), (3, 2.0), ("n=3", "n=2")]
    a, b = pick(), pick()
    if rng.random() < 0.3:
        b = a
    return {"kind": "lines", "a": a, "b": b, "ca": int(rng.integers(0, 3)), "cb": int(rng.integers(0, 3)),
            "ta": int(rng.integers(len(trans))), "tb": int(rng.integers(len(trans)))}


_TRANS = [(3, 2), (2, 1), ("3", "2"), ("2s1 3p1 3P4.0", "2s1 3s1 3S1.0"), ("2S1 3P1 3P4.0", "2s1 3s1 3S1.0"),
          (4, 2), (3, 2.0), ("n=3", "n=2")]


def _lookup_is(ctx, fn, args, kwargs, obj, what):
    ctx.mon("lookup")
    try:
        got = fn(*args, **kwargs)
    except Exception as e:  # noqa
        ctx.viol("lookup-fails:%s" % what, "lookup %s%r %r raised %s: %s" % (fn.__name__, args, kwargs, type(e).__name__, e),
                 species=repr(obj))
        return
    if got is not obj:
        ctx.viol("lookup-wrong-object:%s" % what, "lookup %s%r %r returned %r, expected the identical object %r" % (
            fn.__name__, args, kwargs, got, obj))


def run_case(case, ctx):
    from cherab.core.atomic import lookup_element, lookup_isotope, Line
    Element, Isotope = _S["Element"], _S["Isotope"]
    elements, isotopes = _S["elements"], _S["isotopes"]
    kind = case["kind"]
    if kind == "registry":
        ctx.cls("registry")
        ctx.mon("elements", len(elements))
        ctx.mon("isotopes", len(isotopes))
        ctx.nontrivial(len(elements) > 0)
        allsp = list(elements.values()) + list(isotopes.values())
        # uniqueness of names across all species, of symbols within elements and within isotopes
        for label, objs, attr in (("name", allsp, "name"), ("element-symbol", list(elements.values()), "symbol"),
                                  ("isotope-symbol", list(isotopes.values()), "symbol")):
            seen = {}
            for o in objs:
                k = getattr(o, attr)
                ctx.mon("uniqueness")
                if k in seen and seen[k] is not o:
                    ctx.viol("duplicate-%s" % label, "two species share the %s %r: %r and %r" % (label, k, seen[k], o))
                seen.setdefault(k, o)
            # case-insensitive lookups must stay unambiguous as well
            seen = {}
            for o in objs:
                k = getattr(o, attr).lower()
                if k in seen and seen[k] is not o:
                    ctx.viol("duplicate-%s-caseless" % label, "two species share the lower-cased %s %r" % (label, k))
                seen.setdefault(k, o)
        # same object must not be bound to the registry under two different identities with differing data
        # every species exported by cherab.core.atomic is one of the defined ones
        for n, o in vars(_S["atomic"]).items():
            if type(o) in (Element, Isotope):
                ctx.mon("exported")
                if not any(o is s for s in allsp):
                    ctx.viol("exported-not-defined", "cherab.core.atomic.%s is a species not defined in elements" % n)
        # every defined species is exported through `from .elements import *`
        for n, o in list(elements.items()) + list(isotopes.items()):
            if n.startswith("_"):
                continue
            ctx.mon("exported")
            if getattr(_S["atomic"], n, None) is not o:
                ctx.viol("defined-not-exported", "elements.%s is not exported by cherab.core.atomic" % n)
        return
    if kind == "species":
        var = case["var"]
        obj = elements.get(var) or isotopes.get(var)
        if obj is None:
            ctx.viol("species-vanished", "species variable %s disappeared between enumeration and check" % var)
            return
        ctx.nontrivial()
        if type(obj) is Element:
            ctx.cls("element")
            e = obj
            for v in _variants(e.name):
                _lookup_is(ctx, lookup_element, (v,), {}, e, "element-by-name")
            for v in _variants(e.symbol):
                _lookup_is(ctx, lookup_element, (v,), {}, e, "element-by-symbol")
            _lookup_is(ctx, lookup_element, (e.atomic_number,), {}, e, "element-by-number")
            _lookup_is(ctx, lookup_element, (str(e.atomic_number),), {}, e, "element-by-number")
            _lookup_is(ctx, lookup_element, (e,), {}, e, "element-by-object")
            ctx.check(SYMBOL_Z.get(e.symbol) == e.atomic_number, "atomic-number:periodic-table",
                      "element %s (%s) has atomic number %s, periodic table says %s" % (
                          e.name, e.symbol, e.atomic_number, SYMBOL_Z.get(e.symbol)), monitor="periodic_table")
        else:
            ctx.cls("isotope")
            i = obj
            el = i.element
            for v in _variants(i.name):
                _lookup_is(ctx, lookup_isotope, (v,), {}, i, "isotope-by-name")
            for v in _variants(i.symbol):
                _lookup_is(ctx, lookup_isotope, (v,), {}, i, "isotope-by-symbol")
            A = i.mass_number
            for v in _variants(el.symbol) + _variants(el.name) + [el, el.atomic_number, str(el.atomic_number)]:
                _lookup_is(ctx, lookup_isotope, (v,), {"number": A}, i, "isotope-by-element+number")
            for v in _variants(el.symbol + str(A)) + _variants(el.name + str(A)):
                _lookup_is(ctx, lookup_isotope, (v,), {}, i, "isotope-by-element+number-string")
            _lookup_is(ctx, lookup_isotope, (i,), {}, i, "isotope-by-object")
            ctx.check(any(el is e for e in elements.values()), "isotope-element-undefined",
                      "isotope %s refers to an element object that is not a defined element" % i.name, monitor="isotope_laws")
            ctx.check(i.atomic_number == el.atomic_number, "isotope-atomic-number",
                      "isotope %s Z=%s but its element %s has Z=%s" % (i.name, i.atomic_number, el.name, el.atomic_number),
                      monitor="isotope_laws")
            ctx.check(SYMBOL_Z.get(el.symbol) == i.atomic_number, "atomic-number:periodic-table",
                      "isotope %s has atomic number %s, periodic table says %s for %s" % (
                          i.name, i.atomic_number, SYMBOL_Z.get(el.symbol), el.symbol), monitor="periodic_table")
            # independent reading of the isotope's OWN identifiers: the letters of its symbol (H/D/T for the hydrogen
            # isotopes) name a periodic-table element, whose number must be the isotope's and whose symbol its element's
            letters = "".join(ch for ch in i.symbol if ch.isalpha())
            digits = "".join(ch for ch in i.symbol if ch.isdigit())
            zsym = {"D": 1, "T": 1}.get(letters, SYMBOL_Z.get(letters))
            ctx.check(zsym == i.atomic_number, "isotope-symbol:periodic-table",
                      "isotope %s has symbol %s (periodic table: Z=%s) but atomic number %s / element %s" % (
                          i.name, i.symbol, zsym, i.atomic_number, el.name), monitor="periodic_table")
            if digits:
                ctx.check(int(digits) == i.mass_number, "isotope-symbol:mass-number",
                          "isotope %s has symbol %s but mass number %s" % (i.name, i.symbol, i.mass_number), monitor="isotope_laws")
            nletters = "".join(ch for ch in i.name if not ch.isdigit())
            if nletters not in ("protium", "deuterium", "tritium"):
                ctx.check(nletters == el.name, "isotope-name:element-name",
                          "isotope %s is attached to element %s" % (i.name, el.name), monitor="isotope_laws")
            ctx.check(i.mass_number >= i.atomic_number, "isotope-mass-number",
                      "isotope %s has mass number %s < Z=%s" % (i.name, i.mass_number, i.atomic_number), monitor="isotope_laws")
            ctx.check(abs(i.atomic_weight - i.mass_number) <= 0.1, "isotope-weight",
                      "isotope %s weight %r differs from mass number %s by more than 0.1 u" % (i.name, i.atomic_weight, i.mass_number),
                      monitor="isotope_laws")
        return
    if kind == "foreign_copies":
        import pickle, copy as _copy, subprocess, sys, os, tempfile
        ctx.cls("foreign-copies:" + case["how"])
        names = [n for n, _ in _S["species"]]
        objs = [o for _, o in _S["species"]]
        lines = [Line(o, 0, (3, 2)) for o in objs[::7]] + [Line(o, min(1, o.atomic_number), ("3d", "2p")) for o in objs[3::11]]
        if case["how"] == "other-process-pickle":
            here = os.path.dirname(os.path.dirname(os.path.dirname(os.path.abspath(__file__))))
            fd, path = tempfile.mkstemp(suffix=".pkl", dir=ctx.home if getattr(ctx, "home", None) else None)
            os.close(fd)
            code = ("import sys, pickle; sys.path.insert(0, %r)\n"
                    "import vf.core as c; c.redirect_repo()\n"
                    "import cherab.core.atomic.elements as em\n"
                    "from cherab.core.atomic import Line\n"
                    "names = %r\n"
                    "objs = [getattr(em, n) for n in names]\n"
                    "lines = [Line(o, 0, (3, 2)) for o in objs[::7]] + [Line(o, min(1, o.atomic_number), ('3d', '2p')) for o in objs[3::11]]\n"
                    "pickle.dump((objs, lines), open(%r, 'wb'))\n") % (here, names, path)
            env = dict(os.environ, PYTHONHASHSEED=str(case["hashseed"]))
            r = subprocess.run([sys.executable, "-c", code], env=env, capture_output=True, text=True, timeout=600)
            if r.returncode != 0:
                ctx.viol("foreign-copies:other-process-cannot-pickle", "another interpreter could not pickle the registry species / lines",
                         stderr=r.stderr[-1500:])
                os.unlink(path)
                return
            with open(path, "rb") as f:
                cobjs, clines = pickle.load(f)
            os.unlink(path)
        elif case["how"] == "pickle":
            cobjs, clines = pickle.loads(pickle.dumps((objs, lines)))
        else:
            cobjs, clines = _copy.deepcopy((objs, lines))
        ctx.nontrivial()
        sset, sdict = set(objs), {o: k for k, o in enumerate(objs)}
        lset = set(lines)
        for label, orig, cop, aset, adict in (("species", objs, cobjs, sset, sdict), ("line", lines, clines, lset, None)):
            for k, (a, b) in enumerate(zip(orig, cop)):
                ctx.mon("foreign_copy_law", 3)
                if not (a == b and b == a and not (a != b)):
                    ctx.viol("foreign-copy:%s:not-equal:%s" % (label, case["how"]), "a copy of %r made by %s does not compare equal to the original" % (a, case["how"]))
                    continue
                ctx.check(hash(a) == hash(b), "foreign-copy:%s:equal-but-hash-differs:%s" % (label, case["how"]),
                          "copy of %r made by %s compares equal but hashes differently" % (a, case["how"]), monitor="foreign_copy_law")
                ctx.check(b in aset and (adict is None or adict.get(b) == k), "foreign-copy:%s:not-found-as-dict-key:%s" % (label, case["how"]),
                          "copy of %r made by %s is not found in a set / dict keyed by the originals" % (a, case["how"]), monitor="foreign_copy_law")
        return
    if kind == "pairs":
        var = case["var"]
        a = elements.get(var) or isotopes.get(var)
        if a is None:
            ctx.viol("species-vanished", "species variable %s disappeared" % var)
            return
        ctx.cls("pairs-row")
        ctx.nontrivial()
        ca = _S["copies"][var]
        # reconstructed copy: equal, hashes equally, works as dict key
        ctx.mon("pair_law", 4)
        if not (a == ca) or (a != ca):
            ctx.viol("copy-not-equal", "a species rebuilt from %r's own attributes does not compare equal to it" % a)
        elif hash(a) != hash(ca):
            ctx.viol("eq-hash-disagree", "%r == its rebuilt copy but the hashes differ" % a)
        if {a: 1}.get(ca) != 1 and (a == ca):
            ctx.viol("dict-key", "%r's equal copy does not find it as a dictionary key" % a)
        d = {}
        for n, b in _S["species"]:
            d[b] = n
        ctx.mon("pair_law")
        if len(d) != len(_S["species"]):
            ctx.viol("dict-key-collision", "%d species collapse to %d dictionary keys" % (len(_S["species"]), len(d)))
        for n, b in _S["species"]:
            ctx.mon("pair_law", 3)
            eq = (a == b)
            ne = (a != b)
            if eq is NotImplemented or ne is NotImplemented or not isinstance(eq, bool) or not isinstance(ne, bool):
                ctx.viol("eq-not-bool", "%r ==/!= %r did not return a bool" % (a, b))
                continue
            if eq == ne:
                ctx.viol("eq-ne-inconsistent", "%r == %r is %s but != is %s" % (a, b, eq, ne))
            if (a is b) != eq:
                ctx.viol("distinct-species-equal" if eq else "same-species-unequal",
                         "%r and %r: identical=%s but == gives %s" % (a, b, a is b, eq))
            if eq and hash(a) != hash(b):
                ctx.viol("eq-hash-disagree", "%r == %r but hashes differ" % (a, b))
            if (b == a) != eq:
                ctx.viol("eq-asymmetric", "%r == %r is %s but the reverse is %s" % (a, b, eq, b == a))
            # equal copy of b against a
            cb = _S["copies"][n]
            if (a == cb) != (a is b):
                ctx.viol("distinct-species-equal" if (a == cb) else "same-species-unequal",
                         "%r vs rebuilt copy of %r: == gives %s" % (a, b, a == cb))
        return
    if kind == "lines":
        ctx.cls("lines")
        sa = elements.get(case["a"]) or isotopes.get(case["a"])
        sb = elements.get(case["b"]) or isotopes.get(case["b"])
        if sa is None or sb is None:
            ctx.viol("species-vanished", "species variable disappeared")
            return
        ca = min(case["ca"], sa.atomic_number - 1)
        cb = min(case["cb"], sb.atomic_number - 1)
        ta, tb = _TRANS[case["ta"]], _TRANS[case["tb"]]
        la, lb = Line(sa, ca, ta), Line(sb, cb, tb)
        la2 = Line(_S["copies"][case["a"]], ca, tuple(ta))
        want = (sa is sb) and ca == cb and ta == tb
        ctx.nontrivial()
        ctx.mon("line_law", 5)
        if (la == lb) != want or (la != lb) == want:
            ctx.viol("line-eq-wrong", "Line equality %r vs %r gives ==%s !=%s, components equal=%s" % (
                la, lb, la == lb, la != lb, want))
        if (la == lb) and hash(la) != hash(lb):
            ctx.viol("line-eq-hash-disagree", "%r == %r but hashes differ" % (la, lb))
        if not (la == la2) or hash(la) != hash(la2):
            ctx.viol("line-eq-hash-disagree", "a Line rebuilt from equal components is unequal or hashes differently: %r" % la)
        if {la: 1}.get(la2) != 1:
            ctx.viol("line-dict-key", "an equal Line does not find the dictionary entry of %r" % la)
        d = {la: "a"}
        d[lb] = "b"
        if (len(d) == 1) != want:
            ctx.viol("line-dict-key", "Lines %r and %r as dict keys give %d entries, expected %d" % (la, lb, len(d), 1 if want else 2))
        return
    raise ValueError("unknown case kind %r" % kind)
