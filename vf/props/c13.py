"""C13 — function wrappers and samplers are exact pointwise compositions everywhere.

Monitor shape: ARGUMENT RECORDER.  Every wrapper class of cherab.core.math.{mappers, clamp, slice, mask},
transform.{periodic, cylindrical} and all 14 functions of samplers is constructed around a recording Python
callable (class Rec below).  The real wrapper is called through its public __call__; the recorder stores every
argument tuple it receives and the value it returned.  The oracle (exact rational arithmetic / libm, no cherab
code) then judges
  * the arguments received by the wrapped callable  vs. the mathematically mapped arguments
    (pass-through arguments: bit-equal value; r = hypot, phi = atan2: 16 ulp),
  * the value returned by the wrapper  vs. the recorded return value of the callable (bit-equal; clamped for
    ClampOutput; rotated by the toroidal angle for the vector axisymmetric / cylindrical wrappers),
  * periodic inner arguments: 0 <= arg < period EXACTLY, and arg congruent to x modulo the period (exact Fractions),
  * PolygonMask2D vs. an exact integer crossing-number point-in-polygon test on certified-simple polygons,
  * samplers: returned grids vs. the inclusive evenly spaced grid, every entry [i,j,k] vs. f(x_i, y_j, z_k).
"""
import math
from fractions import Fraction

import numpy as np

ID = "C13"
LEVEL = "exploration"
RULE = ("one case = one wrapper instance (class, selector/axis/shape/bounds/periods or polygon, random coefficients of "
        "the recording callable) + 6..40 hostile argument points (+-0, magnitude classes subnormal..1e300, tiny negatives, exact multiples "
        "of the period +-1 ulp, atan2 branch cut, axis points, clamp bounds +-1 ulp), or one sampler call (function, "
        "range/points/grid, counts 1..17, input container kind); families are drawn with fixed weights so that every "
        "class/function is driven; optional arguments (each clamp bound omitted / explicit +-inf / finite, each axis "
        "periodic or period 0) are drawn independently in random cases and ALL their subsets are enumerated in the "
        "fixed cases (4^n ClampInput, 3^2 ClampOutput, 2^n periodic, 27 Swizzle shapes, every Slice axis spelling); "
        "a case is non-trivial when at least one received-argument, returned-value, "
        "mask or sampler-entry comparison was evaluated; distinct = distinct expanded case descriptors")
LEVEL_TEXT = ("Exploration by runtime monitoring with an argument recorder: the property quantifies over all finite "
              "arguments and all wrapped functions, which no finite run exhausts; each generated call of the real "
              "compiled wrapper is judged exactly (bit equality / exact rational membership), so every explored call is "
              "decided without modelling the code")
LEVEL_NOTE = ("trusted: CPython float/Fraction arithmetic, libm hypot/atan2 (to 1 ulp), NumPy array conversion of the "
              "inputs; the recording callable is a bounded rational function of its arguments, so 'any wrapped function' "
              "is sampled by random coefficients only")
TECHNIQUE = ("runtime monitoring: argument recorder — recording Python callables wrapped by the real Cython wrappers / "
             "samplers; received arguments and returned values compared with exact-rational / libm reference mapping")
ASSUMPTIONS = [
    "the RADIUS passed by the hypot-type mappers is judged for max(|x|,|y|) in {0} U [1.5e-154, 9e153] only (x*x + y*y of the as-built code "
    "under/overflows outside: stated bound of DESIGN C13); the angle, z and the vector rotation are judged over the whole finite range incl. subnormals",
    "on the rotation axis (x = y = 0) the toroidal angle is undefined: any received phi / any rotation about z is accepted",
    "phi = -pi received for y = -0.0, x < 0 is accepted as the same angle as +pi (IEEE signed-zero convention)",
    "mask query points lie >= 1e-9 * polygon size away from every polygon edge; polygons are certified simple with exact integer arithmetic",
    "range samplers with 1 sample and min < max cannot contain both end points: only v[0] = f(x[0]) and min <= x[0] <= max are judged",
    "arguments, sampler ranges, clamp bounds and periodic arguments are bounded by 1e300 in magnitude",
]
ASAN_MODULES = ["cherab.core.math.mappers", "cherab.core.math.clamp", "cherab.core.math.slice", "cherab.core.math.mask", "cherab.core.math.transform.periodic", "cherab.core.math.transform.cylindrical", "cherab.core.math.samplers"]
ASAN = dict(cases=4000, workers=8, timecap=240)
QUICK = dict(cases=3400, workers=2, timecap=45)
THOROUGH = dict(cases=150000, workers=16, timecap=600)
REQUIRED = {"received_exact": 5000, "received_computed": 1000, "value_exact": 5000, "vector_rotation": 500,
            "periodic_membership": 2000, "periodic_congruence": 2000, "mask_points": 1000,
            "sampler_entries": 5000, "sampler_grid": 1000, "sampler_alias": 5000,
            "nested_leaf_args": 5000, "nested_value": 5000, "stored_leaf_state": 3000}

ULPS = 16.0
TINY = 1e-300
R_LO, R_HI = 1.5e-154, 9e153      # window of max(|x|,|y|) in which sqrt(x*x + y*y) is exact to rounding

SCALAR_PERIODIC = ["PeriodicTransform1D", "PeriodicTransform2D", "PeriodicTransform3D"]
VECTOR_PERIODIC = ["VectorPeriodicTransform1D", "VectorPeriodicTransform2D", "VectorPeriodicTransform3D"]
CYL = ["AxisymmetricMapper", "VectorAxisymmetricMapper", "CylindricalTransform", "VectorCylindricalTransform"]
CLAMP_IN = ["ClampInput1D", "ClampInput2D", "ClampInput3D"]
CLAMP_OUT = ["ClampOutput1D", "ClampOutput2D", "ClampOutput3D"]
RANGE_SAMPLERS = ["sample1d", "sample2d", "sample3d", "samplevector2d", "samplevector3d"]
POINT_SAMPLERS = ["sample1d_points", "sample2d_points", "sample3d_points", "samplevector2d_points", "samplevector3d_points"]
GRID_SAMPLERS = ["sample2d_grid", "sample3d_grid", "samplevector2d_grid", "samplevector3d_grid"]
SAMPLER_ND = {"sample1d": 1, "sample2d": 2, "sample3d": 3, "samplevector2d": 2, "samplevector3d": 3,
              "sample1d_points": 1, "sample2d_points": 2, "sample3d_points": 3, "samplevector2d_points": 2,
              "samplevector3d_points": 3, "sample2d_grid": 2, "sample3d_grid": 3, "samplevector2d_grid": 2,
              "samplevector3d_grid": 3}

FAMILIES = ([("IsoMapper2D", 2), ("IsoMapper3D", 2), ("Swizzle2D", 2), ("Swizzle3D", 4), ("Slice2D", 3), ("Slice3D", 4)]
            + [(n, 4) for n in CYL] + [(n, 2) for n in CLAMP_IN] + [(n, 2) for n in CLAMP_OUT]
            + [(n, 5) for n in SCALAR_PERIODIC] + [(n, 4) for n in VECTOR_PERIODIC] + [("PolygonMask2D", 8)]
            + [(n, 2) for n in RANGE_SAMPLERS] + [(n, 1.5) for n in POINT_SAMPLERS] + [(n, 1.5) for n in GRID_SAMPLERS]
            + [("nested", 14), ("nested_vector", 4), ("stored_leaf", 5)])

_NDIM = {"IsoMapper2D": 2, "IsoMapper3D": 3, "Swizzle2D": 2, "Swizzle3D": 3, "Slice2D": 1, "Slice3D": 2,
         "AxisymmetricMapper": 3, "VectorAxisymmetricMapper": 3, "CylindricalTransform": 3,
         "VectorCylindricalTransform": 3, "ClampInput1D": 1, "ClampInput2D": 2, "ClampInput3D": 3,
         "ClampOutput1D": 1, "ClampOutput2D": 2, "ClampOutput3D": 3, "PeriodicTransform1D": 1,
         "PeriodicTransform2D": 2, "PeriodicTransform3D": 3, "VectorPeriodicTransform1D": 1,
         "VectorPeriodicTransform2D": 2, "VectorPeriodicTransform3D": 3}


# ----------------------------------------------------------------------------------------------
# the recorder
# ----------------------------------------------------------------------------------------------

def _t(a):
    if a in (math.inf, -math.inf):      # a wrapper may legitimately pass an overflowed radius outside its judged window
        return math.copysign(1.0, a)
    return a / (1.0 + abs(a))


def _val(c, args):
    """bounded, argument-sensitive rational function: c0 + sum c_i t(a_i) + c_x t(a_0) t(a_last)"""
    s = c[0]
    for ci, a in zip(c[1:], args):
        s += ci * _t(a)
    return s + c[len(args) + 1] * _t(args[0]) * _t(args[-1])


class Rec:
    """Recording callable: stores (received args, returned value); value is a pure function of the arguments."""

    def __init__(self, coefs, vector=False):
        self.c = coefs
        self.vector = vector
        self.calls = []
        if vector:
            from raysect.core.math import Vector3D
            self._V = Vector3D

    def value(self, args):
        if self.vector:
            return tuple(_val(c, args) for c in self.c)
        return _val(self.c, args)

    def __call__(self, *args):
        args = tuple(float(a) for a in args)
        v = self.value(args)
        self.calls.append((args, v))
        if self.vector:
            return self._V(v[0], v[1], v[2])
        return v


# ----------------------------------------------------------------------------------------------
# generators
# ----------------------------------------------------------------------------------------------

def _coefs(rng, nd, vector=False):
    def one():
        return [float(x) for x in rng.normal(size=nd + 2) * 10 ** rng.uniform(-2, 2)]
    return [one() for _ in range(3)] if vector else one()


def _sign(rng):
    return -1.0 if rng.random() < 0.5 else 1.0


def _subnormal(rng):
    """a positive subnormal double (or the smallest normal)"""
    k = int(rng.integers(4))
    if k == 0:
        return [5e-324, 1e-323, 2.2250738585072014e-308, 2.225073858507201e-308][int(rng.integers(4))]
    if k == 1:
        return float(int(rng.integers(1, 2 ** 30))) * 5e-324
    return float(10 ** rng.uniform(-323, -308))


def _hostile(rng, hi=300.0):
    """one finite double from the hostile magnitude classes; returns (value, class)"""
    k = int(rng.integers(11))
    if k == 0:
        return (0.0 if rng.random() < 0.5 else -0.0), "zero"
    if k == 1:
        return _sign(rng) * float(10 ** rng.uniform(-150, -20)), "tiny"
    if k == 2:
        return _sign(rng) * float(10 ** rng.uniform(-20, -1)), "small"
    if k == 3 or k == 4:
        return _sign(rng) * float(rng.uniform(0.1, 10)), "ordinary"
    if k == 5:
        return _sign(rng) * float(rng.integers(0, 11)), "integer"
    if k == 6:
        return _sign(rng) * float(10 ** rng.uniform(1, min(15.0, hi))), "large"
    if k == 7:
        return _sign(rng) * _subnormal(rng), "subnormal"
    if k == 8:
        return _sign(rng) * float(10 ** rng.uniform(-308, -150)), "1e-308..1e-150"
    if k == 9 and hi > 100:
        return _sign(rng) * float(10 ** rng.uniform(100, hi)), "1e100..1e%d" % int(hi)
    return _sign(rng) * float(10 ** rng.uniform(min(15.0, hi), min(hi, 100.0))), "huge"


def _points(rng, nd, n, hi=300.0):
    pts, cl = [], []
    for _ in range(n):
        p = [_hostile(rng, hi) for _ in range(nd)]
        pts.append([v for v, _ in p])
        cl.append("+".join(sorted(set(c for _, c in p))))
    return pts, cl


def _nudge(rng, x):
    k = int(rng.integers(3))
    if k == 0:
        return x
    return float(np.nextafter(x, math.inf if k == 1 else -math.inf))


def _periodic_coord(rng, p):
    """argument classes for one periodic axis with period p > 0"""
    k = int(rng.integers(14))
    if k == 12:
        return _sign(rng) * float(10 ** rng.uniform(30, 300)), "giant<=1e300"
    if k == 13:
        return _sign(rng) * _subnormal(rng), "subnormal"
    if k == 0:
        return -float(10 ** rng.uniform(-300, -17)) * (p if rng.random() < 0.5 else 1.0), "tiny-negative"
    if k == 1:
        return [-5e-324, -2.2250738585072014e-308, -0.0, 0.0, 5e-324][int(rng.integers(5))], "subnormal/zero"
    if k == 2:
        return float(10 ** rng.uniform(-300, -17)), "tiny-positive"
    if k == 3:
        m = int(rng.integers(-1000, 1001))
        return _nudge(rng, float(m) * p), "multiple+-ulp"
    if k == 4:
        m = int(_sign(rng) * 10 ** rng.uniform(3, 15))
        x = float(m) * p
        if abs(x) > 1e30:
            x = float(int(rng.integers(-1000, 1001))) * p
        return _nudge(rng, x), "big-multiple+-ulp"
    if k == 5:
        return [p, -p, float(np.nextafter(p, 0.0)), float(np.nextafter(p, math.inf)), -float(np.nextafter(p, 0.0)),
                0.5 * p, -0.5 * p, 2 * p, -2 * p][int(rng.integers(9))], "period-edge"
    if k == 6:
        m = int(rng.integers(0, 50))
        return -float(m) * p - float(10 ** rng.uniform(-19, -13)) * p, "just-below-negative-multiple"
    if k == 7:
        return _sign(rng) * float(rng.uniform(0, 5)) * p, "ordinary"
    if k == 8:
        return _sign(rng) * float(10 ** rng.uniform(-16, 0)) * p, "small"
    if k == 9:
        return _sign(rng) * float(10 ** rng.uniform(1, 15)), "large<=1e15"
    if k == 10:
        return _sign(rng) * float(10 ** rng.uniform(15, 30)), "huge<=1e30"
    v, c = _hostile(rng, 30.0)
    return v, c


def _period(rng, allow_zero):
    k = int(rng.integers(7))
    if allow_zero and k == 0:
        return 0.0
    if k <= 1:
        return [1.0, 2 * math.pi, 360.0, 0.1, 2.0, math.pi, 1e-3, 0.3][int(rng.integers(8))]
    if k == 2:
        return float(2.0 ** int(rng.integers(-20, 21)))
    return float(10 ** rng.uniform(-6, 6))


def _cyl_point(rng):
    def mag():
        # magnitude classes from subnormal to 1e300; which clause is judged where is decided per wrapper by the oracle
        k = int(rng.integers(14))
        if k == 0:
            return float(10 ** rng.uniform(-150, -20)), "1e-150..1e-20"
        if k == 1:
            return float(10 ** rng.uniform(-20, -1)), "small"
        if k <= 4:
            return float(rng.uniform(0.1, 10)), "ordinary"
        if k == 5:
            return float(10 ** rng.uniform(1, 15)), "large"
        if k == 6:
            return float(10 ** rng.uniform(15, 100)), "1e15..1e100"
        if k == 7:
            return _subnormal(rng), "subnormal"
        if k == 8:
            return float(10 ** rng.uniform(-308, -200)), "1e-308..1e-200"
        if k == 9:
            return float(10 ** rng.uniform(-200, -160)), "1e-200..1e-160"
        if k == 10:
            return float(10 ** rng.uniform(-160, -150)), "1e-160..1e-150"
        if k == 11:
            return float(10 ** rng.uniform(100, 150)), "1e100..1e150"
        if k == 12:
            return float(10 ** rng.uniform(150, 200)), "1e150..1e200"
        return float(10 ** rng.uniform(200, 300)), "1e200..1e300"
    z, _ = _hostile(rng)
    k = int(rng.integers(10))
    if k == 0:
        y = 0.0 if rng.random() < 0.5 else -0.0
        m, c = mag()
        return [-m, y, z], "branch-cut:" + c
    if k == 1:
        return [[0.0, -0.0][int(rng.integers(2))], [0.0, -0.0][int(rng.integers(2))], z], "axis"
    if k == 2:
        m, c = mag()
        return [[0.0, -0.0][int(rng.integers(2))], _sign(rng) * m, z], "x=+-0:" + c
    if k == 3:
        m, c = mag()
        return [m, [0.0, -0.0][int(rng.integers(2))], z], "y=+-0,x>0:" + c
    if k == 4:
        m, c = mag()
        return [_sign(rng) * m, _sign(rng) * m, z], "|x|=|y|:" + c
    if k == 5:
        m, c = mag()
        th = float(rng.uniform(-math.pi, math.pi))
        return [m * math.cos(th), m * math.sin(th), z], "polar:" + c
    if k == 6:
        # just off the branch cut
        m, c = mag()
        return [-m, _sign(rng) * m * float(10 ** rng.uniform(-300, -10)), z], "near-branch-cut:" + c
    (mx, cx), (my, cy) = mag(), mag()
    return [_sign(rng) * mx, _sign(rng) * my, z], "mixed:" + "+".join(sorted({cx, cy}))


def _opt_bound(rng, finite, inf_token):
    """an optional bound: None (argument omitted, default), the default infinity passed explicitly, or a finite value"""
    k = rng.random()
    return None if k < 0.35 else (inf_token if k < 0.45 else finite)


def _bnum(b, default):
    """numeric value of an encoded optional bound (None / "inf" / "-inf" / number)"""
    if b is None:
        return default
    if isinstance(b, str):
        return math.inf if b == "inf" else -math.inf
    return float(b)


def _subset_desc(flags, what):
    """'un<what>' / 'all-<what>' / 'only-xz-<what>' for a tuple of per-axis booleans"""
    if len(flags) == 1:
        return what if flags[0] else "un" + what
    if not any(flags):
        return "un" + what
    if all(flags):
        return "all-" + what
    return "only-" + "".join(a for a, f in zip("xyz", flags) if f) + "-" + what


def _axis_sel(rng, nd):
    names = ["x", "y", "z"][:nd]
    a = int(rng.integers(nd))
    k = int(rng.integers(3))
    return a if k == 0 else (names[a] if k == 1 else names[a].upper())


def _range(rng, hi=300.0):
    k = int(rng.integers(6))
    if k == 0:
        a, _ = _hostile(rng, hi)
        return [a, a]
    if k == 1:
        a, b = sorted([int(rng.integers(-10, 11)), int(rng.integers(-10, 11))])
        return [a, b]
    if k == 2:
        a, _ = _hostile(rng, hi)
        w = float(10 ** rng.uniform(-12, 2)) * max(abs(a), 1e-150)
        return [a, a + w]
    a, _ = _hostile(rng, hi)
    b, _ = _hostile(rng, hi)
    return sorted([a, b])


def _counts(rng, nd):
    cap = {1: 40, 2: 17, 3: 17}[nd]
    while True:
        n = []
        for _ in range(nd):
            k = int(rng.integers(4))
            n.append(1 if k == 0 and rng.random() < 0.5 else (2 if k == 0 else int(rng.integers(1, cap + 1))))
        if int(np.prod(n)) <= 1500:
            return n


# ---- polygons ---------------------------------------------------------------------------------

def _to_ints(coords):
    """exact conversion of a list of doubles to integers with one common power-of-two scale"""
    fr = [Fraction(c) for c in coords]
    den = 1
    for f in fr:
        if f.denominator > den:
            den = f.denominator
    return [int(f * den) for f in fr]


def _orient(a, b, c):
    v = (b[0] - a[0]) * (c[1] - a[1]) - (b[1] - a[1]) * (c[0] - a[0])
    return (v > 0) - (v < 0)


def _on_seg(a, b, c):
    return min(a[0], b[0]) <= c[0] <= max(a[0], b[0]) and min(a[1], b[1]) <= c[1] <= max(a[1], b[1])


def _seg_intersect(p1, p2, p3, p4):
    o1, o2, o3, o4 = _orient(p1, p2, p3), _orient(p1, p2, p4), _orient(p3, p4, p1), _orient(p3, p4, p2)
    if o1 != o2 and o3 != o4:
        return True
    if o1 == 0 and _on_seg(p1, p2, p3):
        return True
    if o2 == 0 and _on_seg(p1, p2, p4):
        return True
    if o3 == 0 and _on_seg(p3, p4, p1):
        return True
    if o4 == 0 and _on_seg(p3, p4, p2):
        return True
    return False


def certify_simple(verts):
    """exact certificate: no coincident vertices, non-adjacent edges disjoint, adjacent edges meet only in their common
    vertex, non-zero area.  verts: list of [x, y] doubles.  Returns integer vertices (common scale) or None."""
    n = len(verts)
    if n < 3:
        return None
    flat = _to_ints([c for v in verts for c in v])
    P = [(flat[2 * i], flat[2 * i + 1]) for i in range(n)]
    if len(set(P)) != n:
        return None
    area2 = sum(P[i][0] * P[(i + 1) % n][1] - P[(i + 1) % n][0] * P[i][1] for i in range(n))
    if area2 == 0:
        return None
    for i in range(n):
        a, b, c = P[i], P[(i + 1) % n], P[(i + 2) % n]
        # adjacent edges: forbid folding back onto each other
        if _orient(a, b, c) == 0 and ((b[0] - a[0]) * (c[0] - b[0]) + (b[1] - a[1]) * (c[1] - b[1])) <= 0:
            return None
    for i in range(n):
        for j in range(i + 2, n):
            if i == 0 and j == n - 1:
                continue
            if _seg_intersect(P[i], P[(i + 1) % n], P[j], P[(j + 1) % n]):
                return None
    return P


def _poly_shape(rng):
    """unit-scale simple polygon candidates (certified later); returns (kind, vertices)"""
    k = int(rng.integers(8))
    if k == 7:                                   # convex / star polygon whose straight edges are subdivided: consecutive
        n = int(rng.integers(3, 9))              # vertices collinear up to rounding (digitised wall outlines)
        th = np.sort(rng.uniform(0, 2 * math.pi, size=n))
        r = rng.uniform(0.4, 1.0, size=n) if rng.random() < 0.5 else np.ones(n)
        B = np.c_[r * np.cos(th), r * np.sin(th)]
        if rng.random() < 0.5:
            B = np.round(B, 2)
        v = []
        for i in range(n):
            a, b = B[i], B[(i + 1) % n]
            m = int(rng.integers(1, 5))
            for j in range(m):
                v.append([float(a[0] + (b[0] - a[0]) * j / m), float(a[1] + (b[1] - a[1]) * j / m)])
        return "subdivided-edges", v
    if k == 6:                                   # rectangle on a decimal lattice (typical R-Z mask sampled on a regular grid)
        h = [0.1, 0.01, 0.05, 0.2, 0.25][int(rng.integers(5))]
        W, H = int(rng.integers(2, 15)), int(rng.integers(2, 15))
        x0, y0 = int(rng.integers(-10, 10)), int(rng.integers(-10, 10))
        return "decimal-rect:%g" % h, [[x0 * h, y0 * h], [(x0 + W) * h, y0 * h], [(x0 + W) * h, (y0 + H) * h], [x0 * h, (y0 + H) * h]]
    if k == 0:                                   # convex: points on an ellipse sorted by angle
        n = int(rng.integers(3, 41))
        th = np.sort(rng.uniform(0, 2 * math.pi, size=n))
        a, b = rng.uniform(0.2, 1), rng.uniform(0.2, 1)
        return "convex", [[float(a * math.cos(t)), float(b * math.sin(t))] for t in th]
    if k == 1 or k == 2:                         # star-shaped concave
        n = int(rng.integers(4, 41))
        th = np.sort(rng.uniform(0, 2 * math.pi, size=n))
        r = rng.uniform(0.15, 1.0, size=n)
        return "star", [[float(ri * math.cos(t)), float(ri * math.sin(t))] for ri, t in zip(r, th)]
    if k == 3:                                   # rectilinear comb on an integer lattice
        teeth = int(rng.integers(1, 9))
        h = int(rng.integers(2, 6))
        v = [[0, 0]]
        x = 0
        for _ in range(teeth):
            v += [[x, h], [x + 1, h], [x + 1, 1], [x + 2, 1]]
            x += 2
        v += [[x, h], [x + 1, h], [x + 1, 0]]
        return "comb", [[float(a), float(b)] for a, b in v]
    if k == 4:                                   # rectilinear staircase / L / U shapes on an integer lattice
        steps = int(rng.integers(1, 10))
        v = [[0, 0]]
        for s in range(steps):
            v += [[steps - s, s], [steps - s, s + 1]]
        v += [[0, steps]]
        return "staircase", [[float(a), float(b)] for a, b in v]
    # spiral-ish: zig-zag band
    n = int(rng.integers(2, 12))
    top = [[float(i), float(1 + (i % 2) * rng.uniform(0.3, 2))] for i in range(n + 1)]
    bot = [[float(i), float(-0.5 + (i % 2) * rng.uniform(0.2, 1.2))] for i in range(n, -1, -1)]
    return "zigzag", top + bot


def _gen_polygon(rng):
    for _ in range(50):
        kind, v = _poly_shape(rng)
        v = np.array(v, dtype=float)
        lattice = (kind in ("comb", "staircase") and rng.random() < 0.5) or kind.startswith("decimal-rect")
        if not lattice:
            ang = rng.uniform(0, 2 * math.pi)
            sh = rng.uniform(-0.5, 0.5) if rng.random() < 0.5 else 0.0
            A = np.array([[math.cos(ang), -math.sin(ang)], [math.sin(ang), math.cos(ang)]]) @ np.array([[1, sh], [0, 1]])
            s = float(10 ** rng.uniform(-6, 6)) if rng.random() < 0.5 else 1.0
            size0 = float(np.hypot(*(v.max(axis=0) - v.min(axis=0))))
            off = rng.uniform(-1, 1, size=2) * (100 * size0 * s if rng.random() < 0.3 else size0 * s)
            v = (v @ A.T) * s + off
        if rng.random() < 0.5:
            v = v[::-1]
        v = np.roll(v, int(rng.integers(len(v))), axis=0)
        extra = ""
        if not lattice:
            size1 = float(np.hypot(*(v.max(axis=0) - v.min(axis=0))))
            if rng.random() < 0.35:
                # short edges: an extra corner very close (1e-9 .. 1e-2 of the size) to an existing one; half of the time it
                # becomes the LAST vertex, lying beside the FIRST one
                for _try in range(6):
                    i = 0 if rng.random() < 0.5 else int(rng.integers(len(v)))
                    al = rng.uniform(0, 2 * math.pi)
                    d = size1 * float(10 ** rng.uniform(-9, -2)) * np.array([math.cos(al), math.sin(al)])
                    w = np.insert(v, i, v[i] + d, axis=0)            # new corner precedes corner i
                    if i == 0:
                        w = np.roll(w, -1, axis=0)                   # ... v[0] first, the new corner last
                    if certify_simple([[float(a), float(b)] for a, b in w]) is not None:
                        v = w
                        extra += "+short-edge"
                        break
            if rng.random() < 0.3:
                # far from the origin relative to its size (offset/size 1e2 .. 1e6)
                al = rng.uniform(0, 2 * math.pi)
                v = v + size1 * float(10 ** rng.uniform(2, 6)) * np.array([math.cos(al), math.sin(al)])
                extra += "+far-offset"
        verts = [[float(a), float(b)] for a, b in v]
        if certify_simple(verts) is not None:
            if kind.startswith("decimal-rect"):
                return "decimal-rect", float(kind.split(":")[1]), verts
            return kind + ("-lattice" if lattice else "") + extra, lattice, verts
    return "square", True, [[0.0, 0.0], [1.0, 0.0], [1.0, 1.0], [0.0, 1.0]]


def _mask_queries(rng, verts, lattice, n):
    v = np.array(verts)
    lo, hi = v.min(axis=0), v.max(axis=0)
    size = float(np.hypot(*(hi - lo)))
    pts = []
    nv = len(v)
    if lattice is not True and lattice is not False:
        # nodes of the decimal lattice (step h) the rectangle was built on, plus a margin of 2 nodes
        h = float(lattice)
        i0, i1 = int(round(lo[0] / h)), int(round(hi[0] / h))
        j0, j1 = int(round(lo[1] / h)), int(round(hi[1] / h))
        for _ in range(n):
            pts.append([int(rng.integers(i0 - 2, i1 + 3)) * h, int(rng.integers(j0 - 2, j1 + 3)) * h])
        return pts
    elen = [float(np.hypot(*(v[(i + 1) % nv] - v[i]))) for i in range(nv)]
    short = [i for i in range(nv) if elen[i] < 0.02 * size]
    for _ in range(n):
        k = int(rng.integers(7))
        if short and nv >= 4 and rng.random() < 0.5:
            # inside one of the small triangles next to a short edge (i, i+1): (i-1, i, i+1) or (i, i+1, i+2)
            i = short[int(rng.integers(len(short)))]
            tri = [i - 1, i, i + 1] if rng.random() < 0.5 else [i, i + 1, i + 2]
            w = rng.dirichlet([1, 1, 1])
            if rng.random() < 0.5:
                w = rng.dirichlet([3, 3, 3])
            q = [float(sum(w[j] * v[tri[j] % nv][0] for j in range(3))), float(sum(w[j] * v[tri[j] % nv][1] for j in range(3)))]
            pts.append(q)
            continue
        if k == 6 and nv >= 4:
            # on the chord between two non-adjacent vertices: a potential internal diagonal of the triangulation
            i = int(rng.integers(nv))
            j = (i + int(rng.integers(2, nv - 1))) % nv
            t = float(rng.uniform(0.02, 0.98))
            q = [float(v[i][0] + t * (v[j][0] - v[i][0])), float(v[i][1] + t * (v[j][1] - v[i][1]))]
        elif lattice and k <= 2:
            # quarter-lattice points: may fall on internal triangulation diagonals, never on polygon edges of a lattice polygon
            # when the coordinates are odd multiples of 1/4
            q = [float(math.floor(rng.uniform(lo[0] - 1, hi[0] + 1)) + [0.25, 0.5, 0.75][int(rng.integers(3))]),
                 float(math.floor(rng.uniform(lo[1] - 1, hi[1] + 1)) + [0.25, 0.5, 0.75][int(rng.integers(3))])]
        elif k <= 1:
            q = [float(rng.uniform(lo[0] - 0.2 * size, hi[0] + 0.2 * size)), float(rng.uniform(lo[1] - 0.2 * size, hi[1] + 0.2 * size))]
        elif k == 2:
            i, j, l = (int(x) for x in rng.integers(nv, size=3))
            w = rng.dirichlet([1, 1, 1])
            q = [float(w[0] * v[i][0] + w[1] * v[j][0] + w[2] * v[l][0]), float(w[0] * v[i][1] + w[1] * v[j][1] + w[2] * v[l][1])]
        elif k == 3 or k == 4:
            # next to an edge: point of the edge displaced along the normal by 1e-8..1e-2 of the size
            i = int(rng.integers(nv))
            a, b = v[i], v[(i + 1) % nv]
            t = float(rng.uniform(0, 1)) if k == 3 else [0.0, 1.0, 0.5][int(rng.integers(3))]
            e = b - a
            nrm = np.array([-e[1], e[0]]) / (np.hypot(*e) + 1e-300)
            d = _sign(rng) * size * float(10 ** rng.uniform(-8, -2))
            q = [float(a[0] + t * e[0] + d * nrm[0]), float(a[1] + t * e[1] + d * nrm[1])]
        else:
            # far outside / just outside the bounding box
            q = [float(lo[0] - size * 10 ** rng.uniform(-6, 3)) if rng.random() < 0.5 else float(hi[0] + size * 10 ** rng.uniform(-6, 3)),
                 float(rng.uniform(lo[1] - size, hi[1] + size))]
            if rng.random() < 0.5:
                q = [float(rng.uniform(lo[0] - size, hi[0] + size)),
                     float(lo[1] - size * 10 ** rng.uniform(-6, 3)) if rng.random() < 0.5 else float(hi[1] + size * 10 ** rng.uniform(-6, 3))]
        pts.append(q)
    return pts


# ---- cases ------------------------------------------------------------------------------------

_W = np.array([w for _, w in FAMILIES], dtype=float)
_W /= _W.sum()


def gen_case(rng, tier):
    name = FAMILIES[int(rng.choice(len(FAMILIES), p=_W))][0]
    return _gen_named(rng, name)


def _gen_named(rng, name):
    if name in ("nested", "nested_vector"):
        return _gen_nested(rng, name == "nested_vector")
    if name == "stored_leaf":
        return _gen_stored(rng)
    case = {"w": name}
    npt = int(rng.integers(6, 41))
    if name in ("IsoMapper2D", "IsoMapper3D"):
        nd = _NDIM[name]
        case["f"] = _coefs(rng, nd)
        case["g"] = _coefs(rng, 1)
        case["pts"], case["cls"] = _points(rng, nd, npt)
        if rng.random() < 0.4:
            # hostile class "inner field exactly zero": f(0,..,0) = c0 = 0, evaluated first on the fresh object, and repeated
            case["f"][0] = 0.0
            z = [[0.0, -0.0][int(rng.integers(2))] for _ in range(nd)]
            k = int(rng.integers(1, 4))
            case["pts"] = [list(z) for _ in range(k)] + case["pts"] + [list(z)]
            case["cls"] = ["inner-value-zero"] * k + case["cls"] + ["inner-value-zero"]
        if rng.random() < 0.3:
            # repeated points (same inner value twice in a row)
            i = int(rng.integers(len(case["pts"])))
            case["pts"].insert(i, list(case["pts"][i]))
            case["cls"].insert(i, case["cls"][i])
    elif name == "Swizzle2D":
        case["f"] = _coefs(rng, 2)
        case["pts"], case["cls"] = _points(rng, 2, npt)
    elif name == "Swizzle3D":
        case["f"] = _coefs(rng, 3)
        case["shape"] = [int(i) for i in rng.integers(3, size=3)]
        case["pts"], case["cls"] = _points(rng, 3, npt)
    elif name in ("Slice2D", "Slice3D"):
        nd = _NDIM[name] + 1
        case["f"] = _coefs(rng, nd)
        case["axis"] = _axis_sel(rng, nd)
        case["value"] = _hostile(rng)[0]
        case["pts"], case["cls"] = _points(rng, nd - 1, npt)
    elif name in CYL:
        vec = name.startswith("Vector")
        nd = 2 if "Axisymmetric" in name else 3
        case["f"] = _coefs(rng, nd, vec)
        p = [_cyl_point(rng) for _ in range(npt)]
        case["pts"] = [a for a, _ in p]
        case["cls"] = [c for _, c in p]
    elif name in CLAMP_IN:
        nd = _NDIM[name]
        case["f"] = _coefs(rng, nd)
        # every bound independently: left at its default (None), passed explicitly as -inf/+inf, or finite;
        # so bounds on any subset of the axes (incl. none, one-sided) are sampled
        bounds = []
        for _ in range(nd):
            a, b = _hostile(rng)[0], _hostile(rng)[0]
            lo, hi = min(a, b), max(a, b)
            if not lo < hi:
                hi = 2.0 * abs(lo) + 1.0
            bounds.append([_opt_bound(rng, lo, "-inf"), _opt_bound(rng, hi, "inf")])
        case["bounds"] = bounds
        pts, cl = [], []
        for _ in range(npt):
            p, c = [], []
            for lo, hi in bounds:
                lo, hi = _bnum(lo, -math.inf), _bnum(hi, math.inf)
                k = int(rng.integers(6))
                cand = [t for t in (lo, hi) if math.isfinite(t)]
                if k <= 1 and cand:
                    p.append(_nudge(rng, cand[int(rng.integers(len(cand)))]))
                    c.append("bound+-ulp")
                elif k == 2 and len(cand) == 2:
                    p.append(float(lo + (hi - lo) * rng.uniform(0, 1)))
                    c.append("inside")
                elif k == 3 and cand:
                    # beyond a finite bound
                    t = cand[int(rng.integers(len(cand)))]
                    d = float(10 ** rng.uniform(-3, 3)) * max(abs(t), 1e-150)
                    p.append(t - d if t == lo else t + d)
                    c.append("beyond-bound")
                else:
                    v, cc = _hostile(rng)
                    p.append(v)
                    c.append(cc)
            pts.append(p)
            cl.append("+".join(sorted(set(c))))
        case["pts"], case["cls"] = pts, cl
    elif name in CLAMP_OUT:
        nd = _NDIM[name]
        c = _coefs(rng, nd)
        case["f"] = c
        S = sum(abs(x) for x in c[1:])
        lo = c[0] - float(rng.uniform(0, 1)) * S
        hi = c[0] + float(rng.uniform(0, 1)) * S
        if not lo < hi:
            hi = lo + 1.0
        case["bounds"] = [_opt_bound(rng, lo, "-inf"), _opt_bound(rng, hi, "inf")]
        case["pts"], case["cls"] = _points(rng, nd, npt)
    elif name in SCALAR_PERIODIC or name in VECTOR_PERIODIC:
        nd = _NDIM[name]
        vec = name.startswith("Vector")
        case["f"] = _coefs(rng, nd, vec)
        # any subset of the axes periodic (period 0 = not periodic; 1-D requires period > 0)
        periods = [0.0 if (nd > 1 and rng.random() < 0.35) else _period(rng, False) for _ in range(nd)]
        case["periods"] = periods
        pts, cl = [], []
        for _ in range(npt):
            p, c = [], []
            for per in periods:
                if per > 0:
                    v, cc = _periodic_coord(rng, per)
                else:
                    v, cc = _hostile(rng, 30.0)
                    cc = "nonperiodic:" + cc
                p.append(v)
                c.append(cc)
            pts.append(p)
            cl.append("+".join(sorted(set(c))))
        case["pts"], case["cls"] = pts, cl
    elif name == "PolygonMask2D":
        kind, lattice, verts = _gen_polygon(rng)
        case["poly_kind"] = kind
        case["vertices"] = verts
        case["container"] = ["list", "array"][int(rng.integers(2))]
        case["pts"] = _mask_queries(rng, verts, lattice, int(rng.integers(20, 61)))
    elif name in RANGE_SAMPLERS:
        nd = SAMPLER_ND[name]
        case["f"] = _coefs(rng, nd, name.startswith("samplevector"))
        n = _counts(rng, nd)
        case["ranges"] = [_range(rng) + [n[i]] for i in range(nd)]
    elif name in POINT_SAMPLERS:
        nd = SAMPLER_ND[name]
        case["f"] = _coefs(rng, nd, name.startswith("samplevector"))
        case["container"] = ["list", "array", "strided", "fortran", "float32"][int(rng.integers(5))]
        # float32 input arrays: keep the values finite after the cast (|x| < 3.4e38)
        case["points"], _ = _points(rng, nd, int(rng.integers(1, 41)), 30.0 if case["container"] == "float32" else 300.0)
    elif name in GRID_SAMPLERS:
        nd = SAMPLER_ND[name]
        case["f"] = _coefs(rng, nd, name.startswith("samplevector"))
        n = _counts(rng, nd)
        axes = []
        for i in range(nd):
            if rng.random() < 0.3:
                a, b = _range(rng)
                axes.append([float(x) for x in np.linspace(a, b, n[i])])
            else:
                axes.append([p[0] for p in _points(rng, 1, n[i])[0]])
        case["axes"] = axes
        case["container"] = ["list", "array", "strided", "tuple"][int(rng.integers(4))]
    else:  # pragma: no cover
        raise AssertionError(name)
    return case


def fixed_cases(tier):
    """deterministic hostile / regression cases"""
    f1, f2, f3 = [0.3, 1.7, -0.9], [0.3, 1.7, -0.9, 0.4], [0.3, 1.7, -0.9, 2.1, 0.4]
    v1 = [[0.3, 1.7, -0.9], [1.0, -2.0, 0.5], [-0.7, 0.2, 0.1]]
    v2 = [[0.3, 1.7, -0.9, 0.4], [1.0, -2.0, 0.5, 0.3], [-0.7, 0.2, 0.1, 0.9]]
    v3 = [[0.3, 1.7, -0.9, 2.1, 0.4], [1.0, -2.0, 0.5, 0.3, -0.6], [-0.7, 0.2, 0.1, 0.9, 1.1]]
    out = []
    # the probe of DESIGN §5 item 15 and friends
    per_pts = [[-1e-20], [-1e-300], [-5e-324], [-0.0], [0.0], [1.0], [-1.0], [1e15], [-1e15], [-5.5e-17], [-5.6e-17],
               [-1.1102230246251565e-16], [0.9999999999999999], [1.0000000000000002], [-0.30000000000000004], [2.5], [-2.5]]
    out.append({"w": "PeriodicTransform1D", "f": f1, "periods": [1.0], "pts": per_pts, "cls": ["fixed"] * len(per_pts)})
    out.append({"w": "VectorPeriodicTransform1D", "f": v1, "periods": [1.0], "pts": per_pts, "cls": ["fixed"] * len(per_pts)})
    p2 = [[-1e-20, 0.5], [0.5, -1e-20], [-1e-20, -1e-20], [6.283185307179586, -6.283185307179586], [-7.0, 370.0], [1e15, -1e15]]
    out.append({"w": "PeriodicTransform2D", "f": f2, "periods": [2 * math.pi, 360.0], "pts": p2, "cls": ["fixed"] * len(p2)})
    out.append({"w": "PeriodicTransform2D", "f": f2, "periods": [0.0, 360.0], "pts": p2, "cls": ["fixed"] * len(p2)})
    out.append({"w": "VectorPeriodicTransform2D", "f": v2, "periods": [2 * math.pi, 0.0], "pts": p2, "cls": ["fixed"] * len(p2)})
    p3 = [[-1e-20, 0.5, 3.0], [0.5, -1e-20, -3.0], [1.5, 1.5, -1e-30], [-0.3, -1.3, -2.3], [120.0, -240.0, 360.0]]
    out.append({"w": "PeriodicTransform3D", "f": f3, "periods": [1.0, 0.0, 120.0], "pts": p3, "cls": ["fixed"] * len(p3)})
    out.append({"w": "VectorPeriodicTransform3D", "f": v3, "periods": [0.0, 1.0, 0.1], "pts": p3, "cls": ["fixed"] * len(p3)})
    # all 27 swizzle shapes
    sw = [[1.5, -2.5, 3.5], [0.0, -0.0, 1e-150], [1e100, -1e-100, 7.0]]
    for a in range(3):
        for b in range(3):
            for c in range(3):
                out.append({"w": "Swizzle3D", "f": f3, "shape": [a, b, c], "pts": sw, "cls": ["fixed"] * 3})
    out.append({"w": "Swizzle2D", "f": f2, "pts": [[1.5, -2.5], [0.0, 1e100], [-1e-150, 3.0]], "cls": ["fixed"] * 3})
    # all slice selectors
    for ax in (0, 1, "x", "y", "X", "Y"):
        out.append({"w": "Slice2D", "f": f2, "axis": ax, "value": 1.25, "pts": [[-3.5], [0.0], [1e100]], "cls": ["fixed"] * 3})
    for ax in (0, 1, 2, "x", "y", "z", "X", "Y", "Z"):
        out.append({"w": "Slice3D", "f": f3, "axis": ax, "value": -1.25, "pts": [[-3.5, 2.0], [0.0, -0.0], [1e100, 1e-100]],
                    "cls": ["fixed"] * 3})
    # branch cut / axis / quadrants
    cyl = [[-1.0, 0.0, 2.0], [-1.0, -0.0, 2.0], [0.0, 0.0, 1.0], [-0.0, 0.0, 1.0], [-0.0, -0.0, 1.0], [0.0, -0.0, 1.0],
           [3.0, 4.0, 0.0], [-3.0, 4.0, 0.0], [-3.0, -4.0, 0.0], [3.0, -4.0, 0.0], [0.0, 2.0, 0.0], [0.0, -2.0, 0.0],
           [1e100, 1e100, 1.0], [1e-150, -1e-150, 1.0], [-1e-150, 1e-300, 1.0], [-1e100, -1e-100, -1.0], [2.0, 0.0, -0.0],
           # every magnitude class, at non-zero toroidal angles: subnormal, 1e-200, 1e-160, 1e-150 ... 1e150, 1e200, 1e300
           [-1e-160, 0.0, 0.0], [0.0, 1e-170, 0.0], [-5e-324, 0.0, 1.0], [5e-324, 5e-324, 1.0], [-3e-310, 4e-310, 1.0],
           [1e-200, -1e-200, 0.5], [-1e-155, 1e-156, 0.5], [-1e-150, -1e-150, 0.5], [-1e150, 1e150, 0.5], [-1e160, 0.0, 0.0],
           [0.0, -1e200, 2.0], [1e200, -1e200, 1.0], [-1e300, 1e-300, 1.0], [1e-300, 1e300, 1.0], [-1e300, -1e300, 1.0]]
    for nm, f in (("AxisymmetricMapper", f2), ("VectorAxisymmetricMapper", v2), ("CylindricalTransform", f3),
                  ("VectorCylindricalTransform", v3)):
        out.append({"w": nm, "f": f, "pts": cyl, "cls": ["fixed"] * len(cyl)})
    # clamps: ALL subsets of the optional bounds (each bound omitted / finite), plus every bound passed explicitly as +-inf
    c3 = [[-1.0, 5.0, 0.5], [0.5, 0.5, 0.5], [2.0, -2.0, 1e100], [0.0, 1.0, -0.0]]
    fin = [[-0.5, 0.75], [-1.25, 0.5], [0.25, 1.5]]
    probe = [-1e100, -2.0, -0.5, -0.0, 0.3, 0.75, 1.0000000000000002, 3.0, 1e100]
    for nd, (nm, fc) in enumerate((("ClampInput1D", f1), ("ClampInput2D", f2), ("ClampInput3D", f3)), start=1):
        grid = [[-2.0, 0.3, 3.0]] * nd
        pts = [list(t) for t in np.array(np.meshgrid(*grid, indexing="ij")).reshape(nd, -1).T.tolist()]
        pts += [[v] * nd for v in probe]
        variants = []
        for mask in range(4 ** nd):                      # bit 2a: lower bound of axis a present, bit 2a+1: upper bound
            variants.append([[fin[a][0] if mask >> (2 * a) & 1 else None, fin[a][1] if mask >> (2 * a + 1) & 1 else None]
                             for a in range(nd)])
        for a in range(nd):                              # explicit infinities, alone and next to finite bounds elsewhere
            for others in (None, "fin"):
                for lo, hi in (("-inf", "inf"), ("-inf", fin[a][1]), (fin[a][0], "inf"), ("-inf", None), (None, "inf")):
                    v = [[fin[b][0], fin[b][1]] if others else [None, None] for b in range(nd)]
                    v[a] = [lo, hi]
                    variants.append(v)
        variants.append([["-inf", "inf"]] * nd)
        for v in variants:
            out.append({"w": nm, "f": fc, "bounds": v, "pts": pts, "cls": ["fixed"] * len(pts)})
    for nd, (nm, fc) in enumerate((("ClampOutput1D", f1), ("ClampOutput2D", f2), ("ClampOutput3D", f3)), start=1):
        pts = [[v] * nd for v in probe] + [p[:nd] for p in c3]
        for lo in (None, "-inf", -0.5):
            for hi in (None, "inf", 0.9):
                out.append({"w": nm, "f": fc, "bounds": [lo, hi], "pts": pts, "cls": ["fixed"] * len(pts)})
    # periodic transforms: ALL subsets of periodic axes (period 0 = not periodic), scalar and vector
    pp = [-1e-20, -5e-324, -0.0, 0.0, 0.5, 1.0, -1.0, -4.0, 2.5, -2.5, 360.0, -370.0, 1e15, -1e15, 0.9999999999999999]
    for nd, names, fs in ((2, ("PeriodicTransform2D", "VectorPeriodicTransform2D"), (f2, v2)),
                          (3, ("PeriodicTransform3D", "VectorPeriodicTransform3D"), (f3, v3))):
        per = [1.0, 360.0, 2.0][:nd]
        pts = [[v] * nd for v in pp] + [[pp[(i + 3 * a) % len(pp)] for a in range(nd)] for i in range(len(pp))]
        for mask in range(2 ** nd):
            periods = [per[a] if mask >> a & 1 else 0.0 for a in range(nd)]
            for nm, fc in zip(names, fs):
                out.append({"w": nm, "f": fc, "periods": periods, "pts": pts, "cls": ["fixed"] * len(pts)})
    out.append({"w": "IsoMapper2D", "f": f2, "g": f1, "pts": [p[:2] for p in c3], "cls": ["fixed"] * 4})
    out.append({"w": "IsoMapper3D", "f": f3, "g": f1, "pts": c3, "cls": ["fixed"] * 4})
    z2, z3 = [0.0] + f2[1:], [0.0] + f3[1:]      # inner field exactly 0 at the origin, evaluated first / repeated
    out.append({"w": "IsoMapper2D", "f": z2, "g": f1, "pts": [[0.0, 0.0], [-0.0, 0.0], [1.0, 2.0], [1.0, 2.0], [0.0, -0.0]], "cls": ["fixed"] * 5})
    out.append({"w": "IsoMapper3D", "f": z3, "g": f1, "pts": [[0.0, 0.0, 0.0], [1.0, 2.0, 3.0], [1.0, 2.0, 3.0], [-0.0, 0.0, 0.0]], "cls": ["fixed"] * 4})
    # polygons: square both orientations (query on the internal diagonal), L, U, collinear vertex
    sq = [[0.0, 0.0], [2.0, 0.0], [2.0, 2.0], [0.0, 2.0]]
    q = [[1.0, 1.0], [0.5, 0.5], [1.5, 0.5], [0.5, 1.5], [-0.5, 1.0], [2.5, 1.0], [1.0, 2.5], [1.0, -0.5], [3.0, 3.0], [0.25, 1.75]]
    out.append({"w": "PolygonMask2D", "poly_kind": "square-ccw", "vertices": sq, "container": "list", "pts": q})
    out.append({"w": "PolygonMask2D", "poly_kind": "square-cw", "vertices": sq[::-1], "container": "array", "pts": q})
    L = [[0.0, 0.0], [3.0, 0.0], [3.0, 1.0], [1.0, 1.0], [1.0, 3.0], [0.0, 3.0]]
    qL = [[0.5, 0.5], [2.5, 0.5], [0.5, 2.5], [2.0, 2.0], [1.5, 1.5], [1.25, 0.75], [0.75, 1.25], [2.0, 0.5], [0.5, 2.0], [3.5, 0.5]]
    out.append({"w": "PolygonMask2D", "poly_kind": "L", "vertices": L, "container": "list", "pts": qL})
    out.append({"w": "PolygonMask2D", "poly_kind": "L-cw", "vertices": L[::-1], "container": "list", "pts": qL})
    U = [[0.0, 0.0], [3.0, 0.0], [3.0, 3.0], [2.0, 3.0], [2.0, 1.0], [1.0, 1.0], [1.0, 3.0], [0.0, 3.0]]
    qU = [[0.5, 2.0], [1.5, 2.0], [2.5, 2.0], [1.5, 0.5], [1.5, 1.25], [0.5, 0.5], [2.5, 0.5], [1.5, 3.5], [-0.5, 1.5], [1.5, 0.75]]
    out.append({"w": "PolygonMask2D", "poly_kind": "U", "vertices": U, "container": "list", "pts": qU})
    col = [[0.0, 0.0], [1.0, 0.0], [2.0, 0.0], [2.0, 2.0], [1.0, 2.0], [0.0, 2.0]]
    out.append({"w": "PolygonMask2D", "poly_kind": "collinear-vertices", "vertices": col, "container": "list", "pts": q})
    rect = [[-0.2, 0.4], [2.6, 0.4], [2.6, 1.8], [-0.2, 1.8]]
    out.append({"w": "PolygonMask2D", "poly_kind": "decimal-rect", "vertices": rect, "container": "list",
                "pts": [[1.0, 1.0], [2.2, 1.6], [0.4, 0.7], [1.2, 1.1], [0.0, 0.5], [2.4, 1.7], [3.0, 1.0], [1.0, 0.2]]})
    tri = [[0.0, 0.0], [4.0, 0.0], [0.0, 3.0]]
    out.append({"w": "PolygonMask2D", "poly_kind": "triangle", "vertices": tri, "container": "list",
                "pts": [[1.0, 1.0], [3.0, 1.0], [0.5, 2.5], [2.0, 1.4], [2.0, 1.6], [-0.1, 1.0], [1.0, -0.1]]})
    # samplers: every function once with asymmetric counts
    out.append({"w": "sample1d", "f": f1, "ranges": [[0, 3, 5]]})
    out.append({"w": "sample1d", "f": f1, "ranges": [[-1.5, 1.5, 1]]})
    out.append({"w": "sample1d", "f": f1, "ranges": [[2.5, 2.5, 3]]})
    out.append({"w": "sample2d", "f": f2, "ranges": [[1, 3, 5], [1, 3, 5]]})
    out.append({"w": "sample2d", "f": f2, "ranges": [[-1.0, 3.0, 3], [10.0, 11.0, 7]]})
    out.append({"w": "sample3d", "f": f3, "ranges": [[1, 3, 3], [1, 3, 3], [1, 3, 3]]})
    out.append({"w": "sample3d", "f": f3, "ranges": [[-1.0, 0.0, 2], [0.0, 5.0, 3], [1e-150, 1e100, 4]]})
    out.append({"w": "samplevector2d", "f": v2, "ranges": [[1, 3, 3], [1, 3, 3]]})
    out.append({"w": "samplevector2d", "f": v2, "ranges": [[0.0, 1.0, 2], [-5.0, 5.0, 5]]})
    out.append({"w": "samplevector3d", "f": v3, "ranges": [[1, 2, 2], [1, 3, 3], [1, 3, 3]]})
    out.append({"w": "samplevector3d", "f": v3, "ranges": [[0.0, 1.0, 4], [-1.0, 1.0, 1], [2.0, 3.0, 3]]})
    pt3 = [[1.0, 2.0, 3.0], [-1.0, 0.0, 1e30], [0.5, -0.0, 1e-150], [2.0, 2.0, 2.0]]      # finite also as float32
    for cont in ("list", "array", "strided", "fortran", "float32"):
        out.append({"w": "sample1d_points", "f": f1, "points": [p[:1] for p in pt3], "container": cont})
        out.append({"w": "sample2d_points", "f": f2, "points": [p[:2] for p in pt3], "container": cont})
        out.append({"w": "sample3d_points", "f": f3, "points": pt3, "container": cont})
        out.append({"w": "samplevector2d_points", "f": v2, "points": [p[:2] for p in pt3], "container": cont})
        out.append({"w": "samplevector3d_points", "f": v3, "points": pt3, "container": cont})
    ax = [[1.0, 2.0], [1.0, 2.0, 3.0], [3.0, -1.0, 3.0, 0.5]]
    for cont in ("list", "array", "strided", "tuple"):
        out.append({"w": "sample2d_grid", "f": f2, "axes": ax[:2], "container": cont})
        out.append({"w": "sample3d_grid", "f": f3, "axes": ax, "container": cont})
        out.append({"w": "samplevector2d_grid", "f": v2, "axes": ax[:2], "container": cont})
        out.append({"w": "samplevector3d_grid", "f": v3, "axes": ax, "container": cont})
    out += _nested_fixed()
    return out


# ----------------------------------------------------------------------------------------------
# oracle helpers
# ----------------------------------------------------------------------------------------------

def _tol(x):
    return ULPS * math.ulp(abs(x)) + TINY


def _same(got, want):
    return len(got) == len(want) and all(g == w for g, w in zip(got, want))


def _vec(v):
    return (v.x, v.y, v.z)


def _mod(ctx):
    import cherab.core.math as cm
    return cm


def _container(kind, data, nd=None):
    """turn a list (1D axis or list of points) into the requested input container"""
    if kind == "list":
        return data
    if kind == "tuple":
        return tuple(data)
    a = np.array(data, dtype=float)
    if kind == "array":
        return a
    if kind == "strided":
        big = np.zeros((a.shape[0] * 2,) + a.shape[1:], dtype=float)
        big[::2] = a
        big[1::2] = 777.0
        return big[::2]
    if kind == "fortran":
        return np.asfortranarray(a)
    if kind == "float32":
        return a.astype(np.float32)
    raise AssertionError(kind)


# ----------------------------------------------------------------------------------------------
# run
# ----------------------------------------------------------------------------------------------

def run_case(case, ctx):
    name = case["w"]
    ctx.cls(name)
    if name == "PolygonMask2D":
        return _run_mask(case, ctx)
    if name in SAMPLER_ND:
        return _run_sampler(case, ctx)
    if name in ("nested", "nested_vector", "stored_leaf"):
        return _run_nested(case, ctx)
    return _run_wrapper(case, ctx)


def _check_received(ctx, name, rec, want, x, tag=""):
    """pass-through arguments: every received tuple must equal the mapped one (value equality of doubles)"""
    key = "%s:received-args%s" % (name, tag)
    if not rec.calls:
        # the property constrains the returned value, not the number of calls (a memoising wrapper is allowed):
        # judge by value only, against the recorder's pure value at the mapped argument
        ctx.skip("wrapped function not called for this evaluation: judged by the returned value only")
        rec.calls.append((tuple(want), rec.value(tuple(want))))
        return True
    ok = True
    for args, _ in rec.calls:
        ctx.mon("received_exact", len(want))
        if not _same(args, want):
            ctx.viol(key, "%s passed %r to the wrapped function, the mapped argument is %r" % (name, list(args), list(want)),
                     x=x, got=list(args), want=list(want))
            ok = False
    return ok


def _check_received_axes(ctx, name, rec, want, x, desc, **detail):
    """like _check_received, but judged per axis with the axis and the selected subset of optional arguments in the key"""
    if not rec.calls:
        ctx.skip("wrapped function not called for this evaluation: judged by the returned value only")
        rec.calls.append((tuple(want), rec.value(tuple(want))))
        return True
    ok = True
    for args, _ in rec.calls:
        if len(args) != len(want):
            ctx.viol("%s:received-args:%s" % (name, desc), "wrong number of arguments received", got=list(args), x=x)
            return False
        for ax, (g, w) in enumerate(zip(args, want)):
            ctx.mon("received_exact")
            if not (g == w):
                ctx.viol("%s:received-args:%s:%s" % (name, "xyz"[ax], desc),
                         "%s passed %s=%r to the wrapped function, the mapped argument is %r" % (name, "xyz"[ax], g, w),
                         x=x, got=list(args), want=list(want), **detail)
                ok = False
    return ok


def _check_value(ctx, name, got, want, x, what="returned value differs from the wrapped function's return value", tag=""):
    ctx.mon("value_exact", len(want) if isinstance(want, tuple) else 1)
    g = got if isinstance(got, tuple) else (got,)
    w = want if isinstance(want, tuple) else (want,)
    if not _same(g, w):
        ctx.viol("%s:value%s" % (name, tag), "%s: %s" % (name, what), x=x, got=list(g), want=list(w))
        return False
    return True


def _run_wrapper(case, ctx):
    cm = _mod(ctx)
    name = case["w"]
    vec = name.startswith("Vector")
    f = Rec(case["f"], vector=vec)
    cls = getattr(cm, name)
    pts = case["pts"]
    for c in case.get("cls", []):
        ctx.cls("arg:" + c)
    extra = None
    if name in ("IsoMapper2D", "IsoMapper3D"):
        extra = Rec(case["g"])
        w = cls(f, extra)
    elif name == "Swizzle2D":
        w = cls(f)
    elif name == "Swizzle3D":
        w = cls(f, tuple(case["shape"]))
    elif name in ("Slice2D", "Slice3D"):
        w = cls(f, case["axis"], case["value"])
    elif name in CYL:
        w = cls(f)
    elif name in CLAMP_IN:
        kw = {}
        for ax, (lo, hi) in zip("xyz", case["bounds"]):
            if lo is not None:
                kw[ax + "min"] = _bnum(lo, -math.inf)
            if hi is not None:
                kw[ax + "max"] = _bnum(hi, math.inf)
        w = cls(f, **kw)
        nbounds = [(_bnum(lo, -math.inf), _bnum(hi, math.inf)) for lo, hi in case["bounds"]]
        bdesc = _subset_desc(tuple(math.isfinite(lo) or math.isfinite(hi) for lo, hi in nbounds), "bounded")
        ctx.cls("%s:%s" % (name, bdesc))
    elif name in CLAMP_OUT:
        kw = {}
        lo, hi = case["bounds"]
        if lo is not None:
            kw["min"] = _bnum(lo, -math.inf)
        if hi is not None:
            kw["max"] = _bnum(hi, math.inf)
        w = cls(f, **kw)
        nbounds = (_bnum(lo, -math.inf), _bnum(hi, math.inf))
        bdesc = {(False, False): "unbounded", (True, False): "min-only", (False, True): "max-only",
                 (True, True): "min-and-max"}[(math.isfinite(nbounds[0]), math.isfinite(nbounds[1]))]
        ctx.cls("%s:%s" % (name, bdesc))
    else:
        w = cls(f, *case["periods"])
        ctx.cls("%s:%s" % (name, _subset_desc(tuple(p > 0 for p in case["periods"]), "periodic")))

    for x in pts:
        x = [float(a) for a in x]
        f.calls.clear()
        if extra is not None:
            extra.calls.clear()
        res = w(*x)
        if vec:
            res = _vec(res)
        ctx.nontrivial()
        # ---- per-family oracle -------------------------------------------------------------------
        if name in ("IsoMapper2D", "IsoMapper3D"):
            if _check_received(ctx, name, f, tuple(x), x, ":field"):
                inner = f.calls[-1][1]
                if _check_received(ctx, name, extra, (inner,), x, ":function1d"):
                    _check_value(ctx, name, res, extra.calls[-1][1], x)
        elif name == "Swizzle2D":
            if _check_received(ctx, name, f, (x[1], x[0]), x):
                _check_value(ctx, name, res, f.calls[-1][1], x)
        elif name == "Swizzle3D":
            if _check_received(ctx, name, f, tuple(x[i] for i in case["shape"]), x):
                _check_value(ctx, name, res, f.calls[-1][1], x)
        elif name in ("Slice2D", "Slice3D"):
            ax = case["axis"]
            a = ax if isinstance(ax, int) else {"x": 0, "y": 1, "z": 2}[ax.lower()]
            want = list(x)
            want.insert(a, float(case["value"]))
            if _check_received(ctx, name, f, tuple(want), x, ":axis%d" % a):
                _check_value(ctx, name, res, f.calls[-1][1], x)
        elif name in CLAMP_IN:
            want = tuple(min(max(a, lo), hi) for a, (lo, hi) in zip(x, nbounds))
            if _check_received_axes(ctx, name, f, want, x, bdesc, bounds=case["bounds"]):
                _check_value(ctx, name, res, f.calls[-1][1], x)
        elif name in CLAMP_OUT:
            if _check_received(ctx, name, f, tuple(x), x):
                _check_value(ctx, name, res, min(max(f.calls[-1][1], nbounds[0]), nbounds[1]), x,
                             "returned value is not the wrapped function's value clamped to [min, max]", tag=":" + bdesc)
        elif name in CYL:
            _judge_cyl(ctx, name, f, res, x, vec)
        else:
            _judge_periodic(ctx, name, f, res, x, case["periods"], vec)


def _judge_cyl(ctx, name, f, res, x, vec):
    has_phi = "Cylindrical" in name
    if not f.calls:
        ctx.mon("received_computed")
        ctx.viol("%s:received-args" % name, "%s did not call the wrapped function" % name, x=x)
        return
    r_want = math.hypot(x[0], x[1])
    on_axis = (x[0] == 0.0 and x[1] == 0.0)
    mxy = max(abs(x[0]), abs(x[1]))
    r_window = on_axis or (R_LO <= mxy <= R_HI)
    # mathematically, y = -0.0 is y = 0: the principal angle on the branch cut is +pi
    y_math = 0.0 if x[1] == 0.0 else x[1]
    phi_want = math.atan2(y_math, x[0]) if not on_axis else 0.0
    ok = True
    for args, _ in f.calls:
        if len(args) != (3 if has_phi else 2):
            ctx.viol("%s:received-args" % name, "wrong number of arguments received", got=list(args), x=x)
            return
        # radius: judged where sqrt(x*x + y*y) of the as-built code is exact to rounding, i.e. the larger square is a
        # normal double and the sum cannot overflow; atan2, z and the rotation are judged over the whole finite range
        if r_window:
            ctx.mon("received_computed")
            d = abs(args[0] - r_want)
            ctx.margin("received_computed", d / _tol(r_want))
            if not (d <= _tol(r_want)):
                ctx.viol("%s:received-args:r" % name, "radius passed to the wrapped function is not sqrt(x^2+y^2)",
                         x=x, got=args[0], want=r_want, tol=_tol(r_want))
                ok = False
        else:
            ctx.skip("radius not judged: max(|x|,|y|) outside [1.5e-154, 9e153] where x*x + y*y under/overflows (stated bound)")
        # z: pass-through
        ctx.mon("received_exact")
        if not (args[-1] == x[2]):
            ctx.viol("%s:received-args:z" % name, "z passed to the wrapped function is not the z argument", x=x, got=args[-1], want=x[2])
            ok = False
        if has_phi:
            if on_axis:
                ctx.skip("on the axis x=y=0 the toroidal angle is undefined: received phi not judged")
                if not (-math.pi <= args[1] <= math.pi):
                    ctx.viol("%s:received-args:phi-range" % name, "phi outside [-pi, pi] received on the axis", x=x, got=args[1])
                    ok = False
            else:
                ctx.mon("received_computed")
                d = abs(args[1] - phi_want)
                if d > _tol(phi_want) and x[1] == 0.0 and x[0] < 0 and abs(args[1] + math.pi) <= _tol(math.pi):
                    ctx.skip("phi=-pi received for y=-0.0, x<0 (IEEE signed zero): accepted as the same angle as +pi")
                    d = 0.0
                ctx.margin("received_computed", d / _tol(phi_want))
                if not (d <= _tol(phi_want)):
                    ctx.viol("%s:received-args:phi" % name, "angle passed to the wrapped function is not atan2(y, x) in radians",
                             x=x, got=args[1], want=phi_want, tol=_tol(phi_want))
                    ok = False
    if not ok:
        return
    ret = f.calls[-1][1]
    if not vec:
        _check_value(ctx, name, res, ret, x)
        return
    # vector result = R_z(phi) v
    vn = math.sqrt(ret[0] ** 2 + ret[1] ** 2 + ret[2] ** 2)
    atol = 3e-14 * vn + TINY
    ctx.mon("value_exact")
    if not (res[2] == ret[2]):
        ctx.viol("%s:value:z-component" % name, "z component of the returned vector changed by the rotation about z",
                 x=x, got=res[2], want=ret[2])
    if on_axis:
        ctx.skip("on the axis x=y=0 the rotation angle is undefined: only the length of the xy part is judged")
        ctx.mon("vector_rotation")
        d = abs(math.hypot(res[0], res[1]) - math.hypot(ret[0], ret[1]))
        ctx.margin("vector_rotation", d / atol)
        if not (d <= atol):
            ctx.viol("%s:value:not-a-rotation" % name, "returned vector is not a rotation about z of the wrapped function's vector",
                     x=x, got=list(res), inner=list(ret))
        return
    # cos / sin of the toroidal angle from exactly rescaled coordinates (power-of-two scaling: no under/overflow)
    e = math.frexp(mxy)[1]
    xs, ys = math.ldexp(x[0], -e), math.ldexp(y_math, -e)
    rs = math.hypot(xs, ys)
    c, s = xs / rs, ys / rs
    want = (ret[0] * c - ret[1] * s, ret[0] * s + ret[1] * c)
    ctx.mon("vector_rotation", 2)
    d = max(abs(res[0] - want[0]), abs(res[1] - want[1]))
    ctx.margin("vector_rotation", d / atol)
    if not (d <= atol):
        ctx.viol("%s:value:rotation%s" % (name, "" if r_window else ":where-x2+y2-under/overflows"), "returned vector is not the wrapped function's vector rotated by the toroidal angle atan2(y,x)",
                 x=x, got=list(res), want=[want[0], want[1], ret[2]], inner=list(ret), tol=atol)


def _judge_periodic(ctx, name, f, res, x, periods, vec):
    if not f.calls:
        ctx.mon("periodic_membership")
        ctx.viol("%s:received-args" % name, "%s did not call the wrapped function" % name, x=x)
        return
    ok = True
    pdesc = _subset_desc(tuple(p > 0 for p in periods), "periodic")
    for args, _ in f.calls:
        if len(args) != len(periods):
            ctx.viol("%s:received-args" % name, "wrong number of arguments received", got=list(args), x=x)
            return
        for ax, (a, xi, p) in enumerate(zip(args, x, periods)):
            axn = "xyz"[ax] + ":" + pdesc
            if p == 0.0:
                ctx.mon("received_exact")
                if not (a == xi):
                    ctx.viol("periodic:period0-not-identity:%s.%s" % (name, axn),
                             "non-periodic axis (period 0): received argument differs from the argument", x=x, got=a, want=xi)
                    ok = False
                continue
            m = Fraction(xi) % Fraction(p)          # exact, in [0, p)
            # ---- membership: the clause under test, no tolerance ---------------------------------
            ctx.mon("periodic_membership")
            if not (0.0 <= a < p):
                ok = False
                if a == p and xi < 0 and (Fraction(p) - m) <= Fraction(math.ulp(p)):
                    ctx.viol("periodic:remainder-rounds-up-to-period",
                             "inner argument equals the period (outside [0, period)): fmod(x, p) + p rounds up to p for a "
                             "negative x whose remainder is within 1 ulp of the period",
                             wrapper=name, axis=axn, x=x, period=p, periods=list(periods), got=a)
                else:
                    ctx.viol("periodic:arg-outside-[0,period):%s.%s" % (name, axn),
                             "inner argument outside [0, period)", x=x, period=p, got=a)
                continue
            # ---- congruence: arg == x (mod p) up to the rounding of one addition -----------------
            ctx.mon("periodic_congruence")
            d = abs(Fraction(a) - m)
            d = min(d, Fraction(p) - d)
            tol = _tol(float(m)) if m > 0 else TINY
            tol = max(tol, TINY)
            ctx.margin("periodic_congruence", float(d) / tol)
            if not (d <= tol):
                ctx.viol("periodic:arg-not-congruent:%s.%s" % (name, axn),
                         "inner argument is not congruent to the argument modulo the period",
                         x=x, period=p, got=a, want=float(m), tol=tol)
                ok = False
    if ok:
        _check_value(ctx, name, res, f.calls[-1][1], x)


# ---- polygon mask -----------------------------------------------------------------------------

def _pip(P, q):
    """exact crossing number; P integer vertices, q integer point (same scale); returns 1/0 or None on the boundary"""
    inside = False
    n = len(P)
    qx, qy = q
    for i in range(n):
        a, b = P[i], P[(i + 1) % n]
        if _orient(a, b, q) == 0 and _on_seg(a, b, q):
            return None
        if (a[1] > qy) != (b[1] > qy):
            # x of the edge at height qy compared with qx, exactly:  a.x + (qy-a.y)(b.x-a.x)/(b.y-a.y) > qx
            lhs = (qy - a[1]) * (b[0] - a[0]) - (qx - a[0]) * (b[1] - a[1])
            if (lhs > 0) == (b[1] - a[1] > 0):
                inside = not inside
    return 1 if inside else 0


def _dist_to_edges(verts, q):
    best = math.inf
    n = len(verts)
    for i in range(n):
        ax, ay = verts[i]
        bx, by = verts[(i + 1) % n]
        ex, ey = bx - ax, by - ay
        L2 = ex * ex + ey * ey
        t = ((q[0] - ax) * ex + (q[1] - ay) * ey) / L2 if L2 > 0 else 0.0
        t = min(1.0, max(0.0, t))
        d = math.hypot(q[0] - (ax + t * ex), q[1] - (ay + t * ey))
        if d < best:
            best = d
    return best


def _dist_to_chords(verts, q):
    """distance from q to the nearest segment joining two non-adjacent vertices (candidates for internal diagonals)"""
    best = math.inf
    n = len(verts)
    for i in range(n):
        for j in range(i + 2, n):
            if i == 0 and j == n - 1:
                continue
            d = _dist_to_edges([verts[i], verts[j]], q)
            if d < best:
                best = d
    return best


def _collinear_triple(verts, size):
    """first triple of distinct vertices that is collinear to within rounding: the cross product of the two edge vectors
    is below 1e-9 |u||v| (angle) + 1e3 eps max|coordinate| (|u|+|v|) (what double arithmetic can resolve); or None.
    (Short edges alone do not make a triple collinear.)"""
    n = len(verts)
    maxc = max(max(abs(v[0]), abs(v[1])) for v in verts)
    rnd = 1e3 * 2.220446049250313e-16 * maxc
    for i in range(n):
        ax, ay = verts[i]
        for j in range(i + 1, n):
            ux, uy = verts[j][0] - ax, verts[j][1] - ay
            lu = math.hypot(ux, uy)
            for k in range(j + 1, n):
                wx, wy = verts[k][0] - ax, verts[k][1] - ay
                lw = math.hypot(wx, wy)
                if abs(ux * wy - uy * wx) <= 1e-9 * lu * lw + rnd * (lu + lw):
                    return [i, j, k]
    return None


def _run_mask(case, ctx):
    cm = _mod(ctx)
    verts = [[float(a), float(b)] for a, b in case["vertices"]]
    if certify_simple(verts) is None:
        ctx.skip("polygon not certified simple")
        return
    ctx.cls("polygon:" + case.get("poly_kind", "?"))
    arg = verts if case.get("container", "list") == "list" else np.array(verts)
    xs = [v[0] for v in verts]
    ys = [v[1] for v in verts]
    size = math.hypot(max(xs) - min(xs), max(ys) - min(ys))
    maxc = max(abs(t) for t in xs + ys)
    edge_thr = max(1e-9 * size, 1e4 * 2.220446049250313e-16 * maxc)
    for tag in ("+short-edge", "+far-offset"):
        if tag in case.get("poly_kind", ""):
            ctx.cls("polygon-class:" + tag[1:])
    try:
        mask = cm.PolygonMask2D(arg)
    except RuntimeError as e:
        if "ear" not in str(e):
            raise
        # the documented domain is "a simple polygon": the exact certificate above says this one is
        ctx.nontrivial()
        ctx.mon("mask_points")
        col = _collinear_triple(verts, size)
        ctx.viol("PolygonMask2D:collinear-vertices:triangulation-raises" if col else "PolygonMask2D:triangulation-raises-on-simple-polygon",
                 "PolygonMask2D cannot be built for a certified-simple polygon: triangulate2d finds no ear"
                 + (" (the polygon has three vertices collinear to within rounding)" if col else ""),
                 error=str(e)[:200], poly_kind=case.get("poly_kind"), n_vertices=len(verts), collinear_triple=col)
        return
    area2 = sum(Fraction(verts[i][0]) * Fraction(verts[(i + 1) % len(verts)][1]) - Fraction(verts[(i + 1) % len(verts)][0]) * Fraction(verts[i][1])
                for i in range(len(verts)))
    orient = "ccw" if area2 > 0 else "cw"
    for q in case["pts"]:
        q = [float(q[0]), float(q[1])]
        if _dist_to_edges(verts, q) < edge_thr:
            ctx.skip("mask query point closer than max(1e-9*size, 1e4 eps*|coordinates|) to a polygon edge")
            continue
        flat = _to_ints([c for v in verts for c in v] + q)
        P = [(flat[2 * i], flat[2 * i + 1]) for i in range(len(verts))]
        want = _pip(P, (flat[-2], flat[-1]))
        if want is None:
            ctx.skip("mask query point on the boundary")
            continue
        got = mask(q[0], q[1])
        ctx.nontrivial()
        ctx.mon("mask_points")
        ctx.cls("mask:" + ("inside" if want else "outside"))
        if not (got == float(want)):
            key = "PolygonMask2D:%s-point-reported-%s" % ("inside" if want else "outside", "outside" if want else "inside")
            what = "PolygonMask2D differs from exact point-in-polygon"
            chord = _dist_to_chords(verts, q)
            on_chord = chord <= 1e-11 * (size + max(abs(t) for t in xs + ys))
            col = None if (want == 1 and got == 0.0 and on_chord) else _collinear_triple(verts, size)
            if want == 1 and got == 0.0 and on_chord:
                # mechanism: the point lies (to rounding) on a segment joining two polygon vertices, i.e. on a possible
                # internal edge of the triangulation, where both adjacent triangles of the mesh reject it
                key = "PolygonMask2D:interior-point-on-triangulation-diagonal-reported-outside"
                what = ("interior point lying within rounding distance of a vertex-to-vertex chord (internal triangulation edge) "
                        "is reported outside: the triangle mesh behind the mask is not watertight on shared edges")
            elif col:
                # mechanism: ear clipping with three (nearly) collinear vertices yields degenerate / inverted triangles
                key = "PolygonMask2D:collinear-vertices:wrong-mask"
                what = ("PolygonMask2D differs from exact point-in-polygon for a simple polygon that has three vertices collinear "
                        "to within rounding (vertices %s): the ear-clipping triangulation is invalid" % (col,))
            if key in ("PolygonMask2D:inside-point-reported-outside", "PolygonMask2D:outside-point-reported-inside"):
                pk = case.get("poly_kind", "")
                key += "".join(":" + t for t in ("short-edge", "far-offset") if "+" + t in pk)
            ctx.viol(key, what, q=q, got=got, want=want, orientation=orient, poly_kind=case.get("poly_kind"),
                     n_vertices=len(verts), dist_to_polygon_edges=_dist_to_edges(verts, q), dist_to_nearest_chord=chord)


# ---- samplers ---------------------------------------------------------------------------------

SIBLING = {"sample1d": "sample2d", "sample2d": "samplevector2d", "samplevector2d": "sample2d",
           "sample3d": "samplevector3d", "samplevector3d": "sample3d"}


def _sibling_coefs(name, sib, coefs):
    """coefficients of the recording function for the sibling sampler, derived deterministically from the case's"""
    if name == "sample1d":                       # 1-D scalar -> 2-D scalar
        return list(coefs) + [0.37]
    if sib.startswith("samplevector"):           # scalar -> vector
        return [list(coefs), list(coefs[::-1]), [0.5 * c + 0.1 for c in coefs]]
    return list(coefs[0])                        # vector -> scalar


def _run_sampler(case, ctx):
    """one sampler case = a short HISTORY of calls: the call of the case; the same call again after the caller modified every
    returned array in place; a call with different arguments (count + 1 / reversed points); for range samplers a call of
    the sibling sampler with the same (min, max, samples) triples on rotated axes.  Every call is judged against a fresh
    reference, and no returned array may share memory with another returned array, an earlier result or an input."""
    name = case["w"]
    if name in RANGE_SAMPLERS:
        spec = {"ranges": [list(r) for r in case["ranges"]]}
    elif name in POINT_SAMPLERS:
        spec = {"points": case["points"], "container": case.get("container", "list")}
    else:
        spec = {"axes": case["axes"], "container": case.get("container", "list")}
    first = _sampler_call(ctx, name, case["f"], spec, "")
    if first is None:
        return
    seen = list(first)
    _mutate(first)
    after = ":after-caller-modified-earlier-result"
    history = [(name, case["f"], spec)]                                     # the same arguments again
    if name in RANGE_SAMPLERS:
        r = spec["ranges"]
        history.append((name, case["f"], {"ranges": [[r[0][0], r[0][1], r[0][2] + 1]] + r[1:]}))     # different count
        sib = SIBLING[name]
        rr = (r + r) if name == "sample1d" else (r[1:] + r[:1])             # same triples, other axes, other sampler
        history.append((sib, _sibling_coefs(name, sib, case["f"]), {"ranges": rr}))
        history.append((name, case["f"], spec))                             # and the original call once more
    elif name in POINT_SAMPLERS:
        history.append((name, case["f"], {"points": spec["points"][::-1], "container": spec["container"]}))
    else:
        history.append((name, case["f"], {"axes": [a[::-1] for a in spec["axes"]], "container": spec["container"]}))
    for nm, coefs, sp in history:
        got = _sampler_call(ctx, nm, coefs, sp, after)
        ctx.mon("sampler_alias")
        if got is None:
            return
        for i, a in enumerate(got):
            for b_ in seen:
                ctx.mon("sampler_alias")
                if np.shares_memory(a, b_):
                    ctx.viol("%s:result-shares-memory-with-earlier-result" % nm,
                             "an array returned by the sampler shares memory with an array returned by an earlier call "
                             "(the caller's in-place changes leak into later results)", array_index=i, first_call=name)
                    break
        seen.extend(got)
        _mutate(got)


def _mutate(arrays):
    """what a caller may do with arrays it received: modify them in place"""
    for a in arrays:
        if a.flags.writeable and a.size:
            a *= 100.0
            a += 1.0


def _sampler_call(ctx, name, coefs, spec, tag):
    """call one sampler once, judge the result against a fresh reference; returns the list of returned ndarray objects"""
    cm = _mod(ctx)
    nd = SAMPLER_ND[name]
    vec = name.startswith("samplevector")
    f = Rec(coefs, vector=vec)
    fn = getattr(cm, name)
    comp = 3 if vec else 1
    inputs = []

    def expect(args):
        v = f.value(tuple(float(a) for a in args))
        return v if vec else (v,)

    if name in RANGE_SAMPLERS:
        ranges = spec["ranges"]
        out = fn(f, *[tuple(r) for r in ranges])
        ctx.nontrivial()
        if not ctx.check(isinstance(out, tuple) and len(out) == nd + 1 and all(isinstance(o, np.ndarray) for o in out),
                         "%s:return-structure" % name, "range sampler must return (axis points..., samples) as arrays", monitor="sampler_grid"):
            return None
        returned = list(out)
        grids = list(out[:nd])
        v = out[nd]
        for ax, (g, (a, b, n)) in enumerate(zip(grids, ranges)):
            axn = "xyz"[ax]
            if not tag:
                ctx.cls("count:%s" % ("1" if n == 1 else "2" if n == 2 else "3-17" if n <= 17 else ">17"))
            if not ctx.check(g.shape == (n,) and g.dtype == np.float64 and bool(np.all(np.isfinite(g))), "%s:grid-shape:%s%s" % (name, axn, tag),
                             "returned axis points have the wrong length / dtype or are not finite", monitor="sampler_grid",
                             shape=list(g.shape), n=n, range=[a, b]):
                return None
            fa, fb = float(a), float(b)
            if n == 1:
                if fa < fb:
                    ctx.skip("1 sample on a range with min<max: both end points cannot be included (only min<=x0<=max judged)")
                ctx.check(fa <= g[0] <= fb, "%s:grid-single-point-outside-range:%s%s" % (name, axn, tag),
                          "single sample point outside [min, max]", monitor="sampler_grid", got=float(g[0]), range=[a, b])
                continue
            ctx.check(g[0] == fa and g[-1] == fb, "%s:grid-end-points:%s%s" % (name, axn, tag),
                      "sample grid does not include both end points", monitor="sampler_grid",
                      got=[float(g[0]), float(g[-1])], want=[fa, fb], n=n)
            Fa, Fb = Fraction(fa), Fraction(fb)
            scale = max(abs(fa), abs(fb))
            tol = 4 * ULPS * math.ulp(scale) + TINY      # numpy: start + i*step, step rounded once: ~2 ulp of the scale
            worst = 0.0
            for i in range(n):
                want = Fa + (Fb - Fa) * i / (n - 1)
                worst = max(worst, float(abs(Fraction(float(g[i])) - want)))
            ctx.mon("sampler_grid", n)
            ctx.margin("sampler_grid", worst / tol)
            if not (worst <= tol):
                ctx.viol("%s:grid-not-evenly-spaced:%s%s" % (name, axn, tag), "sample points are not min + i (max-min)/(n-1)",
                         got=[float(t) for t in g[:6]], range=[a, b], n=n, worst=worst, tol=tol)
        shape = tuple(int(r[2]) for r in ranges) + ((3,) if vec else ())
        coords = [[float(t) for t in g] for g in grids]
    elif name in POINT_SAMPLERS:
        pts = spec["points"]
        cont = spec["container"]
        if not tag:
            ctx.cls("container:" + cont)
        if nd == 1:
            arg = _container(cont if cont != "fortran" else "array", [p[0] for p in pts])
        else:
            arg = _container(cont, pts)
        if isinstance(arg, np.ndarray):
            inputs.append(arg)
        conv = np.array(arg, dtype=float).reshape(len(pts), nd)
        v = fn(f, arg)
        ctx.nontrivial()
        shape = (len(pts),) + ((3,) if vec else ())
        if not ctx.check(isinstance(v, np.ndarray) and v.shape == shape and v.dtype == np.float64, "%s:shape%s" % (name, tag),
                         "returned sample array has the wrong type / shape / dtype", monitor="sampler_entries", want=list(shape)):
            return None
        returned = [v]
        bad = None
        for i in range(len(pts)):
            want = expect(conv[i])
            got = tuple(float(t) for t in np.atleast_1d(v[i]))
            ctx.mon("sampler_entries", comp)
            if not _same(got, want) and bad is None:
                bad = (i, got, want)
        if bad:
            ctx.viol("%s:entry%s" % (name, tag), "entry [i] of the sample array is not the function at point i",
                     index=bad[0], got=list(bad[1]), want=list(bad[2]), point=[float(t) for t in conv[bad[0]]])
        _received_cover(ctx, name, f, [tuple(float(t) for t in row) for row in conv], tag)
        if isinstance(arg, np.ndarray):
            ctx.mon("sampler_alias")
            if not np.array_equal(np.asarray(arg, dtype=float).reshape(len(pts), nd), conv):
                ctx.viol("%s:input-array-modified" % name, "the sampler modified the caller's points array")
        return _alias_check(ctx, name, returned, inputs)
    else:
        axes = spec["axes"]
        cont = spec["container"]
        if not tag:
            ctx.cls("container:" + cont)
        args = [_container(cont, a) for a in axes]
        inputs = [a for a in args if isinstance(a, np.ndarray)]
        v = fn(f, *args)
        ctx.nontrivial()
        shape = tuple(len(a) for a in axes) + ((3,) if vec else ())
        coords = [[float(t) for t in a] for a in axes]
        returned = [v]
        for a_in, a_ref in zip(args, axes):
            if isinstance(a_in, np.ndarray):
                ctx.mon("sampler_alias")
                if not np.array_equal(a_in, np.array(a_ref, dtype=float)):
                    ctx.viol("%s:input-array-modified" % name, "the sampler modified the caller's coordinate array")

    if not ctx.check(isinstance(v, np.ndarray) and v.shape == shape and v.dtype == np.float64, "%s:shape%s" % (name, tag),
                     "returned sample array has the wrong type / shape / dtype", monitor="sampler_entries", want=list(shape)):
        return None
    bad = None
    nbad = 0
    grid_pts = []
    for idx in np.ndindex(*shape[:nd]):
        p = tuple(coords[ax][i] for ax, i in enumerate(idx))
        grid_pts.append(p)
        want = expect(p)
        got = tuple(float(t) for t in np.atleast_1d(v[idx]))
        ctx.mon("sampler_entries", comp)
        if not _same(got, want):
            nbad += 1
            if bad is None:
                bad = (idx, got, want, p)
    if bad:
        ctx.viol("%s:entry%s" % (name, tag), "entry [i,j,k] of the sample array is not the function at (x_i, y_j, z_k)",
                 index=list(bad[0]), got=list(bad[1]), want=list(bad[2]), point=list(bad[3]), n_bad=nbad, shape=list(shape))
    _received_cover(ctx, name, f, grid_pts, tag)
    return _alias_check(ctx, name, returned, inputs)


def _alias_check(ctx, name, returned, inputs):
    """arrays returned by ONE call must be distinct memory, also distinct from the caller's input arrays"""
    for i in range(len(returned)):
        for j in range(i + 1, len(returned)):
            ctx.mon("sampler_alias")
            if np.shares_memory(returned[i], returned[j]):
                ctx.viol("%s:returned-arrays-share-memory" % name, "two arrays returned by one sampler call share memory "
                         "(modifying one changes the other)", arrays=[i, j])
        for a in inputs:
            ctx.mon("sampler_alias")
            if np.shares_memory(returned[i], a):
                ctx.viol("%s:result-shares-memory-with-input" % name, "a returned array shares memory with an input array", array=i)
    return returned


def _received_cover(ctx, name, f, pts, tag=""):
    """argument recorder for samplers: every sample point must have been received by the function"""
    got = set(a for a, _ in f.calls)
    missing = [p for p in pts if p not in got]
    ctx.mon("received_exact", len(pts))
    if missing:
        ctx.viol("%s:point-never-evaluated%s" % (name, tag), "the function was never called at a sample point",
                 missing=[list(m) for m in missing[:3]], n_missing=len(missing), n_calls=len(f.calls))


# ==============================================================================================
# NESTED COMPOSITIONS: wrappers wrapping wrappers (depth 2-3) around one recording leaf
# ==============================================================================================
# A chain is {"layers": [outermost, ..., innermost], "f": leaf coefficients}.  Every layer is split by the reference into
#   * an argument map (going inwards): clamp-input, swizzle, slice, periodic reduction, (r, phi, z) / (r, z); identity for
#     clamp-output and iso-mappers;
#   * a value map (going outwards): clamp-output, g(.) of an iso-mapper (g = recording leaf or a 1-D chain of its own),
#     rotation about z for the vector geometric mappers; identity otherwise.
# Arguments are propagated as (value, tolerance, modulus): exact maps keep tolerance 0, periodic reduction / hypot / atan2
# add their rounding allowance, a modulus marks "defined modulo the period" (compared circularly, membership exact).
# The recording leaf checks what reaches the innermost function; the returned value must equal the value maps applied to
# the leaf's recorded return value (bit-equal for scalars).

N_EXPOSE = {   # exposed dimension -> [(class, wrapped dimension)]
    1: [("ClampOutput1D", 1), ("ClampInput1D", 1), ("PeriodicTransform1D", 1), ("Slice2D", 2)],
    2: [("ClampOutput2D", 2), ("ClampInput2D", 2), ("PeriodicTransform2D", 2), ("Swizzle2D", 2), ("IsoMapper2D", 2), ("Slice3D", 3)],
    3: [("ClampOutput3D", 3), ("ClampInput3D", 3), ("PeriodicTransform3D", 3), ("Swizzle3D", 3), ("IsoMapper3D", 3),
        ("CylindricalTransform", 3), ("AxisymmetricMapper", 2)],
}
N_EXPOSE_VEC = {
    1: [("VectorPeriodicTransform1D", 1)],
    2: [("VectorPeriodicTransform2D", 2)],
    3: [("VectorPeriodicTransform3D", 3), ("VectorCylindricalTransform", 3), ("VectorAxisymmetricMapper", 2)],
}
_GEOM = ("CylindricalTransform", "AxisymmetricMapper", "VectorCylindricalTransform", "VectorAxisymmetricMapper")
_NPERIODS = [1.0, 0.3, 2 * math.pi, 360.0, 2.0, 0.125, 7.5]


def _n_layer(rng, cname, interesting):
    """random parameters of one layer; 'interesting' collects scalars around which points are generated"""
    L = {"c": cname}
    if cname.startswith("ClampOutput"):
        L["bounds"] = [None, None]           # filled by _n_clamp_ranges (needs the whole chain)
    elif cname.startswith("ClampInput"):
        nd = int(cname[-2])
        b = []
        for _ in range(nd):
            lo = float(rng.uniform(-3, 2))
            hi = lo + float(rng.uniform(0.1, 3))
            if rng.random() < 0.2:
                lo, hi = float(int(lo)), float(int(lo) + int(rng.integers(1, 3)))
            b.append([_opt_bound(rng, lo, "-inf"), _opt_bound(rng, hi, "inf")])
            interesting += [lo, hi]
        L["bounds"] = b
    elif cname == "Swizzle3D":
        L["shape"] = [int(i) for i in rng.integers(3, size=3)]
    elif cname.startswith("Slice"):
        nd = 2 if cname == "Slice2D" else 3
        L["axis"] = _axis_sel(rng, nd)
        L["value"] = float(rng.uniform(-3, 3)) if rng.random() < 0.7 else _hostile(rng)[0]
        interesting.append(L["value"])
    elif "PeriodicTransform" in cname:
        nd = int(cname[-2])
        L["periods"] = [0.0 if (nd > 1 and rng.random() < 0.3) else
                        (_NPERIODS[int(rng.integers(len(_NPERIODS)))] if rng.random() < 0.7 else float(10 ** rng.uniform(-1, 1)))
                        for _ in range(nd)]
        for p in L["periods"]:
            if p > 0:
                interesting += [p * int(rng.integers(-3, 4)), p * 0.5, -p]
    elif cname.startswith("IsoMapper"):
        if rng.random() < 0.4:
            L["g"] = _n_chain(rng, 1, False, int(rng.integers(1, 3)), allow_geom=False, allow_iso=False)
        else:
            L["g"] = _coefs(rng, 1)
    return L


def _n_chain(rng, d0, vector, depth, allow_geom=True, allow_iso=True):
    table = N_EXPOSE_VEC if vector else N_EXPOSE
    layers, d, prev, geom = [], d0, None, not allow_geom
    interesting = []
    for _ in range(depth):
        cand = [(c, w) for c, w in table[d] if not (geom and c in _GEOM) and (allow_iso or not c.startswith("IsoMapper"))]
        same = [(c, w) for c, w in cand if prev is not None and c[:-2] == prev[:-2] and w == d]
        if same and rng.random() < 0.45:
            c, w = same[0]                           # a wrapper wrapping an instance of its own class
        else:
            c, w = cand[int(rng.integers(len(cand)))]
        geom = geom or c in _GEOM
        layers.append(_n_layer(rng, c, interesting))
        prev, d = c, w
    chain = {"layers": layers, "f": _coefs(rng, d, vector), "leaf_dim": d, "dim": d0}
    _n_clamp_ranges(rng, chain)
    chain["interesting"] = [float(t) for t in interesting][:24]
    return chain


def _n_clamp_ranges(rng, chain):
    """bounds of the ClampOutput layers: relative to the leaf's value range, consecutive ones in a drawn relation
    (overlapping / touching / contained / disjoint, either order)"""
    outs = [L for L in chain["layers"] if L["c"].startswith("ClampOutput")]
    if not outs:
        return
    c = chain["f"]
    c0 = c[0]
    S = sum(abs(t) for t in c[1:]) or 1.0
    prev = None
    for L in outs[::-1]:                              # innermost first
        if prev is None:
            lo = c0 + float(rng.uniform(-0.8, 0.2)) * S
            hi = lo + float(rng.uniform(0.1, 0.8)) * S
        else:
            plo, phi_ = prev
            w = phi_ - plo
            rel = int(rng.integers(6))
            if rel == 0:                              # disjoint above
                lo = phi_ + float(rng.uniform(0.05, 0.5)) * w
                hi = lo + float(rng.uniform(0.1, 1)) * w
            elif rel == 1:                            # disjoint below
                hi = plo - float(rng.uniform(0.05, 0.5)) * w
                lo = hi - float(rng.uniform(0.1, 1)) * w
            elif rel == 2:                            # touching
                if rng.random() < 0.5:
                    lo, hi = phi_, phi_ + float(rng.uniform(0.1, 1)) * w
                else:
                    lo, hi = plo - float(rng.uniform(0.1, 1)) * w, plo
            elif rel == 3:                            # contained in the inner range
                lo = plo + float(rng.uniform(0.1, 0.4)) * w
                hi = phi_ - float(rng.uniform(0.1, 0.4)) * w
            elif rel == 4:                            # containing the inner range
                lo, hi = plo - float(rng.uniform(0.1, 1)) * w, phi_ + float(rng.uniform(0.1, 1)) * w
            else:                                     # overlapping
                lo = plo + float(rng.uniform(0.2, 0.8)) * w
                hi = phi_ + float(rng.uniform(0.1, 1)) * w
            if not lo < hi:
                hi = lo + abs(lo) * 0.5 + 1.0
        prev = (lo, hi)
        L["bounds"] = [_opt_bound(rng, lo, "-inf") if rng.random() < 0.3 else lo, _opt_bound(rng, hi, "inf") if rng.random() < 0.3 else hi]


def _n_points(rng, chain, n):
    d = chain["dim"]
    inter = list(chain.get("interesting", []))
    for L in chain["layers"]:
        if isinstance(L.get("g"), dict):
            inter += L["g"].get("interesting", [])
    pts = []
    for _ in range(n):
        p = []
        for _ in range(d):
            k = rng.random()
            if k < 0.4 and inter:
                p.append(_nudge(rng, inter[int(rng.integers(len(inter)))]) + (0.0 if rng.random() < 0.5 else float(rng.uniform(-1, 1))))
            elif k < 0.7:
                p.append(float(rng.uniform(-5, 5)))
            else:
                p.append(_hostile(rng)[0])
        pts.append(p)
    return pts


def _gen_nested(rng, vector):
    d0 = int(rng.integers(2, 4)) if vector and rng.random() < 0.8 else int(rng.integers(1, 4))
    if vector and rng.random() < 0.6:
        d0 = 3
    chain = _n_chain(rng, d0, vector, int(rng.integers(2, 4)))
    case = {"w": "nested_vector" if vector else "nested", "chain": chain, "pts": _n_points(rng, chain, int(rng.integers(6, 25)))}
    if rng.random() < 0.25 and not (vector and d0 == 1):
        case["sampler"] = ["points", "grid"][int(rng.integers(2))] if d0 > 1 else "points"
    return case


def _gen_stored(rng):
    """evaluation SEQUENCE (several angles, repeated points) of 0-2 wrappers around a function handing out a stored object"""
    vector = rng.random() < 0.8
    depth = int(rng.integers(0, 3)) if vector else int(rng.integers(1, 3))
    d0 = 3 if (vector and rng.random() < 0.6) else int(rng.integers(2 if vector and depth == 0 else 1, 4))
    chain = _n_chain(rng, d0, vector, depth, allow_iso=False)
    ld = chain["leaf_dim"]
    kind = "constant" if (ld >= 2 or not vector) and rng.random() < 0.5 else "stored"
    if not vector:
        kind = "constant"
    val = [float(t) for t in rng.normal(size=3) * 10 ** rng.uniform(-1, 1)] if vector else float(rng.normal() * 10 ** rng.uniform(-1, 1))
    chain["leaf"] = {"kind": kind, "value": val}
    pts = _n_points(rng, chain, int(rng.integers(6, 16)))
    for _ in range(int(rng.integers(3, 9))):                 # ordinary radii at several toroidal angles
        th = float(rng.uniform(-math.pi, math.pi))
        r = float(rng.uniform(0.2, 5))
        p = [r * math.cos(th), r * math.sin(th), float(rng.uniform(-2, 2))][:d0]
        pts.insert(int(rng.integers(len(pts) + 1)), p)
    for _ in range(int(rng.integers(2, 6))):                 # repeated points
        pts.insert(int(rng.integers(len(pts) + 1)), list(pts[int(rng.integers(len(pts)))]))
    case = {"w": "stored_leaf", "vector": vector, "chain": chain, "pts": pts}
    if (depth == 0 or rng.random() < 0.3) and not (vector and d0 == 1):
        case["sampler"] = "points"
    return case


def _n_names(chain):
    out = []
    for L in chain["layers"]:
        n = L["c"]
        if isinstance(L.get("g"), dict):
            n += "[g=%s]" % _n_names(L["g"])
        out.append(n)
    return "(".join(out) + ")" * (len(out) - 1)


def _n_relation(chain):
    """range relation of the first pair of directly nested ClampOutput layers (for the violation key)"""
    Ls = chain["layers"]
    for a, b in zip(Ls, Ls[1:]):
        if a["c"].startswith("ClampOutput") and b["c"].startswith("ClampOutput"):
            olo, ohi = _bnum(a["bounds"][0], -math.inf), _bnum(a["bounds"][1], math.inf)
            ilo, ihi = _bnum(b["bounds"][0], -math.inf), _bnum(b["bounds"][1], math.inf)
            if ohi < ilo or ihi < olo:
                return ":disjoint-ranges"
            if ohi == ilo or ihi == olo:
                return ":touching-ranges"
            if (olo <= ilo and ihi <= ohi) or (ilo <= olo and ohi <= ihi):
                return ":contained-ranges"
            return ":overlapping-ranges"
    return ""


class StoredLeaf:
    """Innermost function that hands out the SAME stored object on every call: a Python callable returning a kept
    Vector3D ("stored"), or the library's ConstantVector2D/3D / Constant1D/2D/3D ("constant", no recording possible)."""

    def __init__(self, cm, spec, vector, dim):
        self.calls = []
        self.vector = vector
        self.constant = spec["kind"] == "constant"
        self.v0 = tuple(float(t) for t in spec["value"]) if vector else float(spec["value"])
        if vector:
            from raysect.core.math import Vector3D
            self._v = Vector3D(*self.v0)
        if self.constant:
            self.target = getattr(cm, ("ConstantVector%dD" if vector else "Constant%dD") % dim)(self._v if vector else self.v0)
            self._probe = [0.0] * dim
        else:
            self.target = self

    def __call__(self, *args):
        self.calls.append((tuple(float(a) for a in args), self.v0))
        return self._v

    def value(self, args):
        return self.v0

    def stored_now(self):
        """what the wrapped function holds / hands out now"""
        if self.constant:
            r = self.target(*self._probe)
            return _vec(r) if self.vector else r
        return _vec(self._v)


def _n_build(cm, chain, vector):
    """construct the real nested object; returns (object, leaf recorder, per-layer runtime info)"""
    if chain.get("leaf"):
        leaf = StoredLeaf(cm, chain["leaf"], vector, chain["leaf_dim"])
        obj = leaf.target
    else:
        leaf = Rec(chain["f"], vector=vector)
        obj = leaf
    rt = [None] * len(chain["layers"])
    for i in range(len(chain["layers"]) - 1, -1, -1):
        L = chain["layers"][i]
        c = L["c"]
        cls = getattr(cm, c)
        if c.startswith("IsoMapper"):
            if isinstance(L["g"], dict):
                gobj, gleaf, grt = _n_build(cm, L["g"], False)
                rt[i] = {"gchain": L["g"], "gleaf": gleaf, "grt": grt}
            else:
                gobj = Rec(L["g"])
                rt[i] = {"gleaf": gobj}
            obj = cls(obj, gobj)
        elif c.startswith("ClampOutput"):
            kw = {}
            if L["bounds"][0] is not None:
                kw["min"] = _bnum(L["bounds"][0], -math.inf)
            if L["bounds"][1] is not None:
                kw["max"] = _bnum(L["bounds"][1], math.inf)
            obj = cls(obj, **kw)
        elif c.startswith("ClampInput"):
            kw = {}
            for ax, (lo, hi) in zip("xyz", L["bounds"]):
                if lo is not None:
                    kw[ax + "min"] = _bnum(lo, -math.inf)
                if hi is not None:
                    kw[ax + "max"] = _bnum(hi, math.inf)
            obj = cls(obj, **kw)
        elif c == "Swizzle3D":
            obj = cls(obj, tuple(L["shape"]))
        elif c.startswith("Slice"):
            obj = cls(obj, L["axis"], L["value"])
        elif "PeriodicTransform" in c:
            obj = cls(obj, *L["periods"])
        else:
            obj = cls(obj)
    return obj, leaf, rt


def _n_clear(leaf, rt):
    leaf.calls.clear()
    for r in rt:
        if r:
            r["gleaf"].calls.clear()
            if "grt" in r:
                _n_clear(r["gleaf"], r["grt"])


def _decirc(co):
    """a coordinate defined modulo c used by a non-periodic map: plain tolerance unless it is within tolerance of the wrap"""
    if co is None or co[2] is None:
        return co
    v, t, c = co
    if min(v, c - v) <= t:
        return None
    return (v, t, None)


def _n_forward(L, coords):
    """argument map of one layer on (value, tol, modulus) coordinates; None = not judged.  Also returns the geometry
    record (x, y exact or None) needed by the vector rotation."""
    c = L["c"]
    geo = None
    if c.startswith("ClampInput"):
        out = []
        for co, (lo, hi) in zip(coords, L["bounds"]):
            co = _decirc(co)
            if co is None:
                out.append(None)
            else:
                out.append((min(max(co[0], _bnum(lo, -math.inf)), _bnum(hi, math.inf)), co[1], None))
        return out, geo
    if c == "Swizzle2D":
        return [coords[1], coords[0]], geo
    if c == "Swizzle3D":
        return [coords[i] for i in L["shape"]], geo
    if c.startswith("Slice"):
        ax = L["axis"]
        a = ax if isinstance(ax, int) else {"x": 0, "y": 1, "z": 2}[ax.lower()]
        out = list(coords)
        out.insert(a, (float(L["value"]), 0.0, None))
        return out, geo
    if "PeriodicTransform" in c:
        out = []
        for co, p in zip(coords, L["periods"]):
            if p == 0.0 or co is None:
                out.append(co)
                continue
            co = _decirc(co) if co[2] != p else co
            if co is None:
                out.append(None)
                continue
            m = float(Fraction(co[0]) % Fraction(p))
            out.append((m, co[1] + _tol(m), p))
        return out, geo
    if c in _GEOM:
        cx, cy, cz = _decirc(coords[0]), _decirc(coords[1]), coords[2]
        if cx is None or cy is None or cx[1] != 0.0 or cy[1] != 0.0:
            r = phi = None
        else:
            x, y = cx[0], cy[0]
            geo = (x, y)
            mxy = max(abs(x), abs(y))
            r = (math.hypot(x, y), _tol(math.hypot(x, y)), None) if (mxy == 0.0 or R_LO <= mxy <= R_HI) else None
            if mxy == 0.0 or (y == 0.0 and x < 0):
                phi = None                         # axis / branch cut: judged by the single-wrapper cases
            else:
                a = math.atan2(y, x)
                phi = (a, _tol(a), None)
        return ([r, phi, cz] if "Cylindrical" in c else [r, cz]), geo
    return list(coords), geo                       # ClampOutput, IsoMapper: arguments pass through


def _n_judge(ctx, label, chain, rt, leaf, coords, vector, x, rel=""):
    """judge one evaluation of a chain whose exposed arguments are `coords`; returns ("ok", value, atol) / ("skip",) / ("bad",)"""
    layers = chain["layers"]
    geos = []
    for L in layers:
        coords, geo = _n_forward(L, coords)
        geos.append(geo)
    if not leaf.calls and getattr(leaf, "constant", False):
        leaf.calls.append((None, leaf.v0))          # library constant: no recording possible, the value is argument-free
    if not leaf.calls:
        if any(co is None or co[1] != 0.0 for co in coords):
            ctx.skip("nested: innermost function not called and its arguments are not exactly determined: not judged")
            return ("skip",)
        args = tuple(co[0] for co in coords)
        leaf.calls.append((args, leaf.value(args)))
    for args, _ in leaf.calls:
        if args is None:
            continue
        if len(args) != len(coords):
            ctx.viol("nested:%s:leaf-args" % label, "wrong number of arguments reached the innermost function", x=x, got=list(args))
            return ("bad",)
        for ax, (a, co) in enumerate(zip(args, coords)):
            if co is None:
                if not math.isfinite(a):
                    # e.g. an overflowed radius (outside its judged window) went through an inner map: nothing downstream is defined
                    ctx.skip("nested: a non-finite value from an unjudged radius reached the innermost function: evaluation not judged")
                    return ("skip",)
                ctx.skip("nested: a leaf argument is not judged (branch cut / axis / radius outside its window / wrap ambiguity)")
                continue
            v, t, c = co
            ctx.mon("nested_leaf_args")
            if c is not None:
                ok = 0.0 <= a < c
                d = abs(a - v)
                d = min(d, abs(c - d))
                ok = ok and d <= t
            elif t == 0.0:
                ok, d = (a == v), 0.0
            else:
                d = abs(a - v)
                ok = d <= t
            if t > 0:
                ctx.margin("nested_leaf_args", d / t)
            if not ok:
                ctx.viol("nested:%s:leaf-args:%s" % (label, "xyz"[ax]),
                         "argument reaching the innermost function differs from the mathematical composition of the argument maps",
                         x=x, got=list(args), want=[None if q is None else q[0] for q in coords], tol=t, modulus=c, chain=_n_describe(chain))
                return ("bad",)
    val = leaf.calls[-1][1]
    atol = 0.0
    for i in range(len(layers) - 1, -1, -1):
        L = layers[i]
        c = L["c"]
        if c.startswith("ClampOutput"):
            val = min(max(val, _bnum(L["bounds"][0], -math.inf)), _bnum(L["bounds"][1], math.inf))
        elif c.startswith("IsoMapper"):
            r = rt[i]
            if "gchain" in r:
                res = _n_judge(ctx, label + ":g", r["gchain"], r["grt"], r["gleaf"], [(val, 0.0, None)], False, x)
                if res[0] != "ok":
                    return res
                val = res[1]
            else:
                g = r["gleaf"]
                if not g.calls:
                    g.calls.append(((val,), g.value((val,))))
                ctx.mon("nested_leaf_args")
                if not (g.calls[-1][0] == (val,)):
                    ctx.viol("nested:%s:function1d-arg" % label, "function1d of the iso-mapper did not receive the inner value",
                             x=x, got=list(g.calls[-1][0]), want=val)
                    return ("bad",)
                val = g.calls[-1][1]
        elif c in ("VectorCylindricalTransform", "VectorAxisymmetricMapper"):
            geo = geos[i]
            if geo is None or (geo[0] == 0.0 and geo[1] == 0.0):
                ctx.skip("nested: rotation angle not exactly determined (approximate or axis coordinates): value not judged")
                return ("skip",)
            xx, yy = geo[0], (0.0 if geo[1] == 0.0 else geo[1])
            e = math.frexp(max(abs(xx), abs(yy)))[1]
            xs, ys = math.ldexp(xx, -e), math.ldexp(yy, -e)
            rs = math.hypot(xs, ys)
            cs, sn = xs / rs, ys / rs
            vn = math.sqrt(val[0] ** 2 + val[1] ** 2 + val[2] ** 2)
            val = (val[0] * cs - val[1] * sn, val[0] * sn + val[1] * cs, val[2])
            atol += 3e-14 * vn + TINY
    return ("ok", val, atol)


def _n_describe(chain):
    return [{k: v for k, v in L.items() if k != "g"} for L in chain["layers"]]


def _run_nested(case, ctx):
    cm = _mod(ctx)
    vector = bool(case.get("vector", case["w"] == "nested_vector"))
    chain = case["chain"]
    label = _n_names(chain) if chain["layers"] else "(no wrapper)"
    stored = chain.get("leaf")
    if stored:
        label += "<%s>" % (("ConstantVector%dD" if vector else "Constant%dD") % chain["leaf_dim"] if stored["kind"] == "constant" else "stored-vector")
    kept = []                                     # (result object, components when it was returned)
    rel = _n_relation(chain)
    obj, leaf, rt = _n_build(cm, chain, vector)
    ctx.cls("nested:depth%d" % len(chain["layers"]))
    names = [L["c"] for L in chain["layers"]]
    for a, b in zip(names, names[1:]):
        ctx.cls("nested:%s-of-%s" % (a[:-2] if a[-1] == "D" else a, b[:-2] if b[-1] == "D" else b))
    direct = []
    for x in case["pts"]:
        x = [float(t) for t in x]
        _n_clear(leaf, rt)
        res = obj(*x)
        if stored:
            # the wrapped function must be USED, not modified: what it holds is bit-identical after the call, and results
            # handed out earlier keep their value
            ctx.mon("stored_leaf_state")
            now = leaf.stored_now()
            if not (now == leaf.v0):
                ctx.viol("stored-leaf:%s:wrapped-function-state-modified" % label,
                         "after the evaluation the object stored / returned by the wrapped function is no longer what it was",
                         x=x, now=list(now) if vector else now, original=list(leaf.v0) if vector else leaf.v0, n_calls_before=len(kept))
                return
            for i, (o, snap) in enumerate(kept):
                ctx.mon("stored_leaf_state")
                if not (_vec(o) == snap):
                    ctx.viol("stored-leaf:%s:earlier-result-changed" % label, "a result returned by an earlier evaluation changed its value afterwards",
                             x=x, earlier_index=i, was=list(snap), now=list(_vec(o)))
                    return
            if vector:
                kept.append((res, _vec(res)))
        if vector:
            res = _vec(res)
        direct.append(res)
        ctx.nontrivial()
        out = _n_judge(ctx, label, chain, rt, leaf, [(t, 0.0, None) for t in x], vector, x, rel)
        if out[0] != "ok":
            continue
        _, val, atol = out
        if vector:
            ctx.mon("nested_value", 3)
            d = max(abs(a - b) for a, b in zip(res, val))
            if atol > 0:
                ctx.margin("nested_value", d / atol)
            ok = d <= atol
        else:
            ctx.mon("nested_value")
            ok = (res == val)
        if not ok:
            ctx.viol("nested:%s:value%s" % (label, rel),
                     "value returned by the nested wrappers is not the mathematical composition applied to the innermost function's value",
                     x=x, got=list(res) if vector else res, want=list(val) if vector else val, chain=_n_describe(chain))
    # samplers of wrapped functions: every entry must equal the directly evaluated nested wrapper at that point
    smp = case.get("sampler")
    if smp:
        d = chain["dim"]
        pre = "samplevector" if vector else "sample"
        if smp == "points":
            fn = getattr(cm, "%s%dd_points" % (pre, d))
            arr = np.array(case["pts"], dtype=float)
            v = np.asarray(fn(obj, arr[:, 0] if d == 1 else arr))
            want = np.array(direct, dtype=float)
        else:
            fn = getattr(cm, "%s%dd_grid" % (pre, d))
            axes = [sorted(set(float(p[a]) for p in case["pts"][:5])) for a in range(d)]
            v = np.asarray(fn(obj, *axes))
            want = np.empty(v.shape)
            for idx in np.ndindex(*[len(a) for a in axes]):
                r = obj(*[axes[a][i] for a, i in enumerate(idx)])
                want[idx] = _vec(r) if vector else r
        if stored:
            ctx.mon("stored_leaf_state")
            now = leaf.stored_now()
            if not (now == leaf.v0):
                ctx.viol("stored-leaf:%s:wrapped-function-state-modified:by-%s" % (label, fn.__name__),
                         "after sampling, the object stored / returned by the wrapped function is no longer what it was",
                         now=list(now) if vector else now, original=list(leaf.v0) if vector else leaf.v0)
                return
        ctx.mon("nested_value", int(want.size))
        if v.shape != want.shape or not np.array_equal(v, want, equal_nan=True):
            ctx.viol("nested:sampler-of-wrapper:%s:entry" % fn.__name__, "sampler entry differs from the directly evaluated nested wrapper",
                     chain=_n_describe(chain), shape=list(v.shape))


def _nested_fixed():
    """deterministic nested cases: every wrapper class wrapping an instance of its own class and of every other compatible
    class (depth 2), clamp-of-clamp in all range relations and both orders, all 27x27 swizzle-of-swizzle shapes,
    periodic-of-periodic with different periods, and a few depth-3 chains"""
    out = []
    fl = {1: [0.3, 1.7, -0.9], 2: [0.3, 1.7, -0.9, 0.4], 3: [0.3, 1.7, -0.9, 2.1, 0.4]}
    vl = {d: [fl[d], [1.0, -2.0, 0.5, 0.3, -0.6][:d + 2], [-0.7, 0.2, 0.1, 0.9, 1.1][:d + 2]] for d in (1, 2, 3)}
    vals = [-4.0, -1.0, -0.3, -0.0, 0.2, 0.5, 1.0, 2.75, 7.0, -1e-20, 361.0]

    def pts(d):
        base = [[v] * d for v in vals]
        return base + [[vals[(i + 3 * a) % len(vals)] for a in range(d)] for i in range(len(vals))]

    def layer(c, variant=0):
        if c.startswith("ClampOutput"):
            return {"c": c, "bounds": [[0.0, 1.0], [-0.5, 0.4]][variant]}
        if c.startswith("ClampInput"):
            return {"c": c, "bounds": [[[0.0, 1.0], [-1.0, None], [None, 0.25]], [[0.5, 2.0], [None, 0.0], [-1.0, 3.0]]][variant][:int(c[-2])]}
        if c == "Swizzle3D":
            return {"c": c, "shape": [[1, 0, 1], [2, 0, 1]][variant]}
        if c.startswith("Slice"):
            return {"c": c, "axis": [1, "x"][variant], "value": [1.25, -0.75][variant]}
        if "PeriodicTransform" in c:
            return {"c": c, "periods": [[1.0, 0.0, 360.0], [0.3, 2.0, 0.0]][variant][:int(c[-2])]}
        if c.startswith("IsoMapper"):
            return {"c": c, "g": [fl[1], {"layers": [{"c": "ClampOutput1D", "bounds": [0.1, 0.8]}], "f": fl[1], "leaf_dim": 1, "dim": 1}][variant]}
        return {"c": c}

    for vector, table, leafs, tag in ((False, N_EXPOSE, fl, "nested"), (True, N_EXPOSE_VEC, vl, "nested_vector")):
        for d0 in (1, 2, 3):
            for c1, w1 in table[d0]:
                for c2, w2 in table[w1]:
                    if c1 in _GEOM and c2 in _GEOM:
                        continue
                    ch = {"layers": [layer(c1, 0), layer(c2, 1)], "f": leafs[w2], "leaf_dim": w2, "dim": d0}
                    case = {"w": tag, "chain": ch, "pts": pts(d0)}
                    if not (vector and d0 == 1):
                        case["sampler"] = "points"
                    out.append(case)
    # clamp of clamp: overlapping / touching / contained (both ways) / disjoint (both orders), incl. default and explicit inf
    rel = [([0.0, 1.0], [0.5, 2.0]), ([0.5, 2.0], [0.0, 1.0]), ([0.0, 1.0], [1.0, 2.0]), ([1.0, 2.0], [0.0, 1.0]),
           ([0.0, 3.0], [1.0, 2.0]), ([1.0, 2.0], [0.0, 3.0]), ([0.0, 1.0], [2.0, 3.0]), ([2.0, 3.0], [0.0, 1.0]),
           ([None, 1.0], [2.0, None]), ([2.0, "inf"], ["-inf", 1.0]), ([None, None], [0.0, 1.0]), ([0.0, 1.0], [None, None])]
    wide = {1: [1.0, 6.0, 0.0], 2: [1.0, 6.0, 0.0, 0.0], 3: [1.0, 6.0, 0.0, 0.0, 0.0]}      # leaf values spread over about [-5, 7]
    for d in (1, 2, 3):
        for o, i in rel:
            out.append({"w": "nested", "chain": {"layers": [{"c": "ClampOutput%dD" % d, "bounds": o}, {"c": "ClampOutput%dD" % d, "bounds": i}],
                                                 "f": wide[d], "leaf_dim": d, "dim": d}, "pts": pts(d)})
            bo = [o] + [[None, None]] * (d - 1)
            bi = [i] + [[None, None]] * (d - 1)
            out.append({"w": "nested", "chain": {"layers": [{"c": "ClampInput%dD" % d, "bounds": bo}, {"c": "ClampInput%dD" % d, "bounds": bi}],
                                                 "f": fl[d], "leaf_dim": d, "dim": d}, "pts": pts(d)})
        out.append({"w": "nested", "chain": {"layers": [{"c": "ClampOutput%dD" % d, "bounds": [0.0, 1.0]}, {"c": "ClampOutput%dD" % d, "bounds": [2.0, 3.0]},
                                                        {"c": "ClampOutput%dD" % d, "bounds": [-1.0, 0.5]}], "f": wide[d], "leaf_dim": d, "dim": d}, "pts": pts(d)})
    # swizzle of swizzle: all 27 x 27 shapes
    sp = [[1.5, -2.5, 3.5], [0.0, -0.0, 1e-150]]
    for a in range(27):
        for b in range(27):
            out.append({"w": "nested", "chain": {"layers": [{"c": "Swizzle3D", "shape": [a // 9, a // 3 % 3, a % 3]},
                                                            {"c": "Swizzle3D", "shape": [b // 9, b // 3 % 3, b % 3]}],
                                                 "f": fl[3], "leaf_dim": 3, "dim": 3}, "pts": sp})
    # periodic of periodic with different periods (commensurate and not), scalar and vector
    for po, pi_ in ((1.0, 0.3), (0.3, 1.0), (360.0, 2 * math.pi), (2.0, 0.5), (0.5, 2.0), (1.0, 1.0)):
        for d in (1, 2, 3):
            for vector in (False, True):
                out.append({"w": "nested_vector" if vector else "nested",
                            "chain": {"layers": [{"c": ("Vector" if vector else "") + "PeriodicTransform%dD" % d, "periods": [po] * d},
                                                 {"c": ("Vector" if vector else "") + "PeriodicTransform%dD" % d, "periods": ([pi_, 0.0, pi_])[:d]}],
                                      "f": (vl if vector else fl)[d], "leaf_dim": d, "dim": d}, "pts": pts(d)})
    # functions handing out a stored object (kept Vector3D / library constants) under every vector wrapper, the vector
    # samplers and the scalar wrappers: sequences over several angles with repeated points
    seq = [[1.0, 0.0, 0.3], [0.0, 2.0, -1.0], [-1.5, 0.0, 0.0], [1.0, 1.0, 2.0], [-0.3, -0.4, 5.0], [0.0, 2.0, -1.0], [1.0, 1.0, 2.0],
           [-1.5, -0.0, 0.0], [2.5, -0.5, 0.25], [1.0, 0.0, 0.3]]
    for d0 in (1, 2, 3):
        for c1, w1 in [(None, d0)] + N_EXPOSE_VEC[d0]:
            for kind in ("stored", "constant"):
                if (kind == "constant" and w1 < 2) or (c1 is None and d0 == 1):
                    continue
                ch = {"layers": [layer(c1, 0)] if c1 else [], "leaf_dim": w1, "dim": d0, "f": None, "leaf": {"kind": kind, "value": [1.0, 2.0, 3.0]}}
                case = {"w": "stored_leaf", "vector": True, "chain": ch, "pts": [p[:d0] for p in seq]}
                if d0 > 1:
                    case["sampler"] = "points"
                out.append(case)
                if c1:
                    for c2, w2 in N_EXPOSE_VEC[w1]:
                        if (c1 in _GEOM and c2 in _GEOM) or (kind == "constant" and w2 < 2):
                            continue
                        out.append({"w": "stored_leaf", "vector": True, "pts": [p[:d0] for p in seq],
                                    "chain": {"layers": [layer(c1, 0), layer(c2, 1)], "leaf_dim": w2, "dim": d0, "f": None,
                                              "leaf": {"kind": kind, "value": [0.0, 1.0, 0.0]}}})
        for c1, w1 in N_EXPOSE[d0]:
            out.append({"w": "stored_leaf", "vector": False, "pts": [p[:d0] for p in seq], "sampler": "points",
                        "chain": {"layers": [layer(c1, 0)], "leaf_dim": w1, "dim": d0, "f": None, "leaf": {"kind": "constant", "value": 0.625}}})
    # depth 3
    out.append({"w": "nested", "chain": {"layers": [{"c": "IsoMapper3D", "g": fl[1]}, {"c": "AxisymmetricMapper"}, {"c": "ClampInput2D", "bounds": [[0.5, 2.0], [None, 1.0]]}],
                                         "f": fl[2], "leaf_dim": 2, "dim": 3}, "pts": pts(3)})
    out.append({"w": "nested", "chain": {"layers": [{"c": "Slice2D", "axis": "y", "value": 0.5}, {"c": "Slice3D", "axis": 0, "value": -1.5}, {"c": "CylindricalTransform"}],
                                         "f": fl[3], "leaf_dim": 3, "dim": 1}, "pts": pts(1)})
    out.append({"w": "nested_vector", "chain": {"layers": [{"c": "VectorPeriodicTransform3D", "periods": [0.0, 0.0, 2.0]}, {"c": "VectorCylindricalTransform"},
                                                           {"c": "VectorPeriodicTransform3D", "periods": [0.0, 2 * math.pi, 0.0]}],
                                                "f": vl[3], "leaf_dim": 3, "dim": 3}, "pts": pts(3)})
    return out
