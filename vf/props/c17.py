"""C17 — voxel area, centroid and volume are exact and independent of vertex order; emissivity sampling is unbiased.

Real code driven: cherab.tools.inversions.voxels.{AxisymmetricVoxel, ToroidalVoxelGrid}.

Oracle (shares no code with the implementation): every polygon is a list of IEEE doubles, i.e. of dyadic rationals, so
the shoelace area, the centroid and the second moments computed with fractions.Fraction are the TRUE values of exactly
the polygon the voxel was given; simplicity of every polygon is certified by an exact integer segment test before use.

Monitors
  area / centroid / volume : every cyclic rotation x both orientations of the same polygon (and three container types)
                             against the exact values; tolerance = computed rounding bound of the documented shoelace /
                             Bourke formulae in double precision (4 x the first-order worst case);
  volume_self              : volume == 2 pi * reported centroid radius * reported area (4 eps);
  order                    : spread of area / centroid / volume over all orderings <= 2 x the same bound;
  grid_total / grid_exact  : ToroidalVoxelGrid.total_volume == sum of voxel volumes (n eps) == sum of true volumes;
  emis_const               : constants are reproduced to N eps (float, native Constant3D, Python callable; also through
                             VoxelCollection.emissivities_from_function);
  emis_stat                : linear f = a + b r + c z, Raysect RNG seeded from the case: |mean - f(centroid)| <= Bernstein
                             bound at p = 2.6e-12 (the two-sided 7 sigma level; tends to 7.4 sigma/sqrt(N), rigorous at any
                             N) with the exact rational standard deviation of f over the polygon;
  emis_range               : the mean of a function bounded on the polygon lies within its bounds (deterministic);
  emis_inside              : with a recording Python callable every sampled point lies inside the cross-section.
  nearrect_stat / _inside  : quadrilaterals that are near-misses of the code's own rectangle test (4 vertices, equal diagonals
                             in double precision, first stored edge parallel to an axis): isosceles trapezoids, equidiagonal
                             kites and general equidiagonal quadrilaterals on exact lattices, rotated rectangles,
                             parallelograms, true rectangles; EVERY rotation x orientation of the vertex list is sampled
                             (native and recording Python function) and judged against f(centroid) with the same bound,
                             all sample points must lie inside, and the estimates of different orderings must agree
                             (nearrect_order);
  alias_caller / _unchanged: for 12 container kinds (float64 C / F / row view / strided, float32, int64, int32 ndarrays, lists
                             of lists / tuples / arrays / Point2D, tuples) construction must leave the caller's container
                             untouched, and area / centroid / volume / vertices must stay bit-identical after the caller
                             scales / reverses / overwrites its own container or refills a re-used scratch container for the
                             next voxel; same for ToroidalVoxelGrid built from an (N, M, 2) array;
  gridseq_total            : random sequences of set_active('all' | i), unparent_all_voxels(), parent_all_voxels(), parent
                             changes of the grid / of single voxels, construction with active = int | 'all' and a parent:
                             after every step total_volume == exact rational sum of the true voxel volumes.
  emisorder_stat / _inside : any polygon (mostly concave) sampled through BOTH primitive types x both orientations x several
                             starting vertices; each estimate against f(centroid), all sample points inside, estimates agree
                             (emisorder_order);
  scale_homog              : the cross-section (and a small grid) scaled about the origin by 2^k, k in -40..20 (nanometres to
                             1000 km): area, centroid, volume, total_volume must scale by exactly 4^k, 2^k, 8^k (4 eps) and match
                             the exact rational values; 'wide' polygons: half-extent 1e-8..1e3 m at R 1e-6..1e4 m, |z| up to
                             1e3 m, judged with the same computed relative bounds; inputs whose bound exceeds 1e-3 are skipped
                             and counted (never generated on purpose); ZeroDivisionError from the centroid of a non-degenerate
                             polygon is a violation.
  seq_stat / _inside / _tri: 3..6 voxels with different vertex counts alive together and sampled one after another in one process
                             (more-vertices-smaller-area first, increasing, interleaved, random; repeated visits; optionally
                             also as one ToroidalVoxelGrid): each call judged against the voxel's OWN area mean, all sample
                             points inside, and the share of points in every triangle of a validated partition of the
                             cross-section within the binomial p=2.6e-12 bound of its exact area share (a triangle that is
                             never sampled is reported);
  gridemis_stat / _vary    : VoxelCollection.emissivities_from_function with polynomial NON-linear functions (u^2, uv, v^2,
                             random quadratic / cubic, quartic peak) and grid_samples in {1, 2, 10, 37}: the mean over K
                             independent calls against the exact area mean (exact integer integration of the monomials up to
                             degree 8 over the polygon) with the bound for K x grid_samples samples and the exact standard
                             deviation; an estimate that is identical in all K calls AND differs from the exact mean is
                             reported separately (deterministic => biased; no statistics involved);
  nonlin_stat              : the same non-linear functions through voxel.emissivity_from_function.
  hist_identity / _kept /  : histories of 3..8 emissivities_from_function calls (constants of different values, linear, non-linear;
  _fresh / _share / _post    grid_samples 1..20000) on 1..3 grids alive together, the caller KEEPING every returned vector: each kept
                             vector must be bit-identical to what it was when returned and is re-judged at the end (constants exact,
                             statistical bound otherwise), vectors of different calls must not share memory, and after the caller
                             overwrites all of them a new call must still be exact;
  alias_returned           : modifying the Point2D list returned by .vertices or the Point2D returned by .cross_section_centroid
                             must not change the voxel.
  place_geom / place_stat  : the same cells as a grid hanging in a scene graph (parent None / World / transformed node / nested nodes;
                             grid transform identity / translation / rotation about z, x, y / combinations; later set_active,
                             transform and parent changes) and as a single voxel with a parent and its own transform: area,
                             centroid, volume, total volume against the exact values and every emissivity estimate (grid API and
                             voxel API) against the area mean over the cross-section -- none may depend on the placement;
  gridcont                 : grids built from 10 kinds of iterables of cells (list, tuple, generator, map, iterator, zip
                             generator, deque, dict values, object array, 3-D ndarray) x 4 kinds of cell containers: voxel
                             count, voxel volumes in order and total volume as from the list.
Sampling runs in a forked child so that a crash of the unchecked triangle lookup becomes a violation, not a dead worker.
"""
import json
import math
import os
import select
import signal
import time
import traceback
from fractions import Fraction

import numpy as np

ID = "C17"
LEVEL = "exploration"
RULE = ("random polygons whose coordinates are arbitrary doubles (exact dyadic rationals), 3..24 vertices, classes: triangle, "
        "axis-aligned rectangle, general quadrilateral, convex n-gon, star-shaped concave, x-monotone concave, rectilinear "
        "(incl. exactly collinear vertices), thin slivers (aspect up to 1e3); centre radius 0.1..10 m, |z| <= 5 m, "
        "half-extent 1 mm..2 m (<= 0.9 x centre radius so that r > 0); interior angles >= 3 deg away from 0/360 "
        "(slivers: width >= 1e-3 length instead), edges >= 1e-3 x extent; every polygon certified simple by an exact "
        "integer segment test (uncertified => skipped and counted). 'poly' cases drive ALL cyclic rotations x both "
        "orientations; 'grid' cases 1..400 voxels (rectangular, triangulated, mixed); 'emis' cases sample constants / "
        "linear / bounded functions with N = 10..2e5 samples and a case-derived Raysect seed; 'nearrect' cases: lattice "
        "quadrilaterals with exactly equal diagonals and an axis-parallel edge (isosceles trapezoid, kite, general), "
        "rectangles rotated by 1e-9..0.1 rad or 45 deg, parallelograms, rectangles, all 8 orderings sampled; 'alias' cases: 12 "
        "vertex-container kinds x {scale, reverse, move-vertex, overwrite, re-used buffer} mutations by the caller, "
        "(N,M,2) arrays for grids; 'gridseq' cases: 2..10 scenegraph/activation operations on 1..24-voxel grids with a "
        "total_volume read after each; 'emisorder' cases: concave-biased polygons x {csg, mesh} x both orientations x up to 3 "
        "start vertices; 'scale' cases: 1..4 cells scaled by three powers of two 2^-40..2^20; 'wide' polygons: half-extent "
        "1e-8..1e3 m, R 1e-6..1e4 m, conditioned so that the shoelace rounding bound stays <= 1e-4 relative. 'seq' cases: 3..6 voxels of 3..24 vertices sampled in 3..12 calls; 'gridemis' cases: 1..6 cells, K = 6000/"
        "grid_samples (thorough 20000/grid_samples) calls. In the quick "
        "tier 'poly' cases with more than 8 vertices use 16 evenly spaced orderings (thorough: all). A case is non-trivial when "
        "a deciding comparison ran on a certified polygon of non-zero area (for linear emissivity: non-zero variance); "
        "distinct = distinct polygon/grid/function descriptors")
LEVEL_TEXT = ("Exploration by runtime reference-model monitoring: the real AxisymmetricVoxel / ToroidalVoxelGrid objects are "
              "built for every generated ordering and their reported area, centroid, volume, total volume and sampled "
              "emissivities are compared with exact rational geometry; the statistical clause is restated as a seeded, "
              "deterministic Bernstein/7-sigma bound. Right level because the quantifier ranges over continuous inputs.")
LEVEL_NOTE = ("trusted: fractions.Fraction arithmetic, the textbook polygon moment formulae in this module, Raysect's "
              "seeded Mersenne twister being a fair uniform source; floating-point rounding of the documented formulae is "
              "allowed for by a computed bound (the property's 'equal' is read as 'equal up to that rounding')")
TECHNIQUE = ("runtime monitoring: reference-model oracle (exact rational shoelace / centroid / moments), metamorphic monitor "
             "over all vertex orderings, seeded statistical monitor and sample-point recorder for emissivity sampling")
ASSUMPTIONS = ["polygons are simple, non-degenerate (bounds in the rule) and lie in r > 0",
               "'unbiased' is judged by a seeded two-sided bound with false-alarm probability 2.6e-12 per case",
               "rounding allowance: 4 x first-order worst-case error of the double-precision shoelace/Bourke sums",
               "the ASan pass of DESIGN.md is not part of this module"]
ASAN_MODULES = ['cherab.tools.inversions.voxels']
ASAN = dict(cases=400, workers=8, timecap=240)
QUICK = dict(cases=300, workers=2, timecap=45)      # ~9 s of worker time per shard on an idle machine
THOROUGH = dict(cases=60000, workers=16, timecap=600)
# minima are reached by ~100 cases: a quick run cut short by the time cap on a loaded machine is still conclusive
REQUIRED = {"area": 440, "centroid": 880, "volume": 600, "volume_self": 400, "order": 150, "grid_total": 4,
            "grid_exact": 8, "emis_const": 15, "emis_stat": 8, "emis_range": 10, "emis_inside": 20000,
            "nearrect_stat": 100, "nearrect_inside": 20000, "nearrect_order": 6, "alias_caller": 15, "alias_unchanged": 20,
            "gridseq_total": 60, "scale_homog": 60, "emisorder_stat": 100, "emisorder_inside": 5000, "emisorder_order": 8,
            "seq_stat": 60, "seq_inside": 50000, "seq_tri": 150, "gridemis_stat": 10, "gridemis_vary": 10, "nonlin_stat": 10,
            "hist_identity": 10, "hist_kept": 40, "hist_fresh": 40, "hist_share": 2, "hist_post": 6, "alias_returned": 12,
            "place_stat": 25, "place_geom": 60, "gridcont": 15}

EPS = 2.0 ** -52
PI_CODE = 3.141592653589793
P_FALSE = 2.6e-12                    # two-sided 7 sigma
KNOWN_OOB_KEY = "emissivity:triangle-index-out-of-range"


# ------------------------------------------------------------------------------------------------
# exact geometry (no cherab / raysect code)
# ------------------------------------------------------------------------------------------------

def _int_coords(P):
    fr = [(Fraction(float(x)), Fraction(float(y))) for x, y in P]
    den = 1
    for fx, fy in fr:
        den = max(den, fx.denominator, fy.denominator)      # all powers of two => lcm = max
    return [(int(fx * den), int(fy * den)) for fx, fy in fr]


def _orient(a, b, c):
    v = (b[0] - a[0]) * (c[1] - a[1]) - (b[1] - a[1]) * (c[0] - a[0])
    return (v > 0) - (v < 0)


def _on_segment(a, b, p):
    """p collinear with a-b (already known): inside the closed segment?"""
    return min(a[0], b[0]) <= p[0] <= max(a[0], b[0]) and min(a[1], b[1]) <= p[1] <= max(a[1], b[1])


def certify_simple(P):
    """Exact certificate: n >= 3, finite, distinct vertices, non-zero area, adjacent edges do not fold back,
    non-adjacent edges are disjoint (touching counts as intersecting). Returns (ok, reason)."""
    n = len(P)
    if n < 3:
        return False, "fewer than 3 vertices"
    for x, y in P:
        if not (math.isfinite(x) and math.isfinite(y)):
            return False, "non-finite coordinate"
    Q = _int_coords(P)
    if len(set(Q)) != n:
        return False, "coincident vertices"
    a2 = sum(Q[i][0] * Q[(i + 1) % n][1] - Q[(i + 1) % n][0] * Q[i][1] for i in range(n))
    if a2 == 0:
        return False, "zero area"
    for i in range(n):
        a, b, c = Q[i], Q[(i + 1) % n], Q[(i + 2) % n]
        if _orient(a, b, c) == 0:
            if (a[0] - b[0]) * (c[0] - b[0]) + (a[1] - b[1]) * (c[1] - b[1]) > 0:
                return False, "adjacent edges fold back"
    for i in range(n):
        a, b = Q[i], Q[(i + 1) % n]
        for j in range(i + 2, n):
            if i == 0 and j == n - 1:
                continue
            c, d = Q[j], Q[(j + 1) % n]
            if max(a[0], b[0]) < min(c[0], d[0]) or max(c[0], d[0]) < min(a[0], b[0]) or \
                    max(a[1], b[1]) < min(c[1], d[1]) or max(c[1], d[1]) < min(a[1], b[1]):
                continue
            o1, o2, o3, o4 = _orient(a, b, c), _orient(a, b, d), _orient(c, d, a), _orient(c, d, b)
            if o1 * o2 < 0 and o3 * o4 < 0:
                return False, "edges cross"
            if (o1 == 0 and _on_segment(a, b, c)) or (o2 == 0 and _on_segment(a, b, d)) or \
                    (o3 == 0 and _on_segment(c, d, a)) or (o4 == 0 and _on_segment(c, d, b)):
                return False, "edges touch"
    return True, ""


def exact_moments(P):
    """True area (positive), centroid and central second moments of the polygon, as Fractions."""
    X = [Fraction(float(x)) for x, _ in P]
    Y = [Fraction(float(y)) for _, y in P]
    n = len(P)
    x0, y0 = X[0], Y[0]                       # shift: smaller integers, same result
    X = [x - x0 for x in X]
    Y = [y - y0 for y in Y]
    a2 = sx = sy = sxx = syy = sxy = Fraction(0)
    for i in range(n):
        j = (i + 1) % n
        c = X[i] * Y[j] - X[j] * Y[i]
        a2 += c
        sx += (X[i] + X[j]) * c
        sy += (Y[i] + Y[j]) * c
        sxx += (X[i] * X[i] + X[i] * X[j] + X[j] * X[j]) * c
        syy += (Y[i] * Y[i] + Y[i] * Y[j] + Y[j] * Y[j]) * c
        sxy += (X[i] * Y[j] + 2 * X[i] * Y[i] + 2 * X[j] * Y[j] + X[j] * Y[i]) * c
    cx = sx / (3 * a2)
    cy = sy / (3 * a2)
    exx = sxx / (6 * a2)
    eyy = syy / (6 * a2)
    exy = sxy / (12 * a2)
    return dict(A=abs(a2) / 2, ccw=a2 > 0, cx=cx + x0, cy=cy + y0,
                vxx=exx - cx * cx, vyy=eyy - cy * cy, vxy=exy - cx * cy)


def rounding_bounds(P, ex):
    """4 x first-order worst-case rounding error of the double shoelace area and Bourke centroid for this vertex set
    (independent of the ordering: sums of absolute values)."""
    n = len(P)
    x = np.array([p[0] for p in P], dtype=float)
    y = np.array([p[1] for p in P], dtype=float)
    xn, yn = np.roll(x, -1), np.roll(y, -1)
    t = np.abs(x * yn) + np.abs(xn * y)
    S = float(t.sum())
    Tx = float(((np.abs(x) + np.abs(xn)) * t).sum())
    Ty = float(((np.abs(y) + np.abs(yn)) * t).sum())
    A = float(ex["A"])
    cx, cy = float(ex["cx"]), float(ex["cy"])
    # rigorous first order (u = EPS/2): dA <= (n+1) u S / 2 + u A ;  dN <= (n+3) u T ; c = N / (6 A)
    tolA = (n + 2) * EPS * S + 2 * EPS * A
    relA = tolA / A
    tolcx = 2 * (n + 4) * EPS * Tx / (6 * A) + abs(cx) * relA + 4 * EPS * abs(cx)
    tolcy = 2 * (n + 4) * EPS * Ty / (6 * A) + abs(cy) * relA + 4 * EPS * abs(cy)
    vol = 2 * math.pi * cx * A
    tolvol = abs(vol) * (relA + tolcx / abs(cx) + 8 * EPS)
    return dict(A=tolA, cx=tolcx, cy=tolcy, vol=tolvol, volume=vol)


# ------------------------------------------------------------------------------------------------
# generators
# ------------------------------------------------------------------------------------------------

def _angles_ok(U, min_deg):
    """interior turning angles at least min_deg away from 0 and 360 degrees; edges >= 1e-3 x extent"""
    n = len(U)
    U = np.asarray(U, dtype=float)
    ext = max(np.ptp(U[:, 0]), np.ptp(U[:, 1]))
    if ext <= 0:
        return False
    for i in range(n):
        a, b, c = U[i - 1], U[i], U[(i + 1) % n]
        u, v = a - b, c - b
        lu, lv = math.hypot(*u), math.hypot(*v)
        if lu < 1e-3 * ext or lv < 1e-3 * ext:
            return False
        cs = (u[0] * v[0] + u[1] * v[1]) / (lu * lv)
        if cs > math.cos(math.radians(min_deg)):      # angle between the two edges at b below min_deg (spike)
            return False
    return True


def _unit_shape(rng, cls):
    """vertex list in roughly [-1, 1]^2"""
    if cls == "triangle":
        return [[float(a), float(b)] for a, b in rng.uniform(-1, 1, size=(3, 2))]
    if cls == "rectangle":
        w = 10 ** rng.uniform(-2.5, 0)
        h = 10 ** rng.uniform(-2.5, 0)
        m = max(w, h)
        w, h = w / m, h / m
        U = [[-w, -h], [-w, h], [w, h], [w, -h]]
        return U
    if cls == "quad":
        th = np.sort(rng.uniform(0, 2 * math.pi, 4))
        r = rng.uniform(0.15, 1, 4)
        return [[float(r[i] * math.cos(th[i])), float(r[i] * math.sin(th[i]))] for i in range(4)]
    if cls == "convex":
        n = int(rng.integers(5, 25))
        th = np.sort(rng.uniform(0, 2 * math.pi, n))
        a, b = 1.0, float(rng.uniform(0.3, 1))
        ph = rng.uniform(0, math.pi)
        out = []
        for t in th:
            u, v = a * math.cos(t), b * math.sin(t)
            out.append([u * math.cos(ph) - v * math.sin(ph), u * math.sin(ph) + v * math.cos(ph)])
        return out
    if cls == "star":
        n = int(rng.integers(5, 25))
        th = (np.arange(n) + rng.uniform(0.05, 0.95, n)) * (2 * math.pi / n) + rng.uniform(0, 2 * math.pi)
        r = rng.uniform(0.25, 1, n)
        return [[float(r[i] * math.cos(th[i])), float(r[i] * math.sin(th[i]))] for i in range(n)]
    if cls == "monotone":
        nb = int(rng.integers(2, 12))
        nt = int(rng.integers(2, 12))
        xb = np.sort(rng.uniform(-1, 1, nb))
        xt = np.sort(rng.uniform(-1, 1, nt))[::-1]
        yb = rng.uniform(-1, -0.05, nb)
        yt = rng.uniform(0.05, 1, nt)
        return [[float(xb[i]), float(yb[i])] for i in range(nb)] + [[float(xt[i]), float(yt[i])] for i in range(nt)]
    if cls == "rectilinear":
        k = int(rng.integers(1, 12))
        xs = np.sort(rng.uniform(-1, 1, k + 1))
        if rng.random() < 0.5:                          # lattice coordinates: exact collinearities are common
            xs = np.unique(np.round(xs * 8) / 8)
            k = len(xs) - 1
            if k < 1:
                xs, k = np.array([-0.5, 0.5]), 1
            hs = rng.integers(1, 5, k) / 4.0
        else:
            hs = rng.uniform(0.1, 1, k)
        out = [[float(xs[0]), -1.0]]
        for j in range(k):
            out.append([float(xs[j]), float(2.0 * hs[j] - 1.0)])
            out.append([float(xs[j + 1]), float(2.0 * hs[j] - 1.0)])
        out.append([float(xs[k]), -1.0])
        # drop exact duplicates created by equal neighbouring heights? no: equal heights give collinear vertices,
        # which is the point of this class; but coincident points are not allowed
        ded = []
        for p in out:
            if not ded or ded[-1] != p:
                ded.append(p)
        if rng.random() < 0.3 and k >= 1:               # extra collinear vertex on the base line
            ded.append([float(0.5 * (xs[0] + xs[k])), -1.0])
        return ded
    raise ValueError(cls)


POLY_CLASSES = ["triangle", "rectangle", "quad", "convex", "star", "monotone", "rectilinear", "sliver"]
POLY_WEIGHTS = [0.14, 0.12, 0.1, 0.16, 0.16, 0.12, 0.1, 0.1]


def gen_polygon(rng, cls=None, wide=False):
    """returns (cls, [[r, z], ...]) certified simple, or a fallback triangle after 60 rejected candidates.
    wide=True: 'any radius and height' -- half-extent log-uniform 1e-8..1e3 m, centre radius log-uniform 1e-6..1e4 m,
    height uniform in +-5 m, or within a few extents of the midplane, or up to +-1e3 m."""
    if cls is None:
        cls = POLY_CLASSES[int(rng.choice(len(POLY_CLASSES), p=POLY_WEIGHTS))]
    for _ in range(60):
        if wide:
            Rc = float(10 ** rng.uniform(-6, 4))
            size = float(min(10 ** rng.uniform(-8, 3), 0.9 * Rc))
            zm = rng.random()
            if zm < 0.4:
                Zc = float(rng.uniform(-5, 5))
            elif zm < 0.8:
                Zc = float(size * rng.uniform(-2, 2))
            else:
                Zc = float(10 ** rng.uniform(0, 3) * (1 if rng.random() < 0.5 else -1))
            if 40 * EPS * Rc * max(abs(Zc), size) > 1e-4 * size * size:
                continue                                     # shoelace about the origin would be ill-conditioned: redraw
        else:
            Rc = float(10 ** rng.uniform(-1, 1))
            Zc = float(rng.uniform(-5, 5))
            size = float(min(10 ** rng.uniform(-3, 0.3), 0.9 * Rc))
        if cls == "sliver":
            base = ["triangle", "rectangle", "convex", "quad"][int(rng.integers(4))]
            U = np.array(_unit_shape(rng, base), dtype=float)
            if base == "rectangle":
                U = np.sign(U)
            if not _angles_ok(U, 10.0) or np.ptp(U[:, 1]) < 0.5 * np.ptp(U[:, 0]):
                continue
            asp = 10 ** rng.uniform(-3, -1.5) * np.ptp(U[:, 0]) / np.ptp(U[:, 1])     # width / length = 1e-3 .. 3e-2
            U[:, 1] *= asp
            ph = rng.uniform(0, math.pi) if rng.random() < 0.7 else 0.0
            U = np.stack([U[:, 0] * math.cos(ph) - U[:, 1] * math.sin(ph),
                          U[:, 0] * math.sin(ph) + U[:, 1] * math.cos(ph)], axis=1)
        else:
            U = np.array(_unit_shape(rng, cls), dtype=float)
            if not _angles_ok(U, 3.0):
                continue
        m = float(np.abs(U).max())
        if m <= 0:
            continue
        U = U / m
        if rng.random() < 0.5:
            U = U[::-1]
        P = [[float(Rc + size * u), float(Zc + size * v)] for u, v in U]
        if min(p[0] for p in P) <= 0:
            continue
        ok, _why = certify_simple(P)
        if ok:
            return cls, P
    return "triangle", [[1.0, 0.0], [2.0, 0.5], [1.25, 1.0]]


def _mesh_ok(P):
    r = [p[0] for p in P]
    w = max(r) - min(r)
    return w > 0 and 2 * math.pi * (sum(r) / len(r)) / w <= 150


MAX_ORDERINGS_QUICK = 16


def gen_case(rng, tier):
    u = rng.random()
    if u < 0.04:
        shape, P = gen_nearrect_polygon(rng)           # near-rectangle quadrilaterals also through the geometry monitors
        return dict(kind="poly", cls="nearrect:" + shape, poly=P, prim="csg", max_orderings=0)
    if u < 0.28:
        cls, P = gen_polygon(rng)
        prim = "mesh" if (rng.random() < 0.12 and _mesh_ok(P)) else "csg"
        return dict(kind="poly", cls=cls, poly=P, prim=prim, max_orderings=MAX_ORDERINGS_QUICK if tier == "quick" else 0)
    if u < 0.33:
        cls, P = gen_polygon(rng, wide=True)
        return dict(kind="poly", cls="wide:" + cls, poly=P, prim="csg", max_orderings=8 if tier == "quick" else 0)
    if u < 0.38:
        return _gen_scale(rng, tier)
    if u < 0.42:
        return _gen_grid(rng, tier)
    if u < 0.53:
        return _gen_emis(rng, tier)
    if u < 0.61:
        return _gen_emisorder(rng, tier)
    if u < 0.67:
        return _gen_nearrect(rng, tier)
    if u < 0.73:
        return _gen_alias(rng, tier)
    if u < 0.78:
        return _gen_gridseq(rng, tier)
    if u < 0.85:
        return _gen_seq(rng, tier)
    if u < 0.89:
        return _gen_gridemis(rng, tier)
    if u < 0.92:
        return _gen_gridhist(rng, tier)
    if u < 0.97:
        return _gen_placement(rng, tier)
    return _gen_gridcont(rng, tier)


def _gen_transform(rng, ext):
    """[[op, args...], ...] multiplied left to right; translations of the order of the cross-section's extent"""
    k = int(rng.integers(6))
    d = [float(x) for x in ext * rng.uniform(0.3, 3, 3) * rng.choice([-1, 1], 3)]
    ang = float(rng.choice([90.0, 180.0, -90.0, float(rng.uniform(-180, 180))]))
    if k == 0:
        return []
    if k == 1:
        return [["translate"] + d]
    if k == 2:
        return [["translate", 0.0, 0.0, d[2]]]
    if k == 3:
        return [["rotate_z", ang]]
    if k == 4:
        return [[["rotate_x", "rotate_y"][int(rng.integers(2))], ang]]
    return [["translate"] + d, [["rotate_x", "rotate_y", "rotate_z"][int(rng.integers(3))], ang]]


def _gen_placement(rng, tier):
    """the same cells as a free-standing grid and placed in a scene graph (parent chain / transforms / activation)"""
    if rng.random() < 0.5:
        cells = [gen_polygon(rng)[1] for _ in range(int(rng.integers(1, 5)))]
    else:
        cells = _gen_grid(rng, tier)["cells"][:int(rng.integers(1, 7))]
    A = np.array([v for q in cells for v in q])
    ext = float(max(np.ptp(A[:, 0]), np.ptp(A[:, 1])))
    parent = ["none", "world", "node", "nested"][int(rng.choice(4, p=[0.1, 0.3, 0.3, 0.3]))]
    ops = []
    for _ in range(int(rng.integers(0, 4))):
        k = int(rng.integers(4))
        if k == 0:
            ops.append(["set_active", int(rng.integers(len(cells)))])
        elif k == 1:
            ops.append(["set_active", "all"])
        elif k == 2:
            ops.append(["grid_transform", _gen_transform(rng, ext)])
        else:
            ops.append(["grid_parent", ["none", "world", "node", "nested"][int(rng.integers(4))]])
    return dict(kind="placement", cls="placement:" + parent, cells=cells, parent=parent,
                node_transforms=[_gen_transform(rng, ext), _gen_transform(rng, ext)], grid_transform=_gen_transform(rng, ext),
                voxel_transform=_gen_transform(rng, ext), ops=ops,
                fn=dict(a=float(rng.normal()), b=float(rng.normal()), c=float(rng.normal())),
                N=int(rng.choice([10000, 30000])), rs_seed=int(rng.integers(1, 2 ** 61)))


GRID_OUTER = ["list", "tuple", "generator", "map", "iterator", "zip-generator", "deque", "dict-values", "object-array",
              "ndarray-3d"]
GRID_INNER = ["list-of-lists", "tuple-of-tuples", "ndarray", "list-of-point2d"]


def _gen_gridcont(rng, tier):
    """every kind of iterable of cells the constructor accepts must give the grid the list gives"""
    outer = GRID_OUTER[int(rng.integers(len(GRID_OUTER)))]
    if outer == "ndarray-3d" or rng.random() < 0.4:
        g = _gen_grid(rng, tier)
        while g["cls"] == "grid:mixed":
            g = _gen_grid(rng, tier)
        cells = g["cells"][:int(rng.integers(1, 13))]
    else:
        cells = [gen_polygon(rng)[1] for _ in range(int(rng.integers(1, 6)))]
    return dict(kind="gridcont", cls="gridcont:" + outer, cells=cells, outer=outer,
                inner=GRID_INNER[int(rng.integers(len(GRID_INNER)))], active="all" if rng.random() < 0.7 else 0)


def _local_frame(cells):
    A = np.array([v for q in cells for v in q])
    r0, z0 = float(A[:, 0].mean()), float(A[:, 1].mean())
    L = float(2.0 ** math.ceil(math.log2(max(np.abs(A[:, 0] - r0).max(), np.abs(A[:, 1] - z0).max()))))
    return r0, z0, L


def _gen_gridhist(rng, tier):
    """history of emissivities_from_function calls on one or several grids; every returned vector is kept by the caller"""
    grids = []
    for _ in range(int(rng.integers(1, 4))):
        if rng.random() < 0.5:
            grids.append([gen_polygon(rng)[1] for _ in range(int(rng.integers(1, 6)))])
        else:
            grids.append(_gen_grid(rng, tier)["cells"][:int(rng.integers(1, 9))])
    calls = []
    for _ in range(int(rng.integers(3, 9))):
        g = int(rng.integers(len(grids)))
        k = int(rng.integers(4))
        if k <= 1:
            f = dict(type="const", a=float(rng.choice([3.0, 7.0, 0.1, -2.5, 1.0 / 3.0, float(rng.normal())])))
        elif k == 2:
            f = dict(type="linear", a=float(rng.normal()), b=float(rng.normal()), c=float(rng.normal()))
        else:
            r0, z0, L = _local_frame(grids[g])
            ft = NONLIN_TYPES[int(rng.integers(len(NONLIN_TYPES)))]
            f = dict(type="poly", name=ft, r0=r0, z0=z0, L=L, coef=_nonlin_coeffs(rng, ft))
        calls.append(dict(g=g, f=f, gs=int(rng.choice([1, 10, 1000, 20000]))))
    return dict(kind="gridhist", cls="gridhist", grids=grids, calls=calls, rs_seed=int(rng.integers(1, 2 ** 61)))


SEQ_PATTERNS = ["more-vertices-smaller-area-first", "increasing-vertex-count", "interleaved", "random"]


def _gen_seq(rng, tier):
    """several voxels alive in one process, sampled one after another (state left by one call must not leak into the next)"""
    pat = SEQ_PATTERNS[int(rng.choice(4, p=[0.4, 0.15, 0.25, 0.2]))]
    m = int(rng.integers(3, 7))
    polys = []
    for _ in range(m):
        cls = ["convex", "star", "monotone", "rectilinear", "quad", "triangle", "rectangle"][
            int(rng.choice(7, p=[0.3, 0.25, 0.15, 0.1, 0.08, 0.07, 0.05]))]
        polys.append(gen_polygon(rng, cls)[1])
    nv = [len(q) for q in polys]
    ar = [float(exact_moments(q)["A"]) for q in polys]
    if pat == "more-vertices-smaller-area-first":
        # vertex counts decreasing while areas increase: pair the sorted lists crosswise by rescaling about the centroid
        order = sorted(range(m), key=lambda i: -nv[i])
        polys = [polys[i] for i in order]
        target = sorted(ar)
        out = []
        for q, a_now, a_want in zip(polys, [ar[i] for i in order], target):
            f = math.sqrt(a_want / a_now)
            c = np.mean(np.array(q), axis=0)
            out.append([[float(c[0] + f * (x - c[0])), float(c[1] + f * (y - c[1]))] for x, y in q])
        polys = [q if (min(v[0] for v in q) > 0 and certify_simple(q)[0]) else polys[i] for i, q in enumerate(out)]
    elif pat == "increasing-vertex-count":
        polys = [polys[i] for i in sorted(range(m), key=lambda i: nv[i])]
    elif pat == "interleaved":
        o = sorted(range(m), key=lambda i: nv[i])
        polys = [polys[i] for pair in zip(o[::-1], o) for i in pair][:m]
    steps = list(range(m))
    for _ in range(int(rng.integers(0, m + 1))):
        steps.append(int(rng.integers(m)))
    prims = ["mesh" if (rng.random() < 0.2 and _mesh_ok(q)) else "csg" for q in polys]
    return dict(kind="seq", cls=pat, polys=polys, prims=prims, steps=steps, via_grid=bool(rng.random() < 0.5),
                fn=dict(a=float(rng.normal()), b=float(rng.normal()), c=float(rng.normal())),
                N=int(rng.choice([10000, 30000])), Np=int(rng.choice([1500, 4000])), rs_seed=int(rng.integers(1, 2 ** 61)))


NONLIN_TYPES = ["r2", "rz", "z2", "quadratic", "peaked", "cubic"]


def _nonlin_coeffs(rng, ft):
    """polynomial in local coordinates u = (r - r0)/L, v = (z - z0)/L, as [[p, q, a], ...]"""
    if ft == "r2":
        return [[2, 0, 1.0]]
    if ft == "rz":
        return [[1, 1, 1.0]]
    if ft == "z2":
        return [[0, 2, 1.0], [0, 0, 0.5]]
    if ft == "quadratic":
        return [[p_, q_, float(rng.normal())] for p_ in range(3) for q_ in range(3 - p_)]
    if ft == "cubic":
        return [[p_, q_, float(rng.normal())] for p_ in range(4) for q_ in range(4 - p_)]
    # peaked: (1 - (u^2 + v^2)/rho2)^2, rho2 = 8  (|u|, |v| <= 2 on the cells)
    r2 = 8.0
    return [[0, 0, 1.0], [2, 0, -2 / r2], [0, 2, -2 / r2], [4, 0, 1 / r2 ** 2], [2, 2, 2 / r2 ** 2], [0, 4, 1 / r2 ** 2]]


def _gen_gridemis(rng, tier):
    """VoxelCollection.emissivities_from_function with non-linear functions, K independent calls per grid_samples value"""
    m = int(rng.integers(1, 5))
    cells = [gen_polygon(rng)[1] for _ in range(m)]
    if rng.random() < 0.4:                                   # a regular grid patch as well
        g = _gen_grid(rng, tier)
        cells = g["cells"][:int(rng.integers(1, 7))]
    A = np.array([v for q in cells for v in q])
    r0, z0 = float(A[:, 0].mean()), float(A[:, 1].mean())
    L = float(2.0 ** math.ceil(math.log2(max(np.abs(A[:, 0] - r0).max(), np.abs(A[:, 1] - z0).max()))))
    ft = NONLIN_TYPES[int(rng.integers(len(NONLIN_TYPES)))]
    gs = int(rng.choice([1, 1, 1, 2, 10, 37]))
    total = 6000 if tier == "quick" else 20000
    return dict(kind="gridemis", cls=ft, cells=cells, prim="csg", f=dict(r0=r0, z0=z0, L=L, coef=_nonlin_coeffs(rng, ft)),
                gs=gs, K=max(2, total // gs), Nv=int(rng.choice([1, 2000, 20000])), rs_seed=int(rng.integers(1, 2 ** 61)))


def _gen_scale(rng, tier):
    """power-of-two scalings about the origin: every quantity the code computes is homogeneous, so the results must
    scale exactly (area 4^k, centroid 2^k, volume 8^k) -- from nanometre to 1000 km cross-sections"""
    cells = [gen_polygon(rng)[1] for _ in range(int(rng.integers(1, 5)))]
    exps = sorted(set(int(e) for e in rng.integers(-40, 21, size=3)) - {0})
    if not exps:
        exps = [-25]
    return dict(kind="scale", cls="scale", cells=cells, exps=exps, prim="csg")


def _gen_emisorder(rng, tier):
    """the same polygon sampled through both primitive types, both orientations and several starting vertices"""
    cls = ["star", "monotone", "rectilinear", "quad", "convex", "sliver", "triangle"][
        int(rng.choice(7, p=[0.25, 0.25, 0.2, 0.1, 0.1, 0.05, 0.05]))]
    cls, P = gen_polygon(rng, cls)
    n = len(P)
    starts = sorted(set([0, int(rng.integers(0, n))]))
    prims = ["csg", "mesh"] if _mesh_ok(P) else ["csg"]
    return dict(kind="emisorder", cls=cls, poly=P, prims=prims, starts=starts,
                fn=dict(a=float(rng.normal()), b=float(rng.normal()), c=float(rng.normal())) if rng.random() < 0.7
                else dict(a=0.0, b=1.0, c=0.0),
                N=int(rng.choice([10000, 30000])), Np=int(rng.choice([200, 800])), rs_seed=int(rng.integers(1, 2 ** 61)))


# -- quadrilaterals that are near-misses of AxisymmetricVoxel._has_rectangular_cross_section ------------------------
# (4 vertices, equal-length diagonals in double precision, first stored edge parallel to an axis).  Lattice shapes are
# placed with power-of-two scales on dyadic offsets so that all coordinate differences, and therefore the two diagonal
# lengths the code compares with ==, are exact.

NEARRECT_SHAPES = ["isosceles-trapezoid", "kite", "equidiagonal-quad", "rectangle", "parallelogram", "rect-45deg",
                   "rect-small-angle", "trapezoid-float"]
_EQNORM = []


def _equal_norm_vectors():
    if not _EQNORM:
        d = {}
        for a in range(-24, 25):
            for b in range(1, 25):
                d.setdefault(a * a + b * b, []).append((a, b))
        _EQNORM.extend(v for _m, v in sorted(d.items()) if len(v) >= 3)
    return _EQNORM


def _lattice_quad(rng, shape):
    if shape == "isosceles-trapezoid":
        a, b = int(rng.integers(1, 25)), int(rng.integers(1, 25))
        if a == b:
            b = a + 1
        h = int(rng.integers(1, 25))
        return [(-a, 0), (a, 0), (b, h), (-b, h)]
    if shape == "kite":                 # symmetric about the diagonal AC, |AC| = |BD|, edge AB on the axis
        while True:
            a, b, k = int(rng.integers(1, 7)), int(rng.integers(1, 7)), int(rng.integers(1, 3))
            if math.gcd(a, b) == 1 and (a, b) != (1, 1) and 2 * b != a:
                break
        return [(0, 0), (k * (a * a + b * b), 0), (2 * k * b * a, 2 * k * b * b), (k * (a * a - b * b), 2 * k * a * b)]
    if shape == "equidiagonal-quad":
        vs = _equal_norm_vectors()
        v = vs[int(rng.integers(len(vs)))]
        i, j = rng.choice(len(v), 2, replace=False)
        w = int(rng.integers(1, 31))
        return [(0, 0), (w, 0), (v[i][0], v[i][1]), (w + v[j][0], v[j][1])]
    if shape == "rectangle":
        w, h = int(rng.integers(1, 33)), int(rng.integers(1, 33))
        return [(0, 0), (w, 0), (w, h), (0, h)]
    if shape == "parallelogram":
        w, h = int(rng.integers(1, 33)), int(rng.integers(1, 33))
        sh = int(rng.integers(1, 17)) * (1 if rng.random() < 0.5 else -1)
        return [(0, 0), (w, 0), (w + sh, h), (sh, h)]
    if shape == "rect-45deg":
        a, b = int(rng.integers(1, 17)), int(rng.integers(1, 17))
        return [(0, 0), (a, a), (a - b, a + b), (-b, b)]
    raise ValueError(shape)


def gen_nearrect_polygon(rng, shape=None):
    if shape is None:
        shape = NEARRECT_SHAPES[int(rng.choice(len(NEARRECT_SHAPES), p=[0.3, 0.12, 0.16, 0.08, 0.08, 0.08, 0.1, 0.08]))]
    for _ in range(60):
        if shape in ("rect-small-angle", "trapezoid-float"):
            w, h = rng.uniform(0.2, 1), rng.uniform(0.2, 1)
            if shape == "rect-small-angle":
                U = np.array([[-w, -h], [w, -h], [w, h], [-w, h]])
                ph = float(10 ** rng.uniform(-9, -1)) * (1 if rng.random() < 0.5 else -1)
            else:
                t = rng.uniform(0.1, 0.9)
                U = np.array([[-w, -h], [w, -h], [w * t, h], [-w * t, h]])
                ph = 0.0
            U = np.stack([U[:, 0] * math.cos(ph) - U[:, 1] * math.sin(ph), U[:, 0] * math.sin(ph) + U[:, 1] * math.cos(ph)], axis=1)
            if rng.random() < 0.5:
                U = U[:, ::-1]
            Rc = float(10 ** rng.uniform(-1, 1))
            size = float(min(10 ** rng.uniform(-3, 0.3), 0.6 * Rc))
            Zc = float(rng.uniform(-5, 5))
            P = [[float(Rc + size * a), float(Zc + size * b)] for a, b in U]
        else:
            Q = np.array(_lattice_quad(rng, shape), dtype=np.int64)
            if rng.random() < 0.5:
                Q = Q[:, ::-1]                                   # first edge parallel to z instead of r
            if rng.random() < 0.5:
                Q[:, 0] = -Q[:, 0]
            if rng.random() < 0.5:
                Q[:, 1] = -Q[:, 1]
            Q[:, 0] -= Q[:, 0].min()
            ext = int(max(np.ptp(Q[:, 0]), np.ptp(Q[:, 1])))
            k = int(rng.integers(-1, 10)) + int(math.ceil(math.log2(ext)))      # extent 2^-9 .. 2 m
            sc = 2.0 ** -k
            R0 = int(rng.integers(410, 40960)) / 4096.0                # 0.1 .. 10 m, multiples of 2^-12
            Z0 = int(rng.integers(-20480, 20481)) / 4096.0
            P = [[float(R0 + sc * int(a)), float(Z0 + sc * int(b))] for a, b in Q]
        s0 = int(rng.integers(4))
        P = P[s0:] + P[:s0]
        if rng.random() < 0.5:
            P = P[::-1]
        if min(q[0] for q in P) > 0 and certify_simple(P)[0]:
            return shape, P
    return "isosceles-trapezoid", [[2.0, 1.0], [3.0, 1.0], [4.0, 0.0], [1.0, 0.0]]


def _gen_nearrect(rng, tier):
    shape, P = gen_nearrect_polygon(rng)
    k = int(rng.integers(5))
    if k == 0:
        fn = dict(a=0.0, b=0.0, c=1.0)                  # f = z
    elif k == 1:
        fn = dict(a=0.0, b=1.0, c=0.0)                  # f = r
    else:
        fn = dict(a=float(rng.normal()), b=float(rng.normal()), c=float(rng.normal()))
    prim = "mesh" if (rng.random() < 0.3 and _mesh_ok(P)) else "csg"
    return dict(kind="nearrect", cls=shape, poly=P, prim=prim, fn=fn, N=int(rng.choice([20000, 100000])),
                Np=int(rng.choice([500, 3000])), rs_seed=int(rng.integers(1, 2 ** 61)))


# -- aliasing: the voxel must own its vertices ------------------------------------------------------------------------

ALIAS_KINDS = ["f64_c", "f64_f", "f64_rowview", "f64_strided", "f32", "int64", "int32", "list_lists", "list_tuples",
               "tuple_tuples", "list_point2d", "list_arrays"]
ALIAS_OPS = ["scale", "reverse", "move-vertex", "overwrite"]


def _representable(rng, ckind):
    """polygon whose coordinates are exactly representable in the container's dtype (certified again after rounding)"""
    for _ in range(40):
        cls, P = gen_polygon(rng)
        if ckind == "f32":
            P = [[float(np.float32(a)), float(np.float32(b))] for a, b in P]
        elif ckind in ("int64", "int32"):
            A = np.array(P)
            ext = max(np.ptp(A[:, 0]), np.ptp(A[:, 1]))
            A = np.round((A - A.min(axis=0)) / ext * float(rng.integers(20, 2000)))
            A[:, 0] += float(rng.integers(1, 500))
            A[:, 1] -= float(rng.integers(0, 500))
            P = [[float(a), float(b)] for a, b in A]
        if min(q[0] for q in P) > 0 and certify_simple(P)[0]:
            return cls, P
    return "triangle", [[1.0, 0.0], [3.0, 1.0], [2.0, 4.0]]


def _gen_alias(rng, tier):
    if rng.random() < 0.3:
        g = _gen_grid(rng, tier)
        while g["cls"] != "grid:rect" and g["cls"] != "grid:tri":
            g = _gen_grid(rng, tier)
        cells = g["cells"][:60]
        ck = ["f64_c", "f64_f", "f32", "f64_rowview"][int(rng.choice(4, p=[0.55, 0.15, 0.15, 0.15]))]
        if ck == "f32":
            cells = [[[float(np.float32(a)), float(np.float32(b))] for a, b in cell] for cell in cells]
        return dict(kind="alias", mode="grid", cls="alias-grid:" + ck, ckind=ck, cells=cells, prim="csg",
                    op=ALIAS_OPS[int(rng.integers(len(ALIAS_OPS)))])
    ck = ALIAS_KINDS[int(rng.choice(len(ALIAS_KINDS), p=[0.22, 0.07, 0.12, 0.07, 0.07, 0.06, 0.05, 0.08, 0.06, 0.05,
                                                          0.08, 0.07]))]
    cls, P = _representable(rng, ck)
    return dict(kind="alias", mode="voxel", cls="alias:" + ck, ckind=ck, poly=P, prim="csg",
                op=ALIAS_OPS[int(rng.integers(len(ALIAS_OPS)))], reuse=bool(rng.random() < 0.4))


# -- grid state sequences ---------------------------------------------------------------------------------------------

def _gen_gridseq(rng, tier):
    if rng.random() < 0.5:
        cells = [gen_polygon(rng)[1] for _ in range(int(rng.integers(1, 9)))]
    else:
        g = _gen_grid(rng, tier)
        cells = g["cells"][:int(rng.integers(1, 25))]
    n = len(cells)
    ctor_active = "all" if rng.random() < 0.5 else int(rng.integers(n))
    ops = []
    for _ in range(int(rng.integers(2, 11))):
        k = int(rng.integers(8))
        if k == 0:
            ops.append(["set_active", "all"])
        elif k in (1, 2):
            ops.append(["set_active", int(rng.integers(n))])
        elif k == 3:
            ops.append(["unparent_all_voxels"])
        elif k == 4:
            ops.append(["parent_all_voxels"])
        elif k == 5:
            ops.append(["grid_parent", [None, 0, 1][int(rng.integers(3))]])
        elif k == 6:
            ops.append(["voxel_parent", int(rng.integers(n)), ["none", "grid"][int(rng.integers(2))]])
        else:
            ops.append(["read"])
    return dict(kind="gridseq", cls="gridseq", cells=cells, prim="csg", ctor_active=ctor_active,
                ctor_parent=[None, 0][int(rng.integers(2))], ops=ops)


def _gen_grid(rng, tier):
    gt = ["rect", "tri", "mixed"][int(rng.choice(3, p=[0.45, 0.3, 0.25]))]
    big = rng.random() < (0.15 if tier == "quick" else 0.3)
    if gt == "mixed":
        m = int(rng.integers(1, 13 if not big else 41))
        cells = [gen_polygon(rng)[1] for _ in range(m)]
    else:
        cap = 400 if big else 60
        nr = int(rng.integers(1, 21))
        nz = int(rng.integers(1, 21))
        while nr * nz * (2 if gt == "tri" else 1) > cap:
            if nr >= nz:
                nr = max(1, nr // 2)
            else:
                nz = max(1, nz // 2)
        R0 = float(10 ** rng.uniform(-1, 0.9))
        W = float(R0 * 10 ** rng.uniform(-1.5, 0.3))
        Z0 = float(rng.uniform(-5, 4))
        H = float(10 ** rng.uniform(-1.5, 0.5))
        if rng.random() < 0.5:
            re = R0 + W * np.arange(nr + 1) / nr          # uniform (linspace-like) edges
            ze = Z0 + H * np.arange(nz + 1) / nz
        else:
            re = R0 + W * np.concatenate([[0.0], np.cumsum(rng.uniform(0.2, 1, nr))]) / nr
            ze = Z0 + H * np.concatenate([[0.0], np.cumsum(rng.uniform(0.2, 1, nz))]) / nz
        cells = []
        for i in range(nr):
            for j in range(nz):
                a = [float(re[i]), float(ze[j])]
                b = [float(re[i]), float(ze[j + 1])]
                c = [float(re[i + 1]), float(ze[j + 1])]
                d = [float(re[i + 1]), float(ze[j])]
                if gt == "rect":
                    q = [a, b, c, d]
                    s = int(rng.integers(4))
                    q = q[s:] + q[:s]
                    cells.append(q[::-1] if rng.random() < 0.5 else q)
                elif rng.random() < 0.5:
                    cells += [[a, b, c], [a, c, d]]
                else:
                    cells += [[a, b, d], [b, c, d]]
    return dict(kind="grid", cls="grid:" + gt, cells=cells, prim="csg",
                const=float(rng.choice([1.0, 0.1, 5.0, -3.7, 1e-300, 1e30, float(rng.normal())])),
                nconst=int(rng.choice([1, 3, 10, 37])))


def _gen_emis(rng, tier):
    cls, P = gen_polygon(rng)
    u = rng.random()
    if u < 0.18:
        ft = ["const_float", "const_native", "const_python"][int(rng.integers(3))]
        N = int(rng.choice([-1, 1, 11, 100, 1000, 20000])) if ft == "const_python" else int(rng.choice([-1, 1, 10, 1000, 200000]))
        fn = dict(type=ft, a=float(rng.choice([1.0, 0.1, 5.0, -2.5, 1e-300, 1e30, 1.0 / 3.0, float(rng.normal())])))
    elif u < 0.62:
        N = int(rng.choice([10, 1000, 20000, 200000], p=[0.05, 0.1, 0.15, 0.7]))
        fn = dict(type="linear_native", **_lin_coeffs(rng))
    elif u < 0.8:
        N = 200000
        fn = dict(type="bounded_native")
    else:
        N = int(rng.choice([-1, 500, 20000], p=[0.1, 0.2, 0.7]))
        fn = dict(type="linear_python", **_lin_coeffs(rng))
    prim = "mesh" if (rng.random() < 0.3 and _mesh_ok(P)) else "csg"
    return dict(kind="emis", cls=cls, poly=P, prim=prim, fn=fn, N=N, rs_seed=int(rng.integers(1, 2 ** 62)))


def _lin_coeffs(rng):
    k = int(rng.integers(4))
    a = float(rng.normal())
    if k == 0:
        return dict(a=0.0, b=1.0, c=0.0)             # f = r (volume weighting)
    if k == 1:
        return dict(a=a, b=0.0, c=float(rng.normal()))
    return dict(a=a, b=float(rng.normal()), c=float(rng.normal()))


# hostile polygon found while calibrating: float sum of the triangle areas is 2.1e-8 (relative) below the shoelace total,
# so total_area * uniform() can exceed cumulative_areas[-1]; with Raysect seed 843 this happens at sample 133554.
_OOB_POLY = [[9.4107760800845, 4.946792306198384], [9.410685792859269, 4.9468483066842275],
             [9.41032610490775, 4.946964287570173], [9.409204914485185, 4.945997221233986],
             [9.409242404017952, 4.9456993002423895], [9.410298871754275, 4.9449761526876514]]


def fixed_cases(tier):
    out = []
    # the repository's own shapes (test_voxels.py), now in every ordering
    for P in ([[4, 3], [3, 2], [2, -1]], [[4, 3], [4, -1], [2, 2]], [[4, -1], [2, -1], [2, 3]],
              [[2, -1], [2, 3], [4, 3], [4, -1]], [[2, -1], [2, 2], [3, 4], [4, 3], [4, -1]],
              [[2, -1], [2, 2], [3, 4], [4, 3], [5, 0]]):
        for prim in ("csg", "mesh"):
            out.append(dict(kind="poly", cls="repo-tests", poly=[[float(a), float(b)] for a, b in P], prim=prim))
    # collinear vertices, L-shape, comb, far thin sliver, isosceles trapezoid, non-dyadic decimal grid cell
    out += [
        dict(kind="poly", cls="rectilinear", prim="csg",
             poly=[[1, 0], [1, 0.5], [1, 1], [1.5, 1], [2, 1], [2, 0.5], [2, 0], [1.5, 0]]),
        dict(kind="poly", cls="rectilinear", prim="csg", poly=[[1, 0], [1, 2], [2, 2], [2, 1], [1.5, 1], [1.5, 0]]),
        dict(kind="poly", cls="monotone", prim="csg",
             poly=[[1, 0], [1, 2], [1.2, 2], [1.2, 0.5], [1.4, 0.5], [1.4, 2], [1.6, 2], [1.6, 0.5], [1.8, 0.5], [1.8, 2],
                   [2, 2], [2, 0]]),
        dict(kind="poly", cls="sliver", prim="csg", poly=[[9.5, 4.9], [10.5, 4.9004], [10.5, 4.9014], [9.5, 4.901]]),
        dict(kind="poly", cls="quad", prim="csg", poly=[[1, 0], [3, 0], [2.5, 1], [1.5, 1]]),
        dict(kind="poly", cls="rectangle", prim="csg", poly=[[1.1, 0.3], [1.1, 0.4], [1.2, 0.4], [1.2, 0.3]]),
        dict(kind="poly", cls="star", prim="mesh",
             poly=[[2.0, 0.0], [1.2, 0.2], [1.0, 1.0], [0.8, 0.2], [0.1, 0.0], [0.8, -0.2], [1.0, -1.0], [1.2, -0.2]]),
    ]
    for c in out:
        c["poly"] = [[float(a), float(b)] for a, b in c["poly"]]
    # grids: one voxel, 20 x 20, triangulated
    re = [1.0 + 0.05 * i for i in range(21)]
    ze = [-0.5 + 0.05 * j for j in range(21)]
    cells = [[[re[i], ze[j]], [re[i], ze[j + 1]], [re[i + 1], ze[j + 1]], [re[i + 1], ze[j]]]
             for i in range(20) for j in range(20)]
    out.append(dict(kind="grid", cls="grid:rect", cells=cells, prim="csg", const=5.0, nconst=10))
    out.append(dict(kind="grid", cls="grid:rect", cells=cells[:1], prim="csg", const=0.1, nconst=10))
    tri = []
    for q in cells[:40]:
        tri += [[q[0], q[1], q[2]], [q[0], q[2], q[3]]]
    out.append(dict(kind="grid", cls="grid:tri", cells=tri, prim="mesh", const=1.0 / 3.0, nconst=3))
    # emissivity: default sample count, constants, the seeded hostile lookup case (see _OOB_POLY), a two-triangle quad
    # whose triangles have very different areas (an off-by-one lookup is maximally visible)
    quad = [[1.0, 0.0], [1.0, 1.0], [3.0, 1.0], [1.05, 0.05]]
    out += [
        dict(kind="emis", cls="repo-tests", poly=[[2.0, -1.0], [2.0, 2.0], [3.0, 4.0], [4.0, 3.0], [4.0, -1.0]], prim="csg",
             fn=dict(type="const_python", a=5.0), N=1000, rs_seed=1234567890),
        dict(kind="emis", cls="repo-tests", poly=[[2.0, -1.0], [2.0, 2.0], [3.0, 4.0], [4.0, 3.0], [4.0, -1.0]], prim="csg",
             fn=dict(type="const_float", a=0.1), N=-1, rs_seed=1),
        dict(kind="emis", cls="quad", poly=quad, prim="csg", fn=dict(type="linear_native", a=0.5, b=1.0, c=-2.0),
             N=200000, rs_seed=7),
        dict(kind="emis", cls="quad", poly=quad[::-1], prim="csg", fn=dict(type="linear_python", a=0.5, b=1.0, c=-2.0),
             N=20000, rs_seed=8),
        dict(kind="emis", cls="hostile:area-rounding-deficit", poly=_OOB_POLY, prim="csg",
             fn=dict(type="linear_python", a=0.0, b=1.0, c=1.0), N=200000, rs_seed=843),
        dict(kind="emis", cls="hostile:area-rounding-deficit", poly=_OOB_POLY, prim="csg",
             fn=dict(type="bounded_native"), N=200000, rs_seed=843),
    ]
    # near-misses of the rectangle test, aliasing of caller-owned containers, grid state sequences
    trap = [[2.0, 1.0], [3.0, 1.0], [4.0, 0.0], [1.0, 0.0]]
    out += [
        dict(kind="nearrect", cls="isosceles-trapezoid", poly=trap, prim="csg", fn=dict(a=0.0, b=0.0, c=1.0), N=100000,
             Np=3000, rs_seed=11),
        dict(kind="nearrect", cls="isosceles-trapezoid", poly=[[q[1] + 1.0, q[0]] for q in trap], prim="csg",
             fn=dict(a=0.3, b=1.0, c=-0.5), N=100000, Np=3000, rs_seed=12),
        dict(kind="nearrect", cls="kite", poly=[[4.0, 0.0], [9.0, 0.0], [8.0, 8.0], [1.0, 4.0]], prim="csg",
             fn=dict(a=0.0, b=1.0, c=1.0), N=100000, Np=3000, rs_seed=13),
        dict(kind="nearrect", cls="equidiagonal-quad", poly=[[1.0, 0.0], [4.0, 0.0], [5.0, 3.0], [1.0, 4.0]], prim="csg",
             fn=dict(a=0.0, b=1.0, c=1.0), N=100000, Np=3000, rs_seed=14),
        dict(kind="nearrect", cls="rectangle", poly=[[2.0, -1.0], [2.0, 3.0], [4.0, 3.0], [4.0, -1.0]], prim="csg",
             fn=dict(a=0.0, b=1.0, c=1.0), N=100000, Np=3000, rs_seed=15),
    ]
    for ck in ALIAS_KINDS:
        out.append(dict(kind="alias", mode="voxel", cls="alias:" + ck, ckind=ck, prim="csg", op="scale", reuse=True,
                        poly=[[2.0, 0.0], [2.0, 3.0], [3.0, 3.0], [3.0, 1.0], [5.0, 1.0], [5.0, 0.0]]))
    for ck, op in (("f64_c", "scale"), ("f64_c", "overwrite"), ("f64_rowview", "move-vertex"), ("f32", "reverse")):
        cc = cells[:12] if ck != "f32" else [[[float(np.float32(a)), float(np.float32(b))] for a, b in q] for q in cells[:12]]
        out.append(dict(kind="alias", mode="grid", cls="alias-grid:" + ck, ckind=ck, cells=cc, prim="csg", op=op))
    # both primitive types x both orientations x several starting vertices of concave polygons; scale classes
    lshape = [[2.0, 0.0], [2.0, 3.0], [3.0, 3.0], [3.0, 1.0], [5.0, 1.0], [5.0, 0.0]]
    dart = [[1.0, 0.0], [3.0, 1.0], [1.0, 2.0], [1.5, 1.0]]
    penta = [[2.0, -1.0], [2.0, 2.0], [3.0, 4.0], [4.0, 3.0], [4.0, -1.0]]
    out += [
        dict(kind="emisorder", cls="rectilinear", poly=lshape, prims=["csg", "mesh"], starts=[0, 2, 3],
             fn=dict(a=0.2, b=1.0, c=-0.7), N=50000, Np=1500, rs_seed=21),
        dict(kind="emisorder", cls="quad", poly=dart, prims=["csg", "mesh"], starts=[0, 1, 3],
             fn=dict(a=0.0, b=1.0, c=1.0), N=50000, Np=1500, rs_seed=22),
        dict(kind="scale", cls="scale", cells=[penta, lshape], exps=[-31, -21, -10, 17], prim="csg"),
        dict(kind="scale", cls="scale", cells=[cells[0], cells[1], cells[21]], exps=[-40, -17, 20], prim="csg"),
        dict(kind="poly", cls="wide:repo-tests", poly=[[x * 5e-7, y * 5e-7] for x, y in penta], prim="csg", max_orderings=0),
        dict(kind="poly", cls="wide:repo-tests", poly=[[x * 3e2, y * 3e2] for x, y in penta], prim="csg", max_orderings=0),
        dict(kind="grid", cls="grid:rect", prim="csg", const=1.0, nconst=3,
             cells=[[[2.0 + 5e-7 * i, 5e-7 * j], [2.0 + 5e-7 * i, 5e-7 * (j + 1)], [2.0 + 5e-7 * (i + 1), 5e-7 * (j + 1)],
                     [2.0 + 5e-7 * (i + 1), 5e-7 * j]] for i in range(3) for j in range(3)]),
    ]
    # call sequences over voxels with different vertex counts; grid-level API with non-linear functions
    hexa = [[1.0 + 0.1 * math.cos(t * math.pi / 3), 0.1 * math.sin(t * math.pi / 3)] for t in range(6)]
    bigp = [[2.0, 0.0], [2.0, 1.0], [3.0, 2.5], [4.0, 1.0], [4.0, 0.0]]
    out += [
        dict(kind="seq", cls="more-vertices-smaller-area-first", polys=[hexa, bigp, lshape, dart], prims=["csg"] * 4,
             steps=[0, 1, 2, 3, 0, 1], via_grid=True, fn=dict(a=0.1, b=1.0, c=0.5), N=30000, Np=4000, rs_seed=31),
        dict(kind="seq", cls="interleaved", polys=[bigp, hexa, dart, lshape, penta], prims=["csg", "mesh", "csg", "csg", "csg"],
             steps=[1, 0, 3, 2, 4, 0], via_grid=False, fn=dict(a=0.0, b=0.0, c=1.0), N=30000, Np=4000, rs_seed=32),
    ]
    three = [[[1.0, 0.0], [1.0, 1.0], [3.0, 1.0], [3.0, 0.0]], [[1.0, -1.0], [2.0, 1.0], [4.0, -1.0]], bigp]
    for gs, ft in ((1, "r2"), (1, "rz"), (1, "peaked"), (2, "quadratic"), (10, "r2")):
        out.append(dict(kind="gridemis", cls=ft, cells=three, prim="csg", gs=gs, K=6000 // gs, Nv=2000, rs_seed=40 + gs,
                        f=dict(r0=2.5, z0=0.5, L=2.0, coef=_nonlin_coeffs(np.random.default_rng(5), ft))))
    out += [
        dict(kind="placement", cls="placement:world", cells=three, parent="world", node_transforms=[[], []],
             grid_transform=[["translate", 0.0, 0.0, 0.4]], voxel_transform=[["rotate_z", 90.0]],
             ops=[["set_active", 1], ["set_active", "all"]], fn=dict(a=0.0, b=1.0, c=1.0), N=30000, rs_seed=61),
        dict(kind="placement", cls="placement:nested", cells=[lshape, dart], parent="nested",
             node_transforms=[[["translate", 1.0, 2.0, 3.0]], [["rotate_x", 30.0]]], grid_transform=[["rotate_z", 90.0]],
             voxel_transform=[["translate", 0.5, 0.0, -0.7]], ops=[["grid_parent", "none"], ["grid_transform", [["rotate_y", 45.0]]]],
             fn=dict(a=0.2, b=-1.0, c=0.5), N=30000, rs_seed=62),
    ]
    for ou in GRID_OUTER:
        out.append(dict(kind="gridcont", cls="gridcont:" + ou, cells=cells[:5], outer=ou,
                        inner=GRID_INNER[len(ou) % len(GRID_INNER)], active="all" if len(ou) % 2 else 0))
    out += [
        dict(kind="gridhist", cls="gridhist", grids=[three, cells[:4]], rs_seed=51, calls=[
            dict(g=0, f=dict(type="const", a=3.0), gs=10), dict(g=0, f=dict(type="const", a=7.0), gs=10),
            dict(g=1, f=dict(type="const", a=0.1), gs=1), dict(g=0, f=dict(type="linear", a=0.0, b=1.0, c=1.0), gs=20000),
            dict(g=1, f=dict(type="linear", a=1.0, b=-1.0, c=2.0), gs=1000),
            dict(g=0, f=dict(type="poly", name="r2", r0=2.5, z0=0.5, L=2.0, coef=[[2, 0, 1.0]]), gs=20000),
            dict(g=0, f=dict(type="const", a=-2.5), gs=1)]),
    ]
    out += [
        dict(kind="gridseq", cls="gridseq", cells=cells[:6], prim="csg", ctor_active="all", ctor_parent=None,
             ops=[["set_active", 2], ["read"], ["set_active", "all"], ["unparent_all_voxels"], ["parent_all_voxels"],
                  ["grid_parent", 0], ["voxel_parent", 1, "none"], ["grid_parent", None], ["set_active", 0]]),
        dict(kind="gridseq", cls="gridseq", cells=tri[:5], prim="csg", ctor_active=3, ctor_parent=0,
             ops=[["read"], ["unparent_all_voxels"], ["set_active", 4], ["grid_parent", 1], ["set_active", "all"]]),
    ]
    return out


# ------------------------------------------------------------------------------------------------
# execution helpers
# ------------------------------------------------------------------------------------------------

def _mk_voxel(P, prim, vtype="list"):
    from cherab.tools.inversions import AxisymmetricVoxel
    if vtype == "array":
        verts = np.array(P, dtype=float)
    elif vtype == "point2d":
        from raysect.core import Point2D
        verts = [Point2D(x, y) for x, y in P]
    else:
        verts = [(x, y) for x, y in P]
    return AxisymmetricVoxel(verts, primitive_type=prim)


def _in_child(fn, timeout=600.0):
    """Run fn() in a forked child; returns {'ok': result} | {'exc': ...} | {'signal': n}."""
    r, w = os.pipe()
    pid = os.fork()
    if pid == 0:
        code = 0
        try:
            os.close(r)
            try:
                out = {"ok": fn()}
            except BaseException as e:  # noqa
                out = {"exc": type(e).__name__, "msg": str(e)[:300], "tb": traceback.format_exc()[-3000:],
                       "target": bool(getattr(e, "from_target", False))}
            data = json.dumps(out).encode()
            off = 0
            while off < len(data):
                off += os.write(w, data[off:off + 65536])
        except BaseException:  # noqa
            code = 3
        finally:
            os._exit(code)
    os.close(w)
    chunks = []
    t0 = time.time()
    try:
        while True:
            left = timeout - (time.time() - t0)
            if left <= 0:
                os.kill(pid, signal.SIGKILL)
                os.waitpid(pid, 0)
                raise RuntimeError("C17 harness: sampling child exceeded %.0f s" % timeout)
            rd, _, _ = select.select([r], [], [], min(left, 5.0))
            if rd:
                b = os.read(r, 1 << 16)
                if not b:
                    break
                chunks.append(b)
    finally:
        os.close(r)
    _, status = os.waitpid(pid, 0)
    if os.WIFSIGNALED(status):
        return {"signal": os.WTERMSIG(status)}
    data = b"".join(chunks)
    if not data:
        raise RuntimeError("C17 harness: sampling child returned nothing (exit status %r)" % (status,))
    return json.loads(data.decode())


class _TargetError(Exception):
    from_target = True


def _lookup_hazard(voxel):
    """Classification only (never a verdict): relative amount by which the double-precision sum of the triangle areas
    falls below the shoelace total, i.e. the per-sample probability that total_area*uniform() >= cumulative_areas[-1]."""
    from raysect.core.math import triangulate2d
    V = np.array([[p.x, p.y] for p in voxel.vertices], dtype=float)
    T = triangulate2d(V)
    cum = 0.0
    for t in T:
        (x1, y1), (x2, y2), (x3, y3) = V[t[0]], V[t[1]], V[t[2]]
        cum = cum + 0.5 * abs(x1 * y2 + x2 * y3 + x3 * y1 - x2 * y1 - x3 * y2 - x1 * y3)
    tot = voxel.cross_sectional_area
    return max(0.0, (tot - cum) / tot) if len(T) > 1 else 0.0


def _outside(P, pts, tol):
    """indices of points lying outside polygon P by more than tol (float even-odd rule + distance to the boundary)"""
    V = np.asarray(P, dtype=float)
    x, y = pts[:, 0], pts[:, 1]
    n = len(V)
    inside = np.zeros(len(pts), dtype=bool)
    dmin = np.full(len(pts), np.inf)
    for i in range(n):
        x1, y1 = V[i]
        x2, y2 = V[(i + 1) % n]
        cond = (y1 > y) != (y2 > y)
        with np.errstate(divide="ignore", invalid="ignore"):
            xi = x1 + (y - y1) * (x2 - x1) / (y2 - y1)
        inside ^= cond & (x < xi)
        ex, ey = x2 - x1, y2 - y1
        L2 = ex * ex + ey * ey
        tt = np.clip(((x - x1) * ex + (y - y1) * ey) / L2, 0.0, 1.0)
        d = np.hypot(x - (x1 + tt * ex), y - (y1 + tt * ey))
        dmin = np.minimum(dmin, d)
    bad = ~np.isfinite(x) | ~np.isfinite(y) | (~inside & (dmin > tol))
    return np.flatnonzero(bad)


def _bernstein(sigma, width, N, p=P_FALSE):
    """t with P(|mean - mu| >= t) <= p for N iid samples, std sigma, |X - mu| <= width (Bernstein's inequality)."""
    L = math.log(2.0 / p)
    h = width * L / (3.0 * N)
    return h + math.sqrt(h * h + 2.0 * sigma * sigma * L / N)


# ------------------------------------------------------------------------------------------------
# run_case
# ------------------------------------------------------------------------------------------------

def run_case(case, ctx):
    kind = case["kind"]
    if kind == "poly":
        return _run_poly(case, ctx)
    if kind == "grid":
        return _run_grid(case, ctx)
    if kind == "emis":
        return _run_emis(case, ctx)
    if kind == "nearrect":
        return _run_nearrect(case, ctx)
    if kind == "alias":
        return _run_alias_grid(case, ctx) if case.get("mode") == "grid" else _run_alias(case, ctx)
    if kind == "gridseq":
        return _run_gridseq(case, ctx)
    if kind == "scale":
        return _run_scale(case, ctx)
    if kind == "emisorder":
        return _run_nearrect(case, ctx, general=True)
    if kind == "seq":
        return _run_seq(case, ctx)
    if kind == "gridemis":
        return _run_gridemis(case, ctx)
    if kind == "gridhist":
        return _run_gridhist(case, ctx)
    if kind == "placement":
        return _run_placement(case, ctx)
    if kind == "gridcont":
        return _run_gridcont(case, ctx)
    raise ValueError("unknown case kind %r" % kind)


def _certified(P, ctx):
    ok, why = certify_simple(P)
    if not ok:
        ctx.skip("polygon not certified simple: " + why)
        return False
    if min(p[0] for p in P) <= 0:
        ctx.skip("polygon touches or crosses r = 0")
        return False
    return True


MAX_REL_BOUND = 1e-3


def _observe(v, ctx, **det):
    """(area, centroid r, centroid z, volume) of a voxel built from a certified (non-zero-area) polygon; a
    ZeroDivisionError is the documented reaction to a ZERO-area cross-section only, so here it is a violation"""
    try:
        c = v.cross_section_centroid
    except ZeroDivisionError as e:
        ctx.viol("centroid:zero-division-for-non-degenerate-polygon",
                 "cross_section_centroid raised ZeroDivisionError for a simple polygon of non-zero area: %s" % e,
                 area_reported=float(v.cross_sectional_area), volume_reported=float(v.volume), **det)
        return None
    return (float(v.cross_sectional_area), float(c.x), float(c.y), float(v.volume))


def _well_conditioned(tb, ex, ctx):
    """the double-precision shoelace / Bourke sums about the coordinate origin lose ~eps*R*|z|/area: when the computed
    worst-case bound exceeds 1e-3 (relative to area, to the centroid radius, or to the polygon extent for the centroid
    height) the statement 'equal' is undecidable at double precision for this input -> skipped and counted"""
    A, cx = float(ex["A"]), float(ex["cx"])
    if tb["A"] > MAX_REL_BOUND * A or tb["cx"] > MAX_REL_BOUND * abs(cx) or tb["vol"] > MAX_REL_BOUND * abs(tb["volume"]):
        ctx.skip("rounding bound of the double-precision shoelace sums exceeds 1e-3 (tiny cross-section far from the origin)")
        return False
    return True


def _orderings(P, cap):
    """all rotations x both orientations; cap > 0: at most cap of them, evenly spaced start vertices (quick tier)"""
    n = len(P)
    starts = list(range(n))
    if cap and 2 * n > cap:
        m = max(1, cap // 2)
        starts = sorted(set(int(round(i * n / m)) % n for i in range(m)))
    return [(s0, rev) for rev in (False, True) for s0 in starts]


def _run_poly(case, ctx):
    P = [[float(a), float(b)] for a, b in case["poly"]]
    prim = case.get("prim", "csg")
    ctx.cls("poly:" + case.get("cls", "?"))
    ctx.cls("prim:" + prim)
    if not _certified(P, ctx):
        return
    ex = exact_moments(P)
    tb = rounding_bounds(P, ex)
    if not _well_conditioned(tb, ex, ctx):
        return
    A, cx, cy = float(ex["A"]), float(ex["cx"]), float(ex["cy"])
    n = len(P)
    res = {"cw": [], "ccw": []}
    vtypes = ("list", "array", "point2d")
    k = 0
    for s, rev in _orderings(P, int(case.get("max_orderings", 0) or 0)):
        base = P[::-1] if rev else P
        orient = "ccw" if (ex["ccw"] != rev) else "cw"
        Q = base[s:] + base[:s]
        v = _mk_voxel(Q, prim, vtypes[k % 3])
        k += 1
        ob = _observe(v, ctx, n_vertices=n, orientation_given=orient, prim=prim)
        if ob is None:
            return
        res[orient].append(ob)
    ctx.nontrivial()
    allr = []
    for orient, rows in res.items():
        if not rows:
            continue
        R = np.array(rows, dtype=float)
        allr.append(R)
        det = dict(n_vertices=n, orientation_given=orient, prim=prim)
        ctx.close(R[:, 0], A, "area:%s-input" % orient,
                  "cross_sectional_area differs from the polygon's true area (%s vertex list)" % orient,
                  atol=tb["A"], monitor="area", **det)
        ctx.close(R[:, 1], cx, "centroid-r:%s-input" % orient,
                  "cross_section_centroid.x differs from the true centroid radius (%s vertex list)" % orient,
                  atol=tb["cx"], monitor="centroid", **det)
        ctx.close(R[:, 2], cy, "centroid-z:%s-input" % orient,
                  "cross_section_centroid.y differs from the true centroid height (%s vertex list)" % orient,
                  atol=tb["cy"], monitor="centroid", **det)
        ctx.close(R[:, 3], tb["volume"], "volume:%s-input" % orient,
                  "volume differs from 2 pi x true centroid radius x true area (%s vertex list)" % orient,
                  atol=tb["vol"], monitor="volume", **det)
        ctx.close(R[:, 3], 2 * PI_CODE * R[:, 1] * R[:, 0], "volume:not-2pi-rc-A-of-reported-values",
                  "volume is not 2 pi x reported centroid radius x reported area", rtol=4 * EPS,
                  monitor="volume_self", **det)
    R = np.concatenate(allr, axis=0)
    for col, name, tol in ((0, "area", tb["A"]), (1, "centroid-r", tb["cx"]), (2, "centroid-z", tb["cy"]),
                           (3, "volume", tb["vol"])):
        spread = float(R[:, col].max() - R[:, col].min())
        ctx.close(spread, 0.0, "order:%s-depends-on-vertex-order" % name,
                  "%s changes under cyclic rotation / reversal of the vertex list by more than rounding" % name,
                  atol=2 * tol, monitor="order", n_vertices=n, orderings=int(R.shape[0]))


def _run_grid(case, ctx):
    from cherab.tools.inversions import ToroidalVoxelGrid
    cells = [[[float(a), float(b)] for a, b in cell] for cell in case["cells"]]
    prim = case.get("prim", "csg")
    ctx.cls(case.get("cls", "grid"))
    ctx.cls("gridsize:%s" % ("1" if len(cells) == 1 else "2-20" if len(cells) <= 20 else "21-100" if len(cells) <= 100 else "101-400"))
    for cell in cells:
        if not _certified(cell, ctx):
            return
    grid = ToroidalVoxelGrid(cells, primitive_type=prim)
    ctx.check(len(grid) == len(cells) and grid.count == len(cells), "grid:voxel-count",
              "grid does not hold one voxel per input polygon", monitor="grid_count")
    tv = grid.total_volume
    vols = [v.volume for v in grid]
    s = 0
    for x in vols:
        s += x
    ctx.nontrivial()
    ctx.close(tv, s, "grid:total-volume-not-sum-of-voxel-volumes",
              "ToroidalVoxelGrid.total_volume differs from the sum of its voxels' volumes",
              rtol=max(len(cells), 2) * EPS, monitor="grid_total", n_voxels=len(cells))
    want, tols = [], []
    for cell in cells:
        ex = exact_moments(cell)
        tb = rounding_bounds(cell, ex)
        want.append(tb["volume"])
        tols.append(tb["vol"])
    ctx.close(np.array(vols), np.array(want), "volume:grid-voxel",
              "volume of a grid voxel differs from 2 pi x true centroid radius x true area",
              atol=np.array(tols), monitor="volume", n_voxels=len(cells))
    ctx.close(tv, math.fsum(want), "grid:total-volume-not-sum-of-true-volumes",
              "ToroidalVoxelGrid.total_volume differs from the sum of the true voxel volumes",
              atol=float(np.sum(tols)) + len(cells) * EPS * math.fsum(want), monitor="grid_exact", n_voxels=len(cells))
    c = float(case.get("const", 1.0))
    N = int(case.get("nconst", 10))
    from raysect.core.math.random import seed
    seed(12345 + len(cells))

    def job():
        try:
            return [float(x) for x in grid.emissivities_from_function(c, N)]
        except Exception as e:
            raise _wrap_target(e)
    out = _in_child(job)
    if "signal" in out:
        ctx.viol("emissivity:sampler-crash:grid", "worker child died with signal %d inside emissivities_from_function"
                 % out["signal"], n_voxels=len(cells))
        return
    if "exc" in out:
        _report_child_exception(out, ctx, "emissivities_from_function")
        return
    ctx.close(np.array(out["ok"]), c, "emissivity:constant-not-exact:grid",
              "VoxelCollection.emissivities_from_function of a constant is not the constant", rtol=(2 * N + 4) * EPS,
              monitor="emis_const", const=c, N=N)


def _wrap_target(e):
    t = _TargetError("%s: %s" % (type(e).__name__, e))
    t.orig = type(e).__name__
    t.tb = traceback.format_exc()
    return t


def _report_child_exception(out, ctx, where):
    if out.get("target"):
        ctx.viol("unexpected-exception:%s@voxels.pyx:%s" % (out["msg"].split(":")[0], where),
                 "unexpected exception while executing an in-domain case: %s" % out["msg"], traceback=out["tb"])
    else:
        raise RuntimeError("C17 harness error inside sampling child: %s\n%s" % (out["msg"], out["tb"]))


def _run_emis(case, ctx):
    P = [[float(a), float(b)] for a, b in case["poly"]]
    fn = case["fn"]
    N = int(case["N"])
    ft = fn["type"]
    ctx.cls("emis:" + ft)
    ctx.cls("emis-poly:" + case.get("cls", "?"))
    ctx.cls("emis-N:%s" % ("default" if N < 0 else N))
    if not _certified(P, ctx):
        return
    ex = exact_moments(P)
    cx, cy = float(ex["cx"]), float(ex["cy"])
    n = len(P)
    Neff = 10 if N < 0 else N
    V = np.asarray(P, dtype=float)
    ext = float(max(np.ptp(V[:, 0]), np.ptp(V[:, 1])))
    voxel = _mk_voxel(P, case.get("prim", "csg"))
    hazard = _lookup_hazard(voxel)
    a, b, c = float(fn.get("a", 0.0)), float(fn.get("b", 0.0)), float(fn.get("c", 0.0))
    rc, zc = float(V[:, 0].mean()), float(V[:, 1].mean())
    scale2 = 1.0 / (ext * ext)

    def job():
        from raysect.core.math.random import seed
        from raysect.core.math.function.float import Arg3D, Constant3D
        pts = []
        if ft == "const_float":
            f = a
        elif ft == "const_native":
            f = Constant3D(a)
        elif ft == "const_python":
            def f(x, y, z):
                pts.append((x, z))
                return a
        elif ft == "linear_native":
            f = a + b * Arg3D('x') + c * Arg3D('z')
        elif ft == "bounded_native":
            f = ((Arg3D('x') - rc) ** 2 + (Arg3D('z') - zc) ** 2) * scale2
        elif ft == "linear_python":
            def f(x, y, z):
                pts.append((x, z))
                return a + b * x + c * z
        else:
            raise ValueError(ft)
        seed(int(case["rs_seed"]))
        try:
            m = voxel.emissivity_from_function(f) if N < 0 else voxel.emissivity_from_function(f, N)
        except Exception as e:
            raise _wrap_target(e)
        res = {"mean": float(m), "npts": len(pts)}
        if pts:
            A = np.array(pts, dtype=float)
            bad = _outside(P, A, 1e-9 * ext)
            res["n_outside"] = int(len(bad))
            res["first_outside"] = [[int(i), float(A[i, 0]), float(A[i, 1])] for i in bad[:3]]
        return res

    out = _in_child(job)
    oob_expected = hazard * Neff
    det = dict(fn=ft, N=Neff, n_vertices=n, lookup_hazard=hazard)
    if "signal" in out:
        key = KNOWN_OOB_KEY if oob_expected > 1e-6 else "emissivity:sampler-crash"
        ctx.viol(key, "child died with signal %d inside emissivity_from_function" % out["signal"], **det)
        return
    if "exc" in out:
        _report_child_exception(out, ctx, "emissivity_from_function")
        return
    r = out["ok"]
    m = r["mean"]
    # -- sample points inside the cross-section ---------------------------------------------------
    if r["npts"]:
        ctx.mon("emis_inside", r["npts"])
        ctx.check(r["npts"] == Neff, "emissivity:number-of-samples", "emission function was not called grid_samples times",
                  monitor="emis_calls", got=r["npts"], **det)
        if r["n_outside"]:
            few = r["n_outside"] <= 3 + 20 * oob_expected
            key = KNOWN_OOB_KEY if (hazard > 0 and few) else "emissivity:sample-outside-cross-section"
            ctx.viol(key, "emissivity_from_function evaluated the function at a point outside the voxel cross-section "
                          "(triangle lookup index past the last triangle when total_area*uniform() >= cumulative_areas[-1])"
                     if key == KNOWN_OOB_KEY else
                     "emissivity_from_function evaluated the function at points outside the voxel cross-section",
                     n_outside=r["n_outside"], first_outside=r["first_outside"], **det)
        ctx.nontrivial()
    # -- constants ---------------------------------------------------------------------------------
    if ft.startswith("const"):
        ctx.nontrivial()
        ctx.close(m, a, "emissivity:constant-not-exact:%s" % ft, "sampled emissivity of a constant is not the constant",
                  rtol=(2 * Neff + 4) * EPS, monitor="emis_const", **det)
        return
    # -- range of f on the polygon ------------------------------------------------------------------
    if ft == "bounded_native":
        fv = ((V[:, 0] - rc) ** 2 + (V[:, 1] - zc) ** 2) * scale2       # convex f: maximum at a vertex, minimum >= 0
        lo, hi = 0.0, float(fv.max())
    else:
        fv = a + b * V[:, 0] + c * V[:, 1]
        lo, hi = float(fv.min()), float(fv.max())
    fmax = float(np.abs(fv).max() + abs(a))
    slack = 1e-9 * (hi - lo) + max(Neff, 64) * EPS * fmax
    ctx.mon("emis_range")
    if not (lo - slack <= m <= hi + slack):
        key = KNOWN_OOB_KEY if oob_expected > 1e-4 else "emissivity:mean-outside-range-of-f-on-cross-section"
        ctx.viol(key, "sampled mean emissivity lies outside the range the function takes on the cross-section "
                      "(samples were taken outside the polygon)", mean=m, lo=lo, hi=hi, **det)
        return
    ctx.nontrivial(hi > lo)
    if ft == "bounded_native":
        return
    # -- unbiasedness: linear f, area mean = f(centroid) ----------------------------------------------
    mu = a + b * cx + c * cy
    var = b * b * float(ex["vxx"]) + c * c * float(ex["vyy"]) + 2 * b * c * float(ex["vxy"])
    sigma = math.sqrt(max(var, 0.0))
    if sigma == 0.0:
        ctx.skip("linear function with zero variance over the polygon")
        return
    tol = _bernstein(sigma, hi - lo, Neff) + max(Neff, 64) * EPS * fmax
    ctx.cls("emis-triangles:%s" % ("1" if n == 3 else "2" if n == 4 else "3+"))
    ctx.close(m, mu, "emissivity:linear-mean-biased:%s" % ("single-triangle" if n == 3 else "multi-triangle"),
              "sampled mean of a linear emissivity deviates from the area mean f(centroid) beyond the p=2.6e-12 bound",
              atol=tol, monitor="emis_stat", sigma=sigma, z=abs(m - mu) / (sigma / math.sqrt(Neff)), **det)


# ------------------------------------------------------------------------------------------------
# near-rectangle quadrilaterals: emissivity in every ordering of the vertex list
# ------------------------------------------------------------------------------------------------

def _run_nearrect(case, ctx, general=False):
    """general=False: 'nearrect' cases (one primitive type, all 8 orderings of a quadrilateral);
    general=True: 'emisorder' cases (any polygon; primitive types x both orientations x selected starting vertices)"""
    P = [[float(a), float(b)] for a, b in case["poly"]]
    shape = case.get("cls", "?")
    fam = "emisorder" if general else "nearrect"
    ctx.cls("%s:%s" % (fam, shape))
    if not _certified(P, ctx):
        return
    ex = exact_moments(P)
    cx, cy = float(ex["cx"]), float(ex["cy"])
    a, b, c = float(case["fn"]["a"]), float(case["fn"]["b"]), float(case["fn"]["c"])
    N, Np = int(case["N"]), int(case["Np"])
    V = np.asarray(P, dtype=float)
    ext = float(max(np.ptp(V[:, 0]), np.ptp(V[:, 1])))
    n = len(P)
    orderings = []
    prims = list(case["prims"]) if general else [case.get("prim", "csg")]
    starts = [int(x) % n for x in case["starts"]] if general else list(range(n))
    for prim in prims:
        ctx.cls("%s-prim:%s" % (fam, prim))
        for rev in (False, True):
            base = P[::-1] if rev else P
            for s0 in starts:
                orderings.append((s0, rev, prim, base[s0:] + base[:s0]))

    def job():
        from raysect.core.math.random import seed
        from raysect.core.math.function.float import Arg3D
        fnat = a + b * Arg3D('x') + c * Arg3D('z')
        res = []
        for k, (s0, rev, prim, Q) in enumerate(orderings):
            pts = []

            def fpy(x, y, z):
                pts.append((x, z))
                return a + b * x + c * z
            try:
                v = _mk_voxel(Q, prim)
                seed(int(case["rs_seed"]) + 2 * k)
                m = v.emissivity_from_function(fnat, N)
                seed(int(case["rs_seed"]) + 2 * k + 1)
                mp = v.emissivity_from_function(fpy, Np)
            except Exception as e:
                raise _wrap_target(e)
            A = np.array(pts, dtype=float)
            bad = _outside(P, A, 1e-9 * ext)
            res.append(dict(mean=float(m), mean_py=float(mp), npts=len(pts), n_outside=int(len(bad)),
                            first_outside=[[float(A[i, 0]), float(A[i, 1])] for i in bad[:2]]))
        return res

    out = _in_child(job)
    det = dict(shape=shape, N=N, n_vertices=n)
    kp = "emissivity:near-rectangle" if not general else "emissivity"
    if "signal" in out:
        ctx.viol(kp + ":sampler-crash" + (":orderings" if general else ""),
                 "child died with signal %d inside emissivity_from_function" % out["signal"], **det)
        return
    if "exc" in out:
        _report_child_exception(out, ctx, "emissivity_from_function")
        return
    fv = a + b * V[:, 0] + c * V[:, 1]
    lo, hi = float(fv.min()), float(fv.max())
    fmax = float(np.abs(fv).max() + abs(a))
    mu = a + b * cx + c * cy
    var = b * b * float(ex["vxx"]) + c * c * float(ex["vyy"]) + 2 * b * c * float(ex["vxy"])
    sigma = math.sqrt(max(var, 0.0))
    if sigma == 0.0:
        ctx.skip("linear function with zero variance over the polygon")
        return
    ctx.nontrivial()
    tol = _bernstein(sigma, hi - lo, N) + max(N, 64) * EPS * fmax
    tolp = _bernstein(sigma, hi - lo, Np) + max(Np, 64) * EPS * fmax
    means = []
    for (s0, rev, prim, _Q), r in zip(orderings, out["ok"]):
        orient = "ccw" if (ex["ccw"] != rev) else "cw"
        od = dict(start_vertex=s0, orientation_given=orient, prim=prim, **det)
        kq = kp if not general else "emissivity:%s:%s-input" % (prim, orient)
        means.append(r["mean"])
        ctx.mon(fam + "_inside", r["npts"])
        if r["npts"] != Np:
            ctx.viol(kq + ":number-of-samples", "emission function was not called grid_samples times", got=r["npts"], **od)
        if r["n_outside"]:
            ctx.viol(kq + ":sample-outside-cross-section",
                     "emissivity_from_function evaluated the function at points outside the cross-section (%s)" % (
                         "%s voxel, %s vertex list" % (prim, orient) if general else
                         "4 vertices, not an axis-aligned rectangle" if shape != "rectangle" else "axis-aligned rectangle"),
                     n_outside=r["n_outside"], of=r["npts"], first_outside=r["first_outside"], **od)
        ctx.close(r["mean"], mu, kq + ":linear-mean-biased",
                  "sampled mean of a linear emissivity deviates from the area mean f(centroid) beyond the p=2.6e-12 bound",
                  atol=tol, monitor=fam + "_stat", sigma=sigma, **od)
        ctx.close(r["mean_py"], mu, kq + ":linear-mean-biased",
                  "sampled mean of a linear emissivity (Python callable) deviates from the area mean f(centroid) beyond the "
                  "p=2.6e-12 bound", atol=tolp, monitor=fam + "_stat", sigma=sigma, **od)
    ctx.close(max(means) - min(means), 0.0,
              kp + (":estimate-depends-on-vertex-order" if not general else ":estimate-depends-on-vertex-order-or-primitive"),
              "the sampled mean emissivity of the same polygon differs between orderings of its vertex list%s by more than "
              "twice the statistical bound (its expectation f(centroid) does not depend on them)" % (
                  " / primitive types" if general else ""),
              atol=2 * tol, monitor=fam + "_order", **det)


# ------------------------------------------------------------------------------------------------
# aliasing of caller-owned vertex containers
# ------------------------------------------------------------------------------------------------

def _make_container(P, ckind):
    """returns (container, keepalive) holding exactly the values of P"""
    from raysect.core import Point2D
    A = np.array(P, dtype=float)
    n = len(P)
    if ckind == "f64_c":
        return np.ascontiguousarray(A.copy()), None
    if ckind == "f64_f":
        return np.asfortranarray(A.copy()), None
    if ckind == "f64_rowview":
        big = np.zeros((3, n, 2))
        big[1] = A
        return big[1], big
    if ckind == "f64_strided":
        big = np.zeros((n, 4))
        big[:, ::2] = A
        return big[:, ::2], big
    if ckind == "f32":
        return A.astype(np.float32), None
    if ckind == "int64":
        return A.astype(np.int64), None
    if ckind == "int32":
        return A.astype(np.int32), None
    if ckind == "list_lists":
        return [[x, y] for x, y in P], None
    if ckind == "list_tuples":
        return [(x, y) for x, y in P], None
    if ckind == "tuple_tuples":
        return tuple((x, y) for x, y in P), None
    if ckind == "list_point2d":
        return [Point2D(x, y) for x, y in P], None
    if ckind == "list_arrays":
        return [np.array([x, y], dtype=float) for x, y in P], None
    raise ValueError(ckind)


def _container_values(c):
    from raysect.core import Point2D
    if isinstance(c, np.ndarray):
        return [[float(a) for a in row] for row in c.reshape(-1, 2)]
    return [[float(v.x), float(v.y)] if isinstance(v, Point2D) else [float(v[0]), float(v[1])] for v in c]


def _mutate_container(c, ckind, op):
    """in-place change of the caller's container (True if something was changed)"""
    from raysect.core import Point2D
    if isinstance(c, np.ndarray):
        if op == "scale":
            c *= 3
        elif op == "reverse":
            c[...] = c[::-1].copy()
        elif op == "move-vertex":
            c[0] = c[0] + (c.max(axis=0) - c.min(axis=0)) // 2 + 1 if c.dtype.kind == "i" else \
                c[0] + 0.5 * (c.max(axis=0) - c.min(axis=0)) + 0.25
        else:
            c[...] = np.roll(c, 1, axis=0) * 2 + 1
        return True
    if ckind == "tuple_tuples":
        return False
    for i in range(len(c)):
        v = c[i]
        if isinstance(v, Point2D):
            v.x = v.x * 3 + 1
            v.y = v.y * 2 - 1
        elif isinstance(v, tuple):
            c[i] = (v[0] * 3 + 1, v[1] * 2 - 1)
        else:
            v[0] = v[0] * 3 + 1
            v[1] = v[1] * 2 - 1
        if op == "move-vertex":
            break
    if op == "reverse":
        c.reverse()
    return True


def _voxel_state(v, safe=False):
    """safe=True: used after the caller's container was modified; a voxel that aliases it may have become degenerate and
    raise (ZeroDivisionError in the centroid) -- that is reported as a changed state, not as an unexpected exception"""
    if safe:
        try:
            return _voxel_state(v)
        except Exception as e:  # noqa
            return ["raised " + type(e).__name__]
    c = v.cross_section_centroid
    return [float(v.cross_sectional_area), float(c.x), float(c.y), float(v.volume)] + \
           [float(t) for p in v.vertices for t in (p.x, p.y)]


def _run_alias(case, ctx):
    from cherab.tools.inversions import AxisymmetricVoxel
    P0 = [[float(a), float(b)] for a, b in case["poly"]]
    ck, op = case["ckind"], case["op"]
    ctx.cls(case.get("cls", "alias:" + ck))
    ctx.cls("alias-op:" + op)
    if not _certified(P0, ctx):
        return
    ex = exact_moments(P0)
    tb = rounding_bounds(P0, ex)
    ctx.nontrivial()
    for rev in (False, True):
        P = P0[::-1] if rev else P0
        orient = "ccw" if (ex["ccw"] != rev) else "cw"
        cont, keep = _make_container(P, ck)
        if _container_values(cont) != P:
            raise RuntimeError("C17 harness: container %s does not hold the polygon values" % ck)
        keep0 = None if keep is None else keep.copy()
        v = AxisymmetricVoxel(cont, primitive_type=case.get("prim", "csg"))
        det = dict(container=ck, orientation_given=orient, n_vertices=len(P))
        same = _container_values(cont) == P and (keep is None or bool(np.array_equal(keep, keep0)))
        ctx.check(same, "aliasing:constructor-modifies-caller-container:%s" % ck,
                  "AxisymmetricVoxel.__init__ changed the vertex container passed by the caller", monitor="alias_caller",
                  **det)
        st0 = _voxel_state(v)
        ctx.close(st0[0], float(ex["A"]), "area:container-%s" % ck,
                  "cross_sectional_area differs from the polygon's true area (vertices given as %s)" % ck, atol=tb["A"],
                  monitor="area", **det)
        ctx.close(st0[1:3], [float(ex["cx"]), float(ex["cy"])], "centroid:container-%s" % ck,
                  "cross_section_centroid differs from the true centroid (vertices given as %s)" % ck,
                  atol=np.array([tb["cx"], tb["cy"]]), monitor="centroid", **det)
        st1 = st0
        if _mutate_container(cont, ck, op):
            st1 = _voxel_state(v, safe=True)
            ctx.check(st1 == st0, "aliasing:voxel-changes-after-caller-mutated-array:%s" % ck,
                      "area / centroid / volume / vertices of an existing voxel changed when the caller modified its own "
                      "vertex container afterwards (voxel shares memory with the input)", monitor="alias_unchanged",
                      op=op, before=st0[:4], after=st1[:4], **det)
        # objects RETURNED by the voxel are the caller's to modify as well
        vs = v.vertices
        for pt in vs:
            pt.x, pt.y = pt.x * 5 + 1, -pt.y
        vs.reverse()
        cc = v.cross_section_centroid
        cc.x, cc.y = -1.0, 1e9
        st2 = _voxel_state(v, safe=True)
        ctx.check(st2 == st1, "aliasing:voxel-changes-after-caller-modified-returned-vertices-or-centroid",
                  "area / centroid / volume / vertices of a voxel changed after the caller modified the list of Point2D "
                  "returned by .vertices or the Point2D returned by .cross_section_centroid", monitor="alias_returned",
                  before=st1[:4], after=st2[:4], **det)
    if case.get("reuse") and ck not in ("tuple_tuples",):
        # cells built one after another from one re-used scratch container
        # (refilled with the same polygon scaled by 1, 2 and 4: exact in every dtype, still simple)
        A = np.array(P0, dtype=float)
        cont, keep = _make_container(P0, ck)
        voxels, states = [], []
        for f in (1, 2, 4):
            if isinstance(cont, np.ndarray):
                cont[...] = (A * f).astype(cont.dtype)
            else:
                for i, (x, y) in enumerate(P0):
                    if ck == "list_point2d":
                        cont[i].x, cont[i].y = x * f, y * f
                    elif ck == "list_tuples":
                        cont[i] = (x * f, y * f)
                    else:
                        cont[i][0], cont[i][1] = x * f, y * f
            vx = AxisymmetricVoxel(cont, primitive_type=case.get("prim", "csg"))
            voxels.append(vx)
            states.append(_voxel_state(vx))
        after = [_voxel_state(vx, safe=True) for vx in voxels]
        ctx.check(after == states, "aliasing:voxel-changes-after-caller-mutated-array:%s" % ck,
                  "voxels built one after another from a re-used scratch container changed when the container was refilled "
                  "for the next voxel", monitor="alias_unchanged", op="reuse-buffer", container=ck,
                  before=[s[:4] for s in states], after=[s[:4] for s in after])


def _run_alias_grid(case, ctx):
    from cherab.tools.inversions import ToroidalVoxelGrid
    cells = [[[float(a), float(b)] for a, b in cell] for cell in case["cells"]]
    ck, op = case["ckind"], case["op"]
    ctx.cls(case.get("cls", "alias-grid:" + ck))
    ctx.cls("alias-op:" + op)
    for cell in cells:
        if not _certified(cell, ctx):
            return
    A = np.array(cells, dtype=float)
    if A.ndim != 3:
        raise RuntimeError("C17 harness: alias grid needs cells with equal vertex counts")
    keep = None
    if ck == "f64_c":
        arr = np.ascontiguousarray(A.copy())
    elif ck == "f64_f":
        arr = np.asfortranarray(A.copy())
    elif ck == "f32":
        arr = A.astype(np.float32)
    else:
        keep = np.zeros((2,) + A.shape)
        keep[1] = A
        arr = keep[1]
    if not np.array_equal(np.asarray(arr, dtype=float), A):
        raise RuntimeError("C17 harness: array container does not hold the cell values")
    grid = ToroidalVoxelGrid(arr, primitive_type=case.get("prim", "csg"))
    ctx.nontrivial()
    det = dict(container=ck, n_voxels=len(cells))
    ctx.check(bool(np.array_equal(np.asarray(arr, dtype=float), A)), "aliasing:grid-constructor-modifies-caller-array:%s" % ck,
              "ToroidalVoxelGrid.__init__ changed the (N, M, 2) coordinate array passed by the caller",
              monitor="alias_caller", **det)
    want, tols = [], []
    for cell in cells:
        ex = exact_moments(cell)
        tb = rounding_bounds(cell, ex)
        want.append(tb["volume"])
        tols.append(tb["vol"])
    tv0 = float(grid.total_volume)
    st0 = [_voxel_state(v) for v in grid]
    ctx.close(tv0, math.fsum(want), "grid:total-volume-not-sum-of-true-volumes",
              "ToroidalVoxelGrid.total_volume differs from the sum of the true voxel volumes",
              atol=float(np.sum(tols)) + len(cells) * EPS * math.fsum(want), monitor="grid_exact", **det)
    if op == "scale":
        arr *= 100
    elif op == "reverse":
        arr[...] = arr[:, ::-1].copy()
    elif op == "move-vertex":
        arr[:, 0, :] += 0.5 * (arr.max(axis=(0, 1)) - arr.min(axis=(0, 1))) + 0.25
    else:
        arr[...] = np.roll(arr, 1, axis=0) * 2 + 1
    try:
        tv1 = float(grid.total_volume)
    except Exception as e:  # noqa  (a voxel aliasing the modified array became degenerate)
        tv1 = "raised " + type(e).__name__
    st1 = [_voxel_state(v, safe=True) for v in grid]
    ctx.check(tv1 == tv0 and st1 == st0, "aliasing:grid-changes-after-caller-mutated-array:%s" % ck,
              "total_volume / voxel area, centroid, volume, vertices of an existing grid changed when the caller modified "
              "its own coordinate array afterwards", monitor="alias_unchanged", op=op, total_before=tv0, total_after=tv1,
              **det)


# ------------------------------------------------------------------------------------------------
# grid state sequences: total_volume is the sum of the grid's voxel volumes in every scenegraph state
# ------------------------------------------------------------------------------------------------

def _run_gridseq(case, ctx):
    from cherab.tools.inversions import ToroidalVoxelGrid
    from raysect.optical import World
    cells = [[[float(a), float(b)] for a, b in cell] for cell in case["cells"]]
    ctx.cls("gridseq")
    for cell in cells:
        if not _certified(cell, ctx):
            return
    n = len(cells)
    tot = Fraction(0)
    tolsum = 0.0
    for cell in cells:
        ex = exact_moments(cell)
        tb = rounding_bounds(cell, ex)
        tot += ex["cx"] * ex["A"]
        tolsum += tb["vol"]
    want = 2 * math.pi * float(tot)
    atol = tolsum + (n + 4) * EPS * want
    worlds = [World(), World()]
    ca = case["ctor_active"]
    cp = case.get("ctor_parent")
    grid = ToroidalVoxelGrid(cells, parent=None if cp is None else worlds[cp], active=ca,
                             primitive_type=case.get("prim", "csg"))
    ctx.nontrivial()

    def observe(opname, **det):
        ctx.cls("gridseq-op:" + opname)
        tv = grid.total_volume
        s = 0
        for v in grid:
            s += v.volume
        ok = ctx.check(len(grid) == n and grid.count == n, "grid:voxel-count-after:" + opname,
                       "the grid no longer holds one voxel per input polygon", monitor="gridseq_count", **det)
        ctx.close(tv, want, "grid:total-volume-after:" + opname,
                  "ToroidalVoxelGrid.total_volume is not the sum of the (true) volumes of the grid's voxels after %s" % opname,
                  atol=atol, monitor="gridseq_total", n_voxels=n, **det)
        if ok:
            ctx.close(tv, s, "grid:total-volume-after:" + opname,
                      "ToroidalVoxelGrid.total_volume differs from the sum of its voxels' volume attributes after %s" % opname,
                      rtol=max(n, 2) * EPS, monitor="gridseq_total", n_voxels=n, **det)

    observe("construction-active-all" if ca == "all" else "construction-active-int")
    for step, op in enumerate(case["ops"]):
        name = op[0]
        if name == "set_active":
            grid.set_active(op[1] if op[1] == "all" else int(op[1]))
            name = "set_active-all" if op[1] == "all" else "set_active-int"
        elif name == "unparent_all_voxels":
            grid.unparent_all_voxels()
        elif name == "parent_all_voxels":
            grid.parent_all_voxels()
        elif name == "grid_parent":
            grid.parent = None if op[1] is None else worlds[int(op[1])]
            name = "grid-parent-change"
        elif name == "voxel_parent":
            grid[int(op[1])].parent = None if op[2] == "none" else grid
            name = "voxel-parent-change"
        elif name != "read":
            raise ValueError("unknown grid op %r" % (op,))
        observe(name, step=step)


# ------------------------------------------------------------------------------------------------
# scale: power-of-two similarity about the origin (nanometre .. 1000 km cross-sections, any radius)
# ------------------------------------------------------------------------------------------------

def _run_scale(case, ctx):
    from cherab.tools.inversions import ToroidalVoxelGrid
    cells = [[[float(a), float(b)] for a, b in cell] for cell in case["cells"]]
    prim = case.get("prim", "csg")
    ctx.cls("scale")
    for cell in cells:
        if not _certified(cell, ctx):
            return
    exs = [exact_moments(cell) for cell in cells]
    tbs = [rounding_bounds(cell, ex) for cell, ex in zip(cells, exs)]
    for tb, ex in zip(tbs, exs):
        if not _well_conditioned(tb, ex, ctx):
            return
    P = cells[0]
    n = len(P)
    base = _observe(_mk_voxel(P, prim), ctx, n_vertices=n, scale_exponent=0)
    if base is None:
        return
    gbase = float(ToroidalVoxelGrid(cells, primitive_type=prim).total_volume)
    want_tot = math.fsum(tb["volume"] for tb in tbs)
    tol_tot = float(sum(tb["vol"] for tb in tbs)) + len(cells) * EPS * want_tot
    ctx.nontrivial()
    for k in case["exps"]:
        k = int(k)
        f = 2.0 ** k
        ctx.cls("scale-decade:%+03d" % int(round(k * math.log10(2.0) / 3.0) * 3))
        Q = [[x * f, y * f] for x, y in P]                     # exact: power of two, no under/overflow in this range
        det = dict(scale_exponent=k, n_vertices=n, extent=float(np.ptp(np.array(Q)[:, 0])))
        ob = _observe(_mk_voxel(Q, prim), ctx, **det)
        if ob is None:
            continue
        # every operation of the documented formulae is homogeneous => results scale exactly in binary floating point
        ctx.close(ob[0], base[0] * f * f, "scale:area-not-homogeneous",
                  "area of the cross-section scaled by 2^k about the origin is not 4^k x the area", rtol=4 * EPS,
                  monitor="scale_homog", **det)
        ctx.close([ob[1], ob[2]], [base[1] * f, base[2] * f], "scale:centroid-not-homogeneous",
                  "centroid of the cross-section scaled by 2^k about the origin is not 2^k x the centroid", rtol=4 * EPS,
                  monitor="scale_homog", **det)
        ctx.close(ob[3], base[3] * f * f * f, "scale:volume-not-homogeneous",
                  "volume of the cross-section scaled by 2^k about the origin is not 8^k x the volume", rtol=4 * EPS,
                  monitor="scale_homog", **det)
        # and against the exact rational values of the scaled polygon (relative bounds are scale invariant)
        ex, tb = exs[0], tbs[0]
        ctx.close(ob[0], float(ex["A"]) * f * f, "area:scaled-input", "cross_sectional_area differs from the true area "
                  "(cross-section scaled by 2^k)", atol=tb["A"] * f * f, monitor="area", **det)
        ctx.close(ob[1], float(ex["cx"]) * f, "centroid-r:scaled-input", "cross_section_centroid.x differs from the true "
                  "centroid radius (cross-section scaled by 2^k)", atol=tb["cx"] * f, monitor="centroid", **det)
        ctx.close(ob[2], float(ex["cy"]) * f, "centroid-z:scaled-input", "cross_section_centroid.y differs from the true "
                  "centroid height (cross-section scaled by 2^k)", atol=tb["cy"] * f, monitor="centroid", **det)
        ctx.close(ob[3], tb["volume"] * f ** 3, "volume:scaled-input", "volume differs from 2 pi x true centroid radius x "
                  "true area (cross-section scaled by 2^k)", atol=tb["vol"] * f ** 3, monitor="volume", **det)
        g = ToroidalVoxelGrid([[[x * f, y * f] for x, y in cell] for cell in cells], primitive_type=prim)
        tv = float(g.total_volume)
        ctx.close(tv, gbase * f ** 3, "scale:grid-total-volume-not-homogeneous",
                  "total_volume of a grid scaled by 2^k about the origin is not 8^k x the total volume", rtol=4 * EPS,
                  monitor="scale_homog", n_voxels=len(cells), **det)
        ctx.close(tv, want_tot * f ** 3, "grid:total-volume-not-sum-of-true-volumes:scaled-input",
                  "ToroidalVoxelGrid.total_volume differs from the sum of the true voxel volumes (grid scaled by 2^k)",
                  atol=tol_tot * f ** 3, monitor="grid_exact", n_voxels=len(cells), **det)


# ------------------------------------------------------------------------------------------------
# exact polynomial integration over a polygon (integers only)
# ------------------------------------------------------------------------------------------------

def _binom_table(n):
    C = [[0] * (n + 1) for _ in range(n + 1)]
    for i in range(n + 1):
        C[i][0] = 1
        for j in range(1, i + 1):
            C[i][j] = C[i - 1][j - 1] + (C[i - 1][j] if j <= i - 1 else 0)
    return C


def exact_local_moments(P, r0, z0, L, deg):
    """E[u^p v^q] (area means, exact Fractions) for p+q <= deg over polygon P, u = (r - r0)/L, v = (z - z0)/L.
    Integral formula: int x^p y^q dA = p! q!/(p+q+2)! sum_i c_i sum_{k<=p, l<=q} C(k+l,l) C(p+q-k-l,q-l)
    x_{i+1}^k x_i^{p-k} y_{i+1}^l y_i^{q-l},  c_i = x_i y_{i+1} - x_{i+1} y_i (orientation divides out in the mean)."""
    fr = [((Fraction(float(x)) - Fraction(float(r0))) / Fraction(float(L)),
           (Fraction(float(y)) - Fraction(float(z0))) / Fraction(float(L))) for x, y in P]
    D = 1
    for a, b in fr:
        D = max(D, a.denominator, b.denominator)           # powers of two
    X = [int(a * D) for a, _ in fr]
    Y = [int(b * D) for _, b in fr]
    n = len(P)
    C = _binom_table(deg + 1)
    fact = [1]
    for i in range(1, deg + 3):
        fact.append(fact[-1] * i)
    XP = [[x ** e for e in range(deg + 1)] for x in X]
    YP = [[y ** e for e in range(deg + 1)] for y in Y]
    cs = [X[i] * Y[(i + 1) % n] - X[(i + 1) % n] * Y[i] for i in range(n)]
    a2 = sum(cs)
    out = {}
    for p_ in range(deg + 1):
        for q_ in range(deg + 1 - p_):
            tot = 0
            for i in range(n):
                j = (i + 1) % n
                acc = 0
                for k in range(p_ + 1):
                    xx = XP[j][k] * XP[i][p_ - k]
                    for l in range(q_ + 1):
                        acc += C[k + l][l] * C[p_ + q_ - k - l][q_ - l] * xx * YP[j][l] * YP[i][q_ - l]
                tot += cs[i] * acc
            integral = Fraction(fact[p_] * fact[q_] * tot, fact[p_ + q_ + 2] * D ** (p_ + q_ + 2))
            out[(p_, q_)] = integral / Fraction(a2, 2 * D * D)
    return out


def _poly_mul(f, g):
    out = {}
    for (p1, q1), a in f.items():
        for (p2, q2), b in g.items():
            out[(p1 + p2, q1 + q2)] = out.get((p1 + p2, q1 + q2), 0) + a * b
    return out


def nonlinear_stats(P, fdesc):
    """exact area mean and standard deviation of the polynomial f over polygon P, and a bound on |f - mean|"""
    coef = {(int(p_), int(q_)): Fraction(float(a)) for p_, q_, a in fdesc["coef"]}
    deg = max(p_ + q_ for p_, q_ in coef)
    mom = exact_local_moments(P, fdesc["r0"], fdesc["z0"], fdesc["L"], 2 * deg)
    mean = sum(a * mom[k] for k, a in coef.items())
    ef2 = sum(a * mom[k] for k, a in _poly_mul(coef, coef).items())
    var = ef2 - mean * mean
    V = np.asarray(P, dtype=float)
    um = float(np.abs((V[:, 0] - fdesc["r0"]) / fdesc["L"]).max())
    vm = float(np.abs((V[:, 1] - fdesc["z0"]) / fdesc["L"]).max())
    dev = sum(abs(float(a)) * um ** k[0] * vm ** k[1] for k, a in coef.items() if k != (0, 0))
    return float(mean), math.sqrt(max(float(var), 0.0)), 2.0 * dev, dev + abs(float(coef.get((0, 0), 0)))


def _native_poly(fdesc):
    from raysect.core.math.function.float import Arg3D
    U = (Arg3D('x') - fdesc["r0"]) * (1.0 / fdesc["L"])
    W = (Arg3D('z') - fdesc["z0"]) * (1.0 / fdesc["L"])
    f = None
    for p_, q_, a in fdesc["coef"]:
        t = float(a)
        if p_:
            t = t * U ** int(p_) if p_ > 1 else t * U
        if q_:
            t = t * W ** int(q_) if q_ > 1 else t * W
        f = t if f is None else f + t
    return f


# ------------------------------------------------------------------------------------------------
# call sequences over several voxels; per-triangle hit counts
# ------------------------------------------------------------------------------------------------

def _triangle_partition(voxel):
    """a triangulation of the voxel's stored polygon (Raysect's triangulate2d on the reported vertices), validated
    exactly: the triangle areas must sum to the polygon area; returns (vertices, triangles, exact area shares) or None.
    ANY valid partition would do for the uniformity test; this one has the best resolution for lookup defects."""
    from raysect.core.math import triangulate2d
    V = np.array([[p_.x, p_.y] for p_ in voxel.vertices], dtype=float)
    T = np.asarray(triangulate2d(V))
    fr = [(Fraction(float(x)), Fraction(float(y))) for x, y in V]
    areas = []
    for t in T:
        (x1, y1), (x2, y2), (x3, y3) = fr[t[0]], fr[t[1]], fr[t[2]]
        areas.append(abs((x2 - x1) * (y3 - y1) - (x3 - x1) * (y2 - y1)) / 2)
    n = len(V)
    tot = abs(sum(fr[i][0] * fr[(i + 1) % n][1] - fr[(i + 1) % n][0] * fr[i][1] for i in range(n))) / 2
    if tot == 0 or sum(areas) != tot:
        return None
    return V, T, [float(a / tot) for a in areas]


def _triangle_counts(V, T, pts, tol):
    """number of points in each triangle (first match wins on shared edges)"""
    x, y = pts[:, 0], pts[:, 1]
    free = np.ones(len(pts), dtype=bool)
    counts = []
    for t in T:
        (x1, y1), (x2, y2), (x3, y3) = V[t[0]], V[t[1]], V[t[2]]
        d = (x2 - x1) * (y3 - y1) - (x3 - x1) * (y2 - y1)
        if d == 0:
            counts.append(0)
            continue
        l1 = ((x2 - x) * (y3 - y) - (x3 - x) * (y2 - y)) / d
        l2 = ((x3 - x) * (y1 - y) - (x1 - x) * (y3 - y)) / d
        l3 = 1.0 - l1 - l2
        ins = free & (l1 >= -tol) & (l2 >= -tol) & (l3 >= -tol)
        counts.append(int(ins.sum()))
        free &= ~ins
    return counts, int(free.sum())


def _run_seq(case, ctx):
    polys = [[[float(a), float(b)] for a, b in q] for q in case["polys"]]
    ctx.cls("seq:" + case.get("cls", "?"))
    for q in polys:
        if not _certified(q, ctx):
            return
    a, b, c = float(case["fn"]["a"]), float(case["fn"]["b"]), float(case["fn"]["c"])
    N, Np = int(case["N"]), int(case["Np"])
    steps = [int(i) for i in case["steps"]]
    prims = list(case["prims"])

    def job():
        from raysect.core.math.random import seed
        from raysect.core.math.function.float import Arg3D
        from cherab.tools.inversions import ToroidalVoxelGrid
        fnat = a + b * Arg3D('x') + c * Arg3D('z')
        try:
            voxels = [_mk_voxel(q, pr) for q, pr in zip(polys, prims)]
        except Exception as e:
            raise _wrap_target(e)
        parts = [_triangle_partition(v) for v in voxels]
        seed(int(case["rs_seed"]))
        res = []
        for i in steps:
            pts = []

            def fpy(x, y, z):
                pts.append((x, z))
                return a + b * x + c * z
            try:
                m = voxels[i].emissivity_from_function(fnat, N)
                mp = voxels[i].emissivity_from_function(fpy, Np)
            except Exception as e:
                raise _wrap_target(e)
            A = np.array(pts, dtype=float)
            ext = float(max(np.ptp(np.array(polys[i])[:, 0]), np.ptp(np.array(polys[i])[:, 1])))
            bad = _outside(polys[i], A, 1e-9 * ext)
            r = dict(voxel=i, mean=float(m), mean_py=float(mp), npts=len(pts), n_outside=int(len(bad)),
                     first_outside=[[float(A[k, 0]), float(A[k, 1])] for k in bad[:2]])
            if parts[i] is not None and not len(bad):
                V, T, shares = parts[i]
                r["counts"], r["unassigned"] = _triangle_counts(V, T, A, 1e-9)
                r["shares"] = shares
            res.append(r)
        gridres = None
        if case.get("via_grid"):
            try:
                grid = ToroidalVoxelGrid(polys)
                gridres = [float(x) for x in grid.emissivities_from_function(fnat, N)]
            except Exception as e:
                raise _wrap_target(e)
        return dict(steps=res, grid=gridres)

    out = _in_child(job)
    if "signal" in out:
        ctx.viol("emissivity:sequence:sampler-crash", "child died with signal %d while sampling a sequence of voxels"
                 % out["signal"], n_voxels=len(polys))
        return
    if "exc" in out:
        _report_child_exception(out, ctx, "emissivity_from_function")
        return
    stats = []
    for q in polys:
        ex = exact_moments(q)
        V = np.asarray(q, dtype=float)
        fv = a + b * V[:, 0] + c * V[:, 1]
        mu = a + b * float(ex["cx"]) + c * float(ex["cy"])
        var = b * b * float(ex["vxx"]) + c * c * float(ex["vyy"]) + 2 * b * c * float(ex["vxy"])
        stats.append((mu, math.sqrt(max(var, 0.0)), float(fv.max() - fv.min()), float(np.abs(fv).max() + abs(a))))
    ctx.nontrivial()
    prev_tri = None
    for k, r in enumerate(out["ok"]["steps"]):
        i = r["voxel"]
        mu, sigma, width, fmax = stats[i]
        ntri = len(polys[i]) - 2
        hist = "first-call" if prev_tri is None else ("previous-voxel-more-triangles" if prev_tri > ntri else
                                                      "previous-voxel-not-more-triangles")
        det = dict(step=k, voxel=i, n_vertices=len(polys[i]), previous_triangles=prev_tri, pattern=case.get("cls"))
        prev_tri = ntri
        ctx.mon("seq_inside", r["npts"])
        if r["n_outside"]:
            ctx.viol("emissivity:sequence:sample-outside-cross-section:" + hist,
                     "in a sequence of calls on several voxels emissivity_from_function evaluated the function outside the "
                     "cross-section of the voxel being sampled", n_outside=r["n_outside"], of=r["npts"],
                     first_outside=r["first_outside"], **det)
        if sigma > 0:
            ctx.close(r["mean"], mu, "emissivity:sequence:linear-mean-biased:" + hist,
                      "in a sequence of calls on several voxels the sampled mean of a linear emissivity deviates from the "
                      "voxel's own area mean f(centroid) beyond the p=2.6e-12 bound",
                      atol=_bernstein(sigma, width, N) + max(N, 64) * EPS * fmax, monitor="seq_stat", sigma=sigma, **det)
            ctx.close(r["mean_py"], mu, "emissivity:sequence:linear-mean-biased:" + hist,
                      "in a sequence of calls on several voxels the sampled mean of a linear emissivity (Python callable) "
                      "deviates from the voxel's own area mean beyond the p=2.6e-12 bound",
                      atol=_bernstein(sigma, width, Np) + max(Np, 64) * EPS * fmax, monitor="seq_stat", sigma=sigma, **det)
        if "counts" in r and r["npts"]:
            n_s = r["npts"]
            worst, wdet = 0.0, None
            for t, (cnt, sh) in enumerate(zip(r["counts"], r["shares"])):
                tol = _bernstein(math.sqrt(sh * (1 - sh)), 1.0, n_s) + (r["unassigned"] + 1.0) / n_s
                ratio = abs(cnt / n_s - sh) / tol
                if ratio > worst:
                    worst, wdet = ratio, dict(triangle=t, sample_share=cnt / n_s, area_share=sh, tol=tol)
            ctx.mon("seq_tri", len(r["counts"]))
            ctx.margin("seq_tri", worst)
            if worst > 1.0:
                ctx.viol("emissivity:sequence:triangle-sample-share-not-area-share:" + hist,
                         "the share of sample points falling into one triangle of the cross-section differs from its area "
                         "share beyond the binomial p=2.6e-12 bound (sampling is not uniform over the cross-section)",
                         never_sampled=int(sum(1 for cnt, sh in zip(r["counts"], r["shares"]) if cnt == 0 and sh > 0)),
                         n_triangles=len(r["counts"]), **dict(det, **wdet))
    if out["ok"]["grid"] is not None:
        for i, m in enumerate(out["ok"]["grid"]):
            mu, sigma, width, fmax = stats[i]
            if sigma > 0:
                ctx.close(m, mu, "emissivity:sequence:grid-linear-mean-biased",
                          "emissivities_from_function over a grid of voxels with different vertex counts: the sampled mean of "
                          "a linear emissivity deviates from the voxel's own area mean beyond the p=2.6e-12 bound",
                          atol=_bernstein(sigma, width, N) + max(N, 64) * EPS * fmax, monitor="seq_stat", voxel=i,
                          n_vertices=len(polys[i]), pattern=case.get("cls"))


# ------------------------------------------------------------------------------------------------
# grid-level API with non-linear functions, many independent calls
# ------------------------------------------------------------------------------------------------

def _run_gridemis(case, ctx):
    cells = [[[float(a), float(b)] for a, b in q] for q in case["cells"]]
    fdesc = case["f"]
    gs, K, Nv = int(case["gs"]), int(case["K"]), int(case["Nv"])
    ctx.cls("gridemis:" + case.get("cls", "?"))
    ctx.cls("gridemis-samples:%d" % gs)
    for q in cells:
        if not _certified(q, ctx):
            return

    def job():
        from raysect.core.math.random import seed
        from cherab.tools.inversions import ToroidalVoxelGrid
        f = _native_poly(fdesc)
        try:
            grid = ToroidalVoxelGrid(cells, primitive_type=case.get("prim", "csg"))
            seed(int(case["rs_seed"]))
            first = np.array(grid.emissivities_from_function(f, gs), dtype=float)
            acc = first.copy()
            varies = np.zeros(len(cells), dtype=bool)
            for _ in range(K - 1):
                e = np.asarray(grid.emissivities_from_function(f, gs), dtype=float)
                acc += e
                varies |= (e != first)
            vox = [float(v.emissivity_from_function(f, Nv)) for v in grid]
        except Exception as e:
            raise _wrap_target(e)
        return dict(mean=[float(x) for x in acc / K], first=[float(x) for x in first], varies=[bool(x) for x in varies],
                    vox=vox)

    out = _in_child(job)
    if "signal" in out:
        ctx.viol("emissivity:grid:sampler-crash", "child died with signal %d inside emissivities_from_function" % out["signal"])
        return
    if "exc" in out:
        _report_child_exception(out, ctx, "emissivities_from_function")
        return
    r = out["ok"]
    ctx.nontrivial()
    for i, q in enumerate(cells):
        mu, sigma, width, fmax = nonlinear_stats(q, fdesc)
        det = dict(voxel=i, n_vertices=len(q), grid_samples=gs, calls=K, function=case.get("cls"), sigma=sigma)
        if sigma <= 1e-12 * fmax:
            ctx.skip("function is constant over the cell to rounding")
            continue
        rnd = 1e-9 * fmax                 # evaluation of the polynomial in doubles
        ctx.close(r["mean"][i], mu, "emissivity:grid:mean-of-estimates-biased:grid_samples-%s" % ("1" if gs == 1 else "2+"),
                  "the mean over many independent calls of VoxelCollection.emissivities_from_function deviates from the exact "
                  "area mean of a non-linear function beyond the p=2.6e-12 bound (the estimate is biased)",
                  atol=_bernstein(sigma, width, K * gs) + rnd, monitor="gridemis_stat", **det)
        ctx.mon("gridemis_vary")
        if not r["varies"][i] and abs(r["first"][i] - mu) > rnd + 1e-9 * abs(mu):
            ctx.viol("emissivity:grid:estimate-deterministic-and-not-the-area-mean:grid_samples-%s" % ("1" if gs == 1 else "2+"),
                     "all %d calls of emissivities_from_function returned the identical value for a non-constant function, and "
                     "that value is not the exact area mean: a deterministic estimate cannot be unbiased" % K,
                     value=r["first"][i], area_mean=mu, **det)
        ctx.close(r["vox"][i], mu, "emissivity:nonlinear-mean-biased",
                  "voxel.emissivity_from_function of a non-linear function deviates from the exact area mean beyond the "
                  "p=2.6e-12 bound", atol=_bernstein(sigma, width, Nv) + rnd, monitor="nonlin_stat", N=Nv, **det)


# ------------------------------------------------------------------------------------------------
# history of grid-level results kept by the caller
# ------------------------------------------------------------------------------------------------

def _run_gridhist(case, ctx):
    grids = [[[[float(a), float(b)] for a, b in q] for q in cells] for cells in case["grids"]]
    calls = case["calls"]
    ctx.cls("gridhist")
    ctx.cls("gridhist-grids:%d" % len(grids))
    for cells in grids:
        for q in cells:
            if not _certified(q, ctx):
                return

    def job():
        from raysect.core.math.random import seed
        from raysect.core.math.function.float import Arg3D
        from cherab.tools.inversions import ToroidalVoxelGrid
        try:
            G = [ToroidalVoxelGrid(cells) for cells in grids]
        except Exception as e:
            raise _wrap_target(e)
        seed(int(case["rs_seed"]))
        kept, snaps = [], []
        for cl in calls:
            fd = cl["f"]
            if fd["type"] == "const":
                f = float(fd["a"])
            elif fd["type"] == "linear":
                f = fd["a"] + fd["b"] * Arg3D('x') + fd["c"] * Arg3D('z')
            else:
                f = _native_poly(fd)
            try:
                res = G[cl["g"]].emissivities_from_function(f, int(cl["gs"]))
            except Exception as e:
                raise _wrap_target(e)
            kept.append(res)
            snaps.append([float(x) for x in res])
        final = [[float(x) for x in k] for k in kept]
        share = [[i, j] for i in range(len(kept)) for j in range(i + 1, len(kept))
                 if isinstance(kept[i], np.ndarray) and isinstance(kept[j], np.ndarray) and np.shares_memory(kept[i], kept[j])]
        # the caller scribbles over everything it was given, then asks again
        wrote = 0
        for k in kept:
            if isinstance(k, np.ndarray) and k.flags.writeable:
                k[...] = -12345.678
                wrote += 1
        post = []
        try:
            for g in G:
                post.append([float(x) for x in g.emissivities_from_function(7.25, 3)])
        except Exception as e:
            raise _wrap_target(e)
        return dict(snaps=snaps, final=final, share=share, post=post, wrote=wrote,
                    types=[type(k).__name__ for k in kept])

    out = _in_child(job)
    if "signal" in out:
        ctx.viol("emissivity:grid:sampler-crash", "child died with signal %d inside emissivities_from_function" % out["signal"])
        return
    if "exc" in out:
        _report_child_exception(out, ctx, "emissivities_from_function")
        return
    r = out["ok"]
    ctx.nontrivial()
    ncalls = len(calls)
    for i, cl in enumerate(calls):
        fd, gs, cells = cl["f"], int(cl["gs"]), grids[cl["g"]]
        ft = fd["type"]
        det = dict(call=i, of=ncalls, later_calls=ncalls - 1 - i, grid=cl["g"], function=fd.get("name", ft), grid_samples=gs)
        same = r["snaps"][i] == r["final"][i] or (np.array_equal(np.array(r["snaps"][i]), np.array(r["final"][i]), equal_nan=True))
        ctx.check(bool(same), "emissivity:grid:kept-result-changed-by-later-call",
                  "the vector returned by an earlier emissivities_from_function call changed its contents when the method was "
                  "called again (the results of different calls are the same array)", monitor="hist_identity",
                  first_returned=r["snaps"][i][:4], now=r["final"][i][:4], **det)
        for which, vec in (("call-result", r["snaps"][i]), ("kept-result", r["final"][i])):
            mon = "hist_fresh" if which == "call-result" else "hist_kept"
            if ft == "const":
                ctx.close(np.array(vec), float(fd["a"]), "emissivity:grid:%s:constant-not-exact" % which,
                          "emissivities_from_function of a constant: the vector %s is not the constant"
                          % ("returned by the call" if which == "call-result" else "kept by the caller, re-read after later calls,"),
                          rtol=(2 * gs + 4) * EPS, monitor=mon, const=float(fd["a"]), **det)
                continue
            for j, q in enumerate(cells):
                if ft == "linear":
                    ex = exact_moments(q)
                    V = np.asarray(q, dtype=float)
                    fv = fd["a"] + fd["b"] * V[:, 0] + fd["c"] * V[:, 1]
                    mu = fd["a"] + fd["b"] * float(ex["cx"]) + fd["c"] * float(ex["cy"])
                    var = fd["b"] ** 2 * float(ex["vxx"]) + fd["c"] ** 2 * float(ex["vyy"]) + 2 * fd["b"] * fd["c"] * float(ex["vxy"])
                    sigma, width, fmax = math.sqrt(max(var, 0.0)), float(fv.max() - fv.min()), float(np.abs(fv).max() + abs(fd["a"]))
                else:
                    mu, sigma, width, fmax = nonlinear_stats(q, fd)
                if sigma <= 1e-12 * fmax:
                    continue
                ctx.close(vec[j], mu, "emissivity:grid:%s:%s-mean-biased" % (which, "linear" if ft == "linear" else "nonlinear"),
                          "emissivities_from_function: the value %s deviates from the area mean of the function it was computed "
                          "for beyond the p=2.6e-12 bound" % ("returned by the call" if which == "call-result" else
                                                              "in the vector kept by the caller, re-read after later calls,"),
                          atol=_bernstein(sigma, width, gs) + max(gs, 64) * EPS * fmax + 1e-9 * fmax, monitor=mon,
                          voxel=j, **det)
    ctx.check(not r["share"], "emissivity:grid:results-of-different-calls-share-memory",
              "vectors returned by different emissivities_from_function calls share memory", monitor="hist_share",
              pairs=r["share"][:6], n_calls=ncalls)
    for g, vec in enumerate(r["post"]):
        ctx.close(np.array(vec), 7.25, "emissivity:grid:result-wrong-after-caller-wrote-into-earlier-results",
                  "after the caller overwrote the vectors returned by earlier calls, emissivities_from_function of a constant "
                  "is not the constant", rtol=10 * EPS, monitor="hist_post", grid=g, overwritten=r["wrote"])


# ------------------------------------------------------------------------------------------------
# scene-graph placement: nothing the property speaks about depends on where the grid / voxel hangs in a scene
# ------------------------------------------------------------------------------------------------

def _build_transform(spec):
    from raysect.core import translate, rotate_x, rotate_y, rotate_z, AffineMatrix3D
    T = AffineMatrix3D()
    for op in spec:
        if op[0] == "translate":
            T = T * translate(float(op[1]), float(op[2]), float(op[3]))
        else:
            T = T * {"rotate_x": rotate_x, "rotate_y": rotate_y, "rotate_z": rotate_z}[op[0]](float(op[1]))
    return T


def _run_placement(case, ctx):
    cells = [[[float(a), float(b)] for a, b in q] for q in case["cells"]]
    ctx.cls(case.get("cls", "placement"))
    for q in cells:
        if not _certified(q, ctx):
            return
    a, b, c = float(case["fn"]["a"]), float(case["fn"]["b"]), float(case["fn"]["c"])
    N = int(case["N"])
    n = len(cells)

    def job():
        from raysect.core import Node
        from raysect.core.math.random import seed
        from raysect.core.math.function.float import Arg3D
        from raysect.optical import World
        from cherab.tools.inversions import ToroidalVoxelGrid, AxisymmetricVoxel
        fnat = a + b * Arg3D('x') + c * Arg3D('z')
        world = World()
        n1 = Node(parent=world, transform=_build_transform(case["node_transforms"][0]))
        n2 = Node(parent=n1, transform=_build_transform(case["node_transforms"][1]))
        where = {"none": None, "world": world, "node": n1, "nested": n2}
        seed(int(case["rs_seed"]))
        rounds = []

        def observe(tag, grid):
            geo = []
            for v in grid:
                cc = v.cross_section_centroid
                geo.append([float(v.cross_sectional_area), float(cc.x), float(cc.y), float(v.volume)])
            return dict(tag=tag, geo=geo, total=float(grid.total_volume), count=len(grid),
                        grid_api=[float(x) for x in grid.emissivities_from_function(fnat, N)],
                        voxel_api=[float(v.emissivity_from_function(fnat, N)) for v in grid])
        try:
            grid = ToroidalVoxelGrid(cells, parent=where[case["parent"]], transform=_build_transform(case["grid_transform"]))
            rounds.append(observe("construction", grid))
            for op in case["ops"]:
                if op[0] == "set_active":
                    grid.set_active(op[1] if op[1] == "all" else int(op[1]))
                    tag = "set_active-all" if op[1] == "all" else "set_active-int"
                elif op[0] == "grid_transform":
                    grid.transform = _build_transform(op[1])
                    tag = "grid-transform-change"
                else:
                    grid.parent = where[op[1]]
                    tag = "grid-parent-change"
                rounds.append(observe(tag, grid))
            v = AxisymmetricVoxel(cells[0], parent=where[case["parent"]] if case["parent"] != "none" else n2)
            v.transform = _build_transform(case["voxel_transform"])
            cc = v.cross_section_centroid
            alone = dict(geo=[float(v.cross_sectional_area), float(cc.x), float(cc.y), float(v.volume)],
                         est=float(v.emissivity_from_function(fnat, N)))
        except Exception as e:
            raise _wrap_target(e)
        return dict(rounds=rounds, alone=alone)

    out = _in_child(job)
    if "signal" in out:
        ctx.viol("placement:sampler-crash", "child died with signal %d while sampling a grid placed in a scene graph" % out["signal"])
        return
    if "exc" in out:
        _report_child_exception(out, ctx, "placement")
        return
    exs = [exact_moments(q) for q in cells]
    tbs = [rounding_bounds(q, ex) for q, ex in zip(cells, exs)]
    want_geo = np.array([[float(ex["A"]), float(ex["cx"]), float(ex["cy"]), tb["volume"]] for ex, tb in zip(exs, tbs)])
    tol_geo = np.array([[tb["A"], tb["cx"], tb["cy"], tb["vol"]] for tb in tbs])
    want_tot = math.fsum(tb["volume"] for tb in tbs)
    tol_tot = float(sum(tb["vol"] for tb in tbs)) + (n + 4) * EPS * want_tot
    stats = []
    for q, ex in zip(cells, exs):
        V = np.asarray(q, dtype=float)
        fv = a + b * V[:, 0] + c * V[:, 1]
        var = b * b * float(ex["vxx"]) + c * c * float(ex["vyy"]) + 2 * b * c * float(ex["vxy"])
        sigma = math.sqrt(max(var, 0.0))
        stats.append((a + b * float(ex["cx"]) + c * float(ex["cy"]), sigma,
                      _bernstein(sigma, float(fv.max() - fv.min()), N) + max(N, 64) * EPS * float(np.abs(fv).max() + abs(a))))
    ctx.nontrivial()
    base = dict(parent=case["parent"], grid_transform=case["grid_transform"], node_transforms=case["node_transforms"])
    for r in out["ok"]["rounds"]:
        tag = r["tag"]
        ctx.cls("placement-after:" + tag)
        if not ctx.check(r["count"] == n and len(r["geo"]) == n, "placement:voxel-count:" + tag,
                         "a grid placed in a scene graph does not hold one voxel per cell", monitor="place_geom", **base):
            continue
        ctx.close(np.array(r["geo"]), want_geo, "placement:area-centroid-volume:" + tag,
                  "area / centroid / volume of the voxels of a grid placed in a scene graph (parent chain, transforms, "
                  "activation state) differ from the true values of the cross-sections", atol=tol_geo, monitor="place_geom",
                  after=tag, **base)
        ctx.close(r["total"], want_tot, "placement:total-volume:" + tag,
                  "total_volume of a grid placed in a scene graph differs from the sum of the true voxel volumes",
                  atol=tol_tot, monitor="place_geom", after=tag, **base)
        for api in ("grid_api", "voxel_api"):
            for i, m in enumerate(r[api]):
                mu, sigma, tol = stats[i]
                if sigma > 0:
                    ctx.close(m, mu, "placement:emissivity-biased:%s:%s" % (api.replace("_", "-"), tag),
                              "the sampled mean emissivity of a voxel whose grid is placed in a scene graph (parent chain, "
                              "transforms, activation state) deviates from the area mean of the function over the cross-section "
                              "beyond the p=2.6e-12 bound: the estimate depends on scene placement", atol=tol,
                              monitor="place_stat", voxel=i, after=tag, **base)
    al = out["ok"]["alone"]
    ctx.close(np.array(al["geo"]), want_geo[0], "placement:area-centroid-volume:standalone-voxel",
              "area / centroid / volume of a voxel with a parent node and its own transform differ from the true values",
              atol=tol_geo[0], monitor="place_geom", voxel_transform=case["voxel_transform"], **base)
    mu, sigma, tol = stats[0]
    if sigma > 0:
        ctx.close(al["est"], mu, "placement:emissivity-biased:standalone-voxel",
                  "the sampled mean emissivity of a voxel with a parent node and its own transform deviates from the area mean "
                  "over the cross-section beyond the p=2.6e-12 bound: the estimate depends on scene placement", atol=tol,
                  monitor="place_stat", voxel_transform=case["voxel_transform"], **base)


# ------------------------------------------------------------------------------------------------
# kinds of iterables accepted for the cells of a grid
# ------------------------------------------------------------------------------------------------

def _cell_container(q, inner):
    from raysect.core import Point2D
    if inner == "tuple-of-tuples":
        return tuple((x, y) for x, y in q)
    if inner == "ndarray":
        return np.array(q, dtype=float)
    if inner == "list-of-point2d":
        return [Point2D(x, y) for x, y in q]
    return [[x, y] for x, y in q]


def _cells_container(cells, outer, inner):
    import collections
    items = [_cell_container(q, inner) for q in cells]
    if outer == "list":
        return items
    if outer == "tuple":
        return tuple(items)
    if outer == "generator":
        return (it for it in items)
    if outer == "map":
        return map(lambda it: it, items)
    if outer == "iterator":
        return iter(items)
    if outer == "zip-generator":
        return (it for it, _ in zip(items, range(len(items))))
    if outer == "deque":
        return collections.deque(items)
    if outer == "dict-values":
        return dict(enumerate(items)).values()
    if outer == "object-array":
        arr = np.empty(len(items), dtype=object)
        for i, it in enumerate(items):
            arr[i] = it
        return arr
    if outer == "ndarray-3d":
        return np.array(cells, dtype=float)
    raise ValueError(outer)


def _run_gridcont(case, ctx):
    from cherab.tools.inversions import ToroidalVoxelGrid
    cells = [[[float(a), float(b)] for a, b in q] for q in case["cells"]]
    outer, inner = case["outer"], case["inner"]
    ctx.cls(case.get("cls", "gridcont:" + outer))
    ctx.cls("gridcont-inner:" + inner)
    for q in cells:
        if not _certified(q, ctx):
            return
    if outer == "ndarray-3d" and len(set(len(q) for q in cells)) != 1:
        raise RuntimeError("C17 harness: ndarray-3d needs equal vertex counts")
    n = len(cells)
    act = case.get("active", "all")
    grid = ToroidalVoxelGrid(_cells_container(cells, outer, inner), active=act if act == "all" else int(act))
    ctx.nontrivial()
    det = dict(outer=outer, inner=inner, n_cells=n)
    ok = ctx.check(len(grid) == n and grid.count == n, "grid:container:voxel-count:" + outer,
                   "a grid built from this kind of iterable of cells does not hold one voxel per cell", monitor="gridcont",
                   got=len(grid), **det)
    tbs = [rounding_bounds(q, exact_moments(q)) for q in cells]
    want_tot = math.fsum(tb["volume"] for tb in tbs)
    ctx.close(grid.total_volume, want_tot, "grid:container:total-volume:" + outer,
              "total_volume of a grid built from this kind of iterable of cells differs from the sum of the true voxel volumes",
              atol=float(sum(tb["vol"] for tb in tbs)) + (n + 4) * EPS * want_tot, monitor="gridcont", **det)
    if ok:
        ctx.close(np.array([v.volume for v in grid]), np.array([tb["volume"] for tb in tbs]), "grid:container:voxel-volume:" + outer,
                  "voxel volumes of a grid built from this kind of iterable of cells differ from the true volumes (order or "
                  "content of the cells changed)", atol=np.array([tb["vol"] for tb in tbs]), monitor="gridcont", **det)
