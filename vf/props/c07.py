"""C07 — OpenADAS rates reproduce stored tables and honour range / missing-data policy.

Shape: reference model per call.  Every case builds a private repository with the repository's own update_*
functions, asks OpenADAS(data_path=...) for ONE accessor under all 2^3 flag combinations and judges what comes back
against an independent model of the repository content (a dict keyed by file-level species symbol / charge /
transition / metastable, isotopes mapped to their element for rates only):

  knot         value at every stored grid point == table value x documented conversion (rtol 1e-9)
  nonneg       values at knots / interior / extrapolated points are finite and >= 0
  nonpositive  density / temperature / energy argument <= 0  ->  exactly 0
  range_raise  one argument up to a decade outside its axis, permit_extrapolation=False -> raises
  range_finite same, permit_extrapolation=True -> finite, non-negative
  isotope      isotope request served by the element's table (decoy table stored under the isotope symbol is ignored)
  wavelength   photon -> W conversion uses the wavelength of the REQUESTED species (element fallback only with the flag)
  missing_raise / missing_null   policy table for absent file / absent key / absent wavelength
  hostile_interior  tables with hostile shapes along one axis (dip / spike / alternating / notch of 3-12 decades between
               neighbouring knots, values next to the smallest normal double): >= 24 points per knot interval of that
               axis, other arguments on and between knots, must be non-negative, not NaN, not raise (knots still judged)
  range_matrix degenerate-but-legal tables (exactly independent of one axis, constant, constant along one axis over part of
               its knots, separable) get, besides all value checks and the single-axis excursions, the rest of the
               range-policy matrix: each edge knot of each axis (must evaluate), outside every PAIR of axes and outside
               all axes at once (raise without / finite non-negative with permit_extrapolation)
  history      call-history independence: a random request sequence on ONE rate object (knots, interior, non-positive,
               out-of-range points repeated 3-4 times, right after in-range / the same / other out-of-range requests)
               gives, request by request, the bit-identical value or the same exception type as a freshly constructed
               rate object asked only that request
"""
import math
import os
import shutil
import tempfile

import numpy as np

ID = "C07"
LEVEL = "exploration"
RULE = ("one case = one private repository written with repository.update_* + one accessor of OpenADAS (14 data "
        "accessors: 13 rate accessors + wavelength; the '16 methods' of the class include __init__ and data_path) "
        "evaluated under all 8 combinations of permit_extrapolation / missing_rates_return_null / "
        "wavelength_element_fallback; random positive tables (log-random-walk, <= 12 decades, 2..12 knots per axis, "
        "knot spacing >= 0.1 decade), hostile-shape tables (dip / spike / alternating / notch of 3-12 decades between "
        "neighbouring knots along one axis, or values just above the smallest normal double; every accessor, every axis) "
        "sampled densely between knots, degenerate tables (exactly independent of one axis / constant / constant along "
        "one axis over part of its knots / rank-1; every accessor, every axis) with the full range-policy matrix, or "
        "single-point axes; requested species element or isotope (with decoy tables "
        "stored under the isotope symbol / other charge / other transition / other metastable); scenarios present / "
        "file missing / key missing / wavelength missing; arguments at every knot, at random interior points, "
        "non-positive, and up to one decade outside each axis; plus, for both permit_extrapolation values, a 25-60 "
        "request call sequence on one rate object compared request-by-request with fresh rate objects. A case is non-trivial when at least one knot "
        "comparison or one missing-data policy decision was evaluated; distinct = distinct expanded case")
LEVEL_TEXT = ("Exploration by runtime reference-model monitoring: the real repository writers, readers, OpenADAS "
              "accessors and Cython rate classes are executed on generated repository contents and every returned "
              "number / exception type is compared with an independent model of the stored tables and of the "
              "documented unit conversions; right level because the property quantifies over unbounded table "
              "contents and the code is deterministic")
LEVEL_NOTE = ("trusted: the repository update_* writers store what they are given (that is property C06), Planck and c "
              "(exact SI values); range policy on single-point axes and the null-flag behaviour for a missing "
              "wavelength are not judged (statement ambiguous there) and counted as skips")
TECHNIQUE = ("runtime monitoring: reference-model oracle per accessor call (stored table x conversion at knots, "
             "range / missing-data policy table) over generated repositories")
ASSUMPTIONS = ["tables are written through cherab.openadas.repository.update_* (last write wins per key: C06)",
               "tables have log-slopes <= ~3 per decade and knot spacing >= 0.1 decade so that permitted "
               "extrapolation one decade out stays inside the double range",
               "arguments are finite doubles (no NaN / inf)"]
ASAN_MODULES = ['cherab.openadas.rates.atomic', 'cherab.openadas.rates.pec', 'cherab.openadas.rates.beam', 'cherab.openadas.rates.cx', 'cherab.openadas.rates.radiated_power']
ASAN = dict(cases=400, workers=8, timecap=240)
QUICK = dict(cases=600, workers=2, timecap=45)
THOROUGH = dict(cases=24000, workers=16, timecap=600)
REQUIRED = {"knot": 60000, "nonneg": 60000, "nonpositive": 8000, "range_raise": 6000, "range_finite": 6000,
            "isotope": 600, "wavelength": 500, "missing_raise": 350, "missing_null": 1200, "single_point": 280,
            "history": 8000, "hostile_interior": 20000, "range_matrix": 2000}

HC_NM = 6.62607015e-34 * 299792458.0 * 1e9      # J.nm   (exact SI 2019 values)
KNOT_RTOL = 1e-9

# element -> (atomic number, isotopes (variable name in cherab.core.atomic.elements))
ELEMENTS = {"hydrogen": (1, ["protium", "deuterium", "tritium"]), "helium": (2, ["helium3", "helium4"]),
            "lithium": (3, ["lithium6", "lithium7"]), "beryllium": (4, ["beryllium9"]), "boron": (5, ["boron11"]),
            "carbon": (6, ["carbon12", "carbon13"]), "nitrogen": (7, []), "oxygen": (8, []),
            "neon": (10, ["neon20", "neon22"]), "argon": (18, ["argon40"]), "tungsten": (74, [])}
ISO2EL = {i: e for e, (z, isos) in ELEMENTS.items() for i in isos}
ELNAMES = sorted(ELEMENTS)
TRANSITIONS = [[3, 2], [2, 1], [4, 2], [8, 7], [10, 9], ["2s1 3p1 3P4.0", "2s1 3s1 3S1.0"], ["n=3", "n=2"],
               ["3D", "2P"], [5, 3], ["1s2 2p1", "1s2 2s1"]]

FAM_2D = ["ionisation_rate", "recombination_rate", "thermal_cx_rate", "line_radiated_power_rate",
          "continuum_radiated_power_rate", "cx_radiated_power_rate", "impact_excitation_pec", "recombination_pec"]
FAM_BEAM = ["beam_stopping_rate", "beam_population_rate", "beam_emission_pec"]
ACCESSORS = FAM_2D + ["thermal_cx_pec"] + FAM_BEAM + ["beam_cx_pec", "wavelength"]
PEC = {"impact_excitation_pec", "recombination_pec", "thermal_cx_pec", "beam_emission_pec", "beam_cx_pec"}

AXES = {a: ["ne", "te"] for a in FAM_2D}
AXES["thermal_cx_pec"] = ["ne", "te", "td"]
for _a in FAM_BEAM:
    AXES[_a] = ["e", "n", "t"]
AXES["beam_cx_pec"] = ["eb", "ti", "ni", "z", "b"]
ARGNAMES = {"ne": "density", "te": "temperature", "td": "donor_temperature", "e": "energy", "n": "density",
            "t": "temperature", "eb": "energy", "ti": "temperature", "ni": "density", "z": "z_effective", "b": "b_field"}
GUARDED = {"ne", "te", "td", "e", "n", "t", "eb", "ti", "ni"}          # density / temperature / energy arguments
AXIS_LO = {"ne": (13, 20), "te": (-1, 2), "td": (-1, 2), "e": (2, 4.5), "n": (13, 20), "t": (-1, 2), "eb": (2, 4.5),
           "ti": (0, 2.5), "ni": (17, 19.5), "z": (0, 0.3), "b": (-0.5, 0.3)}
AXIS_SPAN = {"ne": 6, "te": 5, "td": 4, "e": 3, "n": 6, "t": 4, "eb": 3, "ti": 2.5, "ni": 2.5, "z": 0.9, "b": 1.0}

# which key fields each accessor has (in call order); species fields first
KEYFIELDS = {a: ["ion", "charge"] for a in FAM_2D}
KEYFIELDS["thermal_cx_rate"] = ["donor", "donor_charge", "receiver", "receiver_charge"]
KEYFIELDS["impact_excitation_pec"] = ["ion", "charge", "transition"]
KEYFIELDS["recombination_pec"] = ["ion", "charge", "transition"]
KEYFIELDS["thermal_cx_pec"] = ["donor", "donor_charge", "receiver", "receiver_charge", "transition"]
KEYFIELDS["beam_stopping_rate"] = ["beam", "plasma", "charge"]
KEYFIELDS["beam_population_rate"] = ["beam", "metastable", "plasma", "charge"]
KEYFIELDS["beam_emission_pec"] = ["beam", "plasma", "charge", "transition"]
KEYFIELDS["beam_cx_pec"] = ["donor", "receiver", "receiver_charge", "transition"]
KEYFIELDS["wavelength"] = ["ion", "charge", "transition"]
SPECIES_FIELDS = {"ion", "donor", "receiver", "beam", "plasma"}
for _a in ACCESSORS:
    REQUIRED["acc:" + _a] = 64      # accessor calls with data present (>= 8 cases x 8 flag combinations)
# (species field, charge field, charge offset) whose wavelength converts photons to watts
WL_OF = {"impact_excitation_pec": ("ion", "charge", 0), "recombination_pec": ("ion", "charge", 0),
         "thermal_cx_pec": ("receiver", "receiver_charge", -1), "beam_emission_pec": ("beam", None, 0),
         "beam_cx_pec": ("receiver", "receiver_charge", -1)}
# which charge field belongs to which species field (validity of the charge)
CHARGE_OF = {"charge": {"ionisation_rate": "ion", "recombination_rate": "ion", "line_radiated_power_rate": "ion",
                        "continuum_radiated_power_rate": "ion", "cx_radiated_power_rate": "ion",
                        "impact_excitation_pec": "ion", "recombination_pec": "ion", "beam_stopping_rate": "plasma",
                        "beam_population_rate": "plasma", "beam_emission_pec": "plasma", "wavelength": "ion"},
             "donor_charge": "donor", "receiver_charge": "receiver"}


# ----------------------------------------------------------------------------------------------------------------
# case generation
# ----------------------------------------------------------------------------------------------------------------

def _el_of(name):
    return ISO2EL.get(name, name)


def _z_of(name):
    return ELEMENTS[_el_of(name)][0]


def _axis(rng, name, n):
    lo = rng.uniform(*AXIS_LO[name])
    if n == 1:
        return [float(10 ** lo)]
    span = rng.uniform(0.15 * (n - 1), max(AXIS_SPAN[name], 0.15 * (n - 1) + 0.1))
    w = rng.uniform(0.2, 1.0, size=n - 1)
    steps = 0.1 + (span - 0.1 * (n - 1)) * w / w.sum()
    lx = lo + np.concatenate([[0.0], np.cumsum(steps)])
    return [float(v) for v in 10 ** lx]


def _walk(rng, x, maxslope=3.0):
    lx = np.log10(np.asarray(x))
    if len(lx) == 1:
        return np.zeros(1)
    s = rng.uniform(-maxslope, maxslope, size=len(lx) - 1)
    if rng.random() < 0.5:       # smoother tables half of the time
        s = np.cumsum(rng.uniform(-0.6, 0.6, size=len(s))) + rng.uniform(-1.5, 1.5)
        s = np.clip(s, -maxslope, maxslope)
    return np.concatenate([[0.0], np.cumsum(s * np.diff(lx))])


def _nd_table(rng, axes, base):
    """positive table, log10 = base + sum of per-axis random walks + small cross noise, total span <= 12 decades"""
    parts = [_walk(rng, a) for a in axes]
    lg = np.zeros([len(a) for a in axes])
    for i, p in enumerate(parts):
        sh = [1] * len(axes)
        sh[i] = len(p)
        lg = lg + p.reshape(sh)
    lg = lg + rng.uniform(-0.15, 0.15, size=lg.shape)
    span = lg.max() - lg.min()
    if span > 12.0:
        lg = lg.min() + (lg - lg.min()) * (12.0 / span)
    return 10 ** (base + lg - lg.mean())


def _sizes(rng, axes, single, tier):
    hi = (7 if tier == "quick" else 10) if len(axes) == 3 else 12
    n = [int(rng.integers(2, hi + 1)) for _ in axes]
    if rng.random() < 0.2:
        n[int(rng.integers(len(axes)))] = 2
    for ax in single:
        n[axes.index(ax)] = 1
    return n


HOSTILE_PATTERNS = ["dip", "spike", "alternating", "notch", "tiny"]
LINEAR_AXES = {"ti", "ni", "z", "b"}        # beam-CX factors interpolated in linear space


def _hostile_profile(rng, n, pattern, depth):
    """log10 offsets along the hostile axis (n >= 4 knots): neighbouring knots differ by `depth` (3..12) decades"""
    p = np.zeros(n)
    if pattern == "dip":                      # two adjacent interior knots far below a plateau
        k = int(rng.integers(1, n - 2))
        p[k] = p[k + 1] = -depth
    elif pattern == "spike":                  # one (sometimes two) interior knots far above a plateau
        k = int(rng.integers(1, n - 1))
        p[k] = depth
        if k + 1 < n - 1 and rng.random() < 0.3:
            p[k + 1] = depth
    elif pattern == "alternating":            # high / low / high / low ...
        p[int(rng.integers(2))::2] = -depth
    elif pattern == "notch":                  # plateau with a single deep notch
        p[int(rng.integers(1, n - 1))] = -depth
    return p


def _mild(rng, x):
    return _walk(rng, x, 0.4) + rng.uniform(-0.05, 0.05, size=len(x))


def _gen_hostile_table(rng, acc, hostile, scale):
    """positive table with a hostile shape along ONE axis (the other axes vary mildly); pattern 'tiny' is a mild table
    whose smallest value, after the documented conversion, lies just above the smallest positive normal double"""
    axes = AXES[acc]
    hax, pattern, depth = hostile["axis"], hostile["pattern"], float(hostile["depth"])
    n = {a: int(rng.integers(2, 5)) for a in axes}
    n[hax] = int(rng.integers(4, 9))
    grid = {}
    for a in axes:
        g = _axis(rng, a, n[a])
        if a == hax and a not in LINEAR_AXES:     # knots of the hostile axis at least 0.3 decade apart
            lg = np.log10(g)
            lg = lg[0] + np.cumsum(np.concatenate([[0.0], np.maximum(np.diff(lg), 0.3)]))
            g = [float(v) for v in 10 ** lg]
        grid[a] = g
    prof = {a: (_hostile_profile(rng, n[a], pattern, depth) if (a == hax and pattern != "tiny") else np.zeros(n[a])) + _mild(rng, grid[a])
            for a in axes}
    tiny = pattern == "tiny"
    floor_plain = -float(rng.uniform(300.0, 305.5))    # log10 of the smallest value for coefficients stored in final units
    floor_photon = -float(rng.uniform(280.0, 284.0))   # photon coefficients are multiplied by hc/lambda ~ 1e-19..7e-18 J
    d = dict(grid)
    if acc in FAM_2D or acc == "thermal_cx_pec":
        base = rng.uniform(-38, -28) if "power" in acc else rng.uniform(-20, -10)
        lg = np.zeros([n[a] for a in axes])
        for i, a in enumerate(axes):
            sh = [1] * len(axes)
            sh[i] = n[a]
            lg = lg + prof[a].reshape(sh)
        lg = lg + rng.uniform(-0.03, 0.03, size=lg.shape)
        lg = lg + (base if not tiny else (floor_photon if acc in PEC else floor_plain) - lg.min())
        d["rate"] = (10 ** lg * scale).tolist()
        return d
    if acc in FAM_BEAM:
        base = rng.uniform(-1.5, -0.1) if acc == "beam_population_rate" else rng.uniform(-16, -11)
        lsen = prof["e"][:, None] + prof["n"][None, :] + rng.uniform(-0.03, 0.03, size=(n["e"], n["n"]))
        lst = prof["t"] + rng.uniform(-0.3, 0.3)
        lsen = lsen + (base if not tiny else (floor_photon if acc in PEC else floor_plain) - lsen.min() - min(lst.min(), 0.0))
        sref = float(10 ** (base + rng.uniform(-0.5, 0.5)))
        d.update(sen=(10 ** lsen * scale).tolist(), st=[float(v) for v in sref * 10 ** lst], sref=sref,
                 eref=float(grid["e"][0]), nref=float(grid["n"][0]), tref=float(grid["t"][0]))
        return d
    if acc == "beam_cx_pec":
        base = rng.uniform(-16, -12)
        qref = float(10 ** (base + rng.uniform(-0.5, 0.5)))
        fac = {a: prof[a] + rng.uniform(-0.3, 0.3) for a in ("ti", "ni", "z", "b")}
        lqeb = prof["eb"] + (base if not tiny else floor_photon - prof["eb"].min() - sum(min(f.min(), 0.0) for f in fac.values()))
        d["qref"] = qref
        d["qeb"] = [float(v) for v in 10 ** lqeb * scale]
        for a, q in (("ti", "qti"), ("ni", "qni"), ("z", "qz"), ("b", "qb")):
            d[q] = [float(v) for v in qref * 10 ** fac[a]]
        return d
    raise ValueError(acc)


DEGENERATE_KINDS = ["indep", "constant", "partial", "rank1"]


def _slice_copy(R, i, dst, src):
    idx_d = [slice(None)] * R.ndim
    idx_s = [slice(None)] * R.ndim
    idx_d[i], idx_s[i] = dst, src
    R[tuple(idx_d)] = R[tuple(idx_s)]


def _degenerate_array(rng, R, i, kind):
    """exactly (bit-for-bit) degenerate versions of a positive N-d table: independent of axis i, constant, constant along
    axis i over part of its knots, separable (rank 1)"""
    R = np.array(R, dtype=float)
    n = R.shape[i]
    if kind == "constant":
        R[...] = R.flat[0]
    elif kind == "indep" or (kind == "partial" and n < 3):
        k0 = int(rng.integers(n))
        for k in range(n):
            _slice_copy(R, i, k, k0)
    elif kind == "partial":
        m = int(rng.integers(1, n - 1))
        ks = range(0, m) if rng.random() < 0.5 else range(m + 1, n)
        for k in ks:
            _slice_copy(R, i, k, m)
    elif kind == "rank1":
        L = np.log10(R)
        out = np.zeros_like(L)
        for a in range(R.ndim):
            idx = [0] * R.ndim
            idx[a] = slice(None)
            sh = [1] * R.ndim
            sh[a] = R.shape[a]
            out = out + (L[tuple(idx)] - L.flat[0]).reshape(sh)
        R = 10 ** (out + L.flat[0])
    return R


def _degenerate_table(rng, acc, t, dg):
    """degenerate-but-legal version of a generated table (dg = {kind, axis})"""
    kind, ax = dg["kind"], dg["axis"]
    axes = AXES[acc]
    t = dict(t)
    if acc in FAM_2D or acc == "thermal_cx_pec":
        t["rate"] = _degenerate_array(rng, t["rate"], axes.index(ax), kind).tolist()
    elif acc in FAM_BEAM:
        if kind in ("constant", "rank1") or ax in ("e", "n"):
            t["sen"] = _degenerate_array(rng, t["sen"], 0 if ax == "e" else 1 if ax == "n" else int(rng.integers(2)), kind).tolist()
        if kind == "constant" or (ax == "t" and kind != "rank1"):
            t["st"] = [float(v) for v in _degenerate_array(rng, t["st"], 0, "constant" if kind == "rank1" else kind)]
    elif acc == "beam_cx_pec":
        qn = {"eb": "qeb", "ti": "qti", "ni": "qni", "z": "qz", "b": "qb"}
        which = list(qn) if kind == "constant" else [ax] + ([axes[(axes.index(ax) + 1) % 5]] if kind == "rank1" else [])
        for a in which:
            t[qn[a]] = [float(v) for v in _degenerate_array(rng, t[qn[a]], 0, "partial" if kind == "partial" else "constant")]
    return t


def _gen_table(rng, acc, single, tier, scale=1.0, hostile=None):
    if hostile is not None:
        return _gen_hostile_table(rng, acc, hostile, scale)
    axes = AXES[acc]
    n = _sizes(rng, axes, single, tier)
    grid = {ax: _axis(rng, ax, k) for ax, k in zip(axes, n)}
    if acc in FAM_2D or acc == "thermal_cx_pec":
        base = rng.uniform(-38, -28) if "power" in acc else rng.uniform(-20, -10)
        tab = _nd_table(rng, [grid[a] for a in axes], base) * scale
        d = dict(grid)
        d["rate"] = tab.tolist()
        return d
    if acc in FAM_BEAM:
        base = rng.uniform(-1.5, -0.1) if acc == "beam_population_rate" else rng.uniform(-16, -11)
        sen = _nd_table(rng, [grid["e"], grid["n"]], base) * scale
        sref = float(10 ** (base + rng.uniform(-0.5, 0.5)))
        st = sref * 10 ** (_walk(rng, grid["t"], 1.5) + rng.uniform(-0.3, 0.3))
        d = dict(grid)
        d.update(sen=sen.tolist(), st=[float(v) for v in st], sref=sref,
                 eref=float(grid["e"][0]), nref=float(grid["n"][0]), tref=float(grid["t"][0]))
        return d
    if acc == "beam_cx_pec":
        base = rng.uniform(-16, -12)
        qref = float(10 ** (base + rng.uniform(-0.5, 0.5)))
        d = dict(grid)
        d["qref"] = qref
        d["qeb"] = [float(v) for v in 10 ** (base + _walk(rng, grid["eb"], 3.0)) * scale]
        for ax, q in (("ti", "qti"), ("ni", "qni"), ("z", "qz"), ("b", "qb")):
            d[q] = [float(v) for v in qref * 10 ** (_walk(rng, grid[ax], 1.0) + rng.uniform(-0.3, 0.3))]
        return d
    raise ValueError(acc)


def _pick_species(rng, isotope):
    if isotope:
        iso = sorted(ISO2EL)[int(rng.integers(len(ISO2EL)))]
        if rng.random() < 0.5:
            iso = ["deuterium", "tritium", "protium", "helium3"][int(rng.integers(4))]
        return iso
    return ELNAMES[int(rng.integers(len(ELNAMES)))]


def _tkey(tr):
    return (str(tr[0]).lower(), str(tr[1]).lower())


def _gen_key(rng, acc, iso_mode):
    """request key; iso_mode in none / one / all"""
    fields = KEYFIELDS[acc]
    sp = [f for f in fields if f in SPECIES_FIELDS]
    key = {}
    # the species whose wavelength matters is made the isotope first
    prefer = WL_OF[acc][0] if acc in WL_OF else sp[0]
    for f in sp:
        iso = iso_mode == "all" or (iso_mode == "one" and f == prefer)
        key[f] = _pick_species(rng, iso)
    if acc in FAM_BEAM or acc == "beam_cx_pec":
        bf = "beam" if acc in FAM_BEAM else "donor"
        if rng.random() < 0.8:
            key[bf] = ["deuterium", "tritium", "protium"][int(rng.integers(3))] if ISO2EL.get(key[bf]) else "hydrogen"
    for f in fields:
        if f == "charge":
            key[f] = int(rng.integers(0, min(_z_of(key[CHARGE_OF["charge"][acc]]), 12) + 1))
        elif f == "donor_charge":
            key[f] = int(rng.integers(0, min(_z_of(key["donor"]) - 1, 3) + 1))
        elif f == "receiver_charge":
            key[f] = int(rng.integers(1, min(_z_of(key["receiver"]), 12) + 1))
        elif f == "metastable":
            key[f] = int(rng.integers(0, 4))
        elif f == "transition":
            key[f] = TRANSITIONS[int(rng.integers(len(TRANSITIONS)))]
    return key


def _perturb(rng, acc, key, how):
    """a different key of the same accessor (used for decoys / 'key missing' scenarios)"""
    k = dict(key)
    if how == "charge":
        cf = [f for f in KEYFIELDS[acc] if f.endswith("charge")]
        f = cf[int(rng.integers(len(cf)))]
        sf = CHARGE_OF[f] if f != "charge" else CHARGE_OF["charge"][acc]
        z = _z_of(k[sf])
        lo = 1 if f == "receiver_charge" else 0
        hi = z - 1 if f == "donor_charge" else z
        cand = [c for c in range(lo, hi + 1) if c != k[f]]
        if not cand:
            return None
        k[f] = cand[int(rng.integers(len(cand)))]
    elif how == "transition":
        if "transition" not in k:
            return None
        cand = [t for t in TRANSITIONS if _tkey(t) != _tkey(k["transition"])]
        k["transition"] = cand[int(rng.integers(len(cand)))]
    elif how == "metastable":
        if "metastable" not in k:
            return None
        k["metastable"] = k["metastable"] + 1 + int(rng.integers(2))
    elif how == "species":
        sp = [f for f in KEYFIELDS[acc] if f in SPECIES_FIELDS]
        f = sp[int(rng.integers(len(sp)))]
        need = 1
        for cf in KEYFIELDS[acc]:
            if cf.endswith("charge"):
                owner = CHARGE_OF[cf] if cf != "charge" else CHARGE_OF["charge"][acc]
                if owner == f:
                    need = max(need, int(k[cf]) + (1 if cf == "donor_charge" else 0))
        cand = [e for e in ELNAMES if e != _el_of(k[f]) and ELEMENTS[e][0] >= need]
        if not cand:
            return None
        k[f] = cand[int(rng.integers(len(cand)))]
    elif how == "isotope-only":
        # the same key but stored under the isotope symbol(s): must NOT serve the request (rates come from the element)
        sp = [f for f in KEYFIELDS[acc] if f in SPECIES_FIELDS and ISO2EL.get(k[f]) and k[f] != "protium"]
        if not sp:
            return None
        return k
    else:
        raise ValueError(how)
    return k


def _element_level(acc, key):
    k = dict(key)
    for f in KEYFIELDS[acc]:
        if f in SPECIES_FIELDS:
            k[f] = _el_of(k[f])
    return k


def make_case(rng, tier, accessor=None, scenario=None, iso_mode=None, single=None, hostile=None, degenerate=None):
    acc = accessor or ACCESSORS[int(rng.integers(len(ACCESSORS)))]
    if scenario is None:
        r = rng.random()
        scenario = ("present" if r < 0.30 else "degenerate" if r < 0.44 else "hostile" if r < 0.56 else "single" if r < 0.68 else
                    "missing" if r < 0.89 else "nowavelength")
    if acc == "wavelength" and scenario in ("single", "nowavelength", "hostile", "degenerate"):
        scenario = "present" if rng.random() < 0.6 else "missing"
    if scenario == "nowavelength" and acc not in PEC:
        scenario = "present"
    if iso_mode is None:
        iso_mode = ["none", "one", "one", "all"][int(rng.integers(4))]
    key = _gen_key(rng, acc, iso_mode)
    case = dict(accessor=acc, scenario=scenario, request=key, stores=[], wavelengths=[])
    tr = key.get("transition")

    if acc == "wavelength":
        lam = float(rng.uniform(30, 2000))
        sp = key["ion"]
        el = _el_of(sp)
        if scenario == "present":
            mode = ["both", "element", "isotope"][int(rng.integers(3))] if el != sp else "element"
            if mode in ("both", "element"):
                case["wavelengths"].append(dict(ion=el, charge=key["charge"], transition=tr, value=lam))
            if mode in ("both", "isotope") and sp != "protium":
                case["wavelengths"].append(dict(ion=sp, charge=key["charge"], transition=tr,
                                                value=lam * (1 + float(rng.uniform(1e-5, 5e-4)) * (1 if rng.random() < 0.5 else -1))))
            case["wl_mode"] = mode
        else:
            how = ["empty", "charge", "transition", "species"][int(rng.integers(4))]
            case["missing_how"] = how
            if how != "empty":
                k2 = _perturb(rng, acc, key, how)
                if k2 is not None:
                    case["wavelengths"].append(dict(ion=k2["ion"], charge=k2["charge"], transition=k2["transition"], value=lam))
        _eval_points(rng, case, None)
        return case

    # ---- rate tables -------------------------------------------------------------------------------------
    axes = AXES[acc]
    if scenario == "single":
        if single is None:
            k = 1 if rng.random() < 0.7 else int(rng.integers(2, len(axes) + 1))
            single = [axes[i] for i in sorted(rng.choice(len(axes), size=k, replace=False))]
    else:
        single = []
    case["single_axes"] = list(single)
    ek = _element_level(acc, key)
    nmeta = 1
    metas = None
    if acc == "beam_cx_pec":
        nmeta = int(rng.integers(1, 4))
        metas = sorted(int(m) for m in rng.choice(4, size=nmeta, replace=False))

    if scenario == "hostile":
        if hostile is None:
            hostile = dict(axis=axes[int(rng.integers(len(axes)))], pattern=HOSTILE_PATTERNS[int(rng.integers(len(HOSTILE_PATTERNS)))])
        hostile = dict(hostile)
        hostile.setdefault("depth", float(rng.uniform(3.0, 11.5)))
        hostile["dense"] = 24
        hostile["others"] = [dict(mode="knots", at=[float(v) for v in rng.uniform(0, 1, size=len(axes))]),
                             dict(mode="between", at=[float(v) for v in rng.uniform(0.05, 0.95, size=len(axes))])]
        case["hostile"] = hostile

    if scenario == "degenerate":
        if degenerate is None:
            degenerate = dict(kind=DEGENERATE_KINDS[int(rng.integers(len(DEGENERATE_KINDS)))], axis=axes[int(rng.integers(len(axes)))])
        case["degenerate"] = dict(degenerate)

    def new_tables(scale, hz=None, dg=None):
        def one():
            t = _gen_table(rng, acc, single, tier, scale, hz)
            return _degenerate_table(rng, acc, t, dg) if dg else t
        if metas is None:
            return one()
        return {str(m): one() for m in metas}

    if scenario in ("present", "single", "nowavelength", "hostile", "degenerate"):
        # decoys first (so a decoy that lands on the same file never overwrites the real table)
        decoys = []
        for how in ("isotope-only", "charge", "transition", "metastable", "species"):
            if rng.random() < (0.6 if how == "isotope-only" else 0.25):
                k2 = _perturb(rng, acc, key if how == "isotope-only" else ek, how)
                if k2 is not None:
                    decoys.append(dict(key=k2, table=new_tables(float(rng.uniform(2.5, 40))), role="decoy:" + how))
        case["stores"] = decoys + [dict(key=ek, table=new_tables(1.0, case.get("hostile"), case.get("degenerate")), role="main")]
    else:
        how = ["empty", "charge", "transition", "metastable", "species", "isotope-only"][int(rng.integers(6))]
        k2 = None if how == "empty" else _perturb(rng, acc, key if how == "isotope-only" else ek, how)
        if k2 is None:
            how = "empty"
        case["missing_how"] = how
        if k2 is not None:
            case["stores"] = [dict(key=k2, table=new_tables(1.0), role="decoy:" + how)]

    # ---- wavelengths ------------------------------------------------------------------------------------------
    if acc in WL_OF:
        sf, cf, off = WL_OF[acc]
        sp = key[sf]
        el = _el_of(sp)
        q = (key[cf] + off) if cf else 0
        lam = float(rng.uniform(30, 2000))
        lam_iso = lam * (1 + float(rng.uniform(1e-5, 5e-4)) * (1 if rng.random() < 0.5 else -1))
        if scenario == "nowavelength":
            mode = ["none", "other"][int(rng.integers(2))]
            if el != sp and sp != "protium":
                mode = ["none", "other", "element-only", "element-only"][int(rng.integers(4))]
        elif el != sp and sp != "protium":
            mode = ["both", "both", "isotope-only", "element-only"][int(rng.integers(4))]
        else:
            mode = "element"
        case["wl_mode"] = mode
        if mode in ("both", "element", "element-only"):
            case["wavelengths"].append(dict(ion=el, charge=q, transition=tr, value=lam))
        if mode in ("both", "isotope-only"):
            case["wavelengths"].append(dict(ion=sp, charge=q, transition=tr, value=lam_iso))
        if mode == "other" or rng.random() < 0.3:
            cand = [t for t in TRANSITIONS if _tkey(t) != _tkey(tr)]
            case["wavelengths"].append(dict(ion=el, charge=q, transition=cand[int(rng.integers(len(cand)))],
                                            value=float(rng.uniform(30, 2000))))
    main = [s for s in case["stores"] if s["role"] == "main"]
    _eval_points(rng, case, main[0]["table"] if main else None)
    return case


def _eval_points(rng, case, table):
    acc = case["accessor"]
    if acc == "wavelength":
        return
    axes = AXES[acc]
    d = len(axes)
    case["interior"] = rng.uniform(0.02, 0.98, size=(6, d)).tolist()
    out = []
    for i in range(d):
        for side in (-1, 1):
            out.append(dict(axis=i, side=side, factor=float(10 ** rng.uniform(math.log10(1 + 1e-6), 1.0)),
                            at=rng.uniform(0.05, 0.95, size=d).tolist()))
            out.append(dict(axis=i, side=side, factor=float([1.0 + 1e-6, 1.001, 2.0, 10.0][int(rng.integers(4))]),
                            at=rng.uniform(0.05, 0.95, size=d).tolist()))
    case["outside"] = out
    npos = []
    for i in range(d):
        for v in (0.0, -1.0, -float(10 ** rng.uniform(-3, 20))):
            npos.append(dict(axis=i, value=v, at=rng.uniform(0.0, 1.0, size=d).tolist()))
    case["nonpositive"] = npos
    # generic positive arguments for null rates
    case["null_args"] = [[float(10 ** rng.uniform(*AXIS_LO[a])) for a in axes] for _ in range(4)]
    case["cx_anchor"] = [float(v) for v in rng.uniform(0, 1, size=d)]
    case["cx_combos"] = rng.uniform(0, 1, size=(12, d)).tolist()
    case["history"] = _gen_history(rng, d)
    if case.get("degenerate"):
        case["range_matrix"] = _gen_range_matrix(rng, d)


def _gen_range_matrix(rng, d):
    """full range-policy matrix: on each edge knot of each axis (others inside), outside two axes at once (every pair of
    axes, every combination of sides) and outside all axes; the single-axis excursions are the 'outside' points"""
    def at():
        return [float(v) for v in rng.uniform(0.05, 0.95, size=d)]

    def fac():
        return float([1.0 + 1e-6, 1.01, 2.0, 10.0, 10 ** rng.uniform(1e-3, 1.0)][int(rng.integers(5))])
    pts = []
    for i in range(d):
        for end in (-1, 1):
            pts.append(dict(kind="edge", sides={str(i): end}, at=at(), others=["between", "knots"][int(rng.integers(2))]))
    for i in range(d):
        for j in range(i + 1, d):
            for si in (-1, 1):
                for sj in (-1, 1):
                    pts.append(dict(kind="outside", sides={str(i): si, str(j): sj}, factors={str(i): fac(), str(j): fac()}, at=at()))
    for _ in range(2):
        pts.append(dict(kind="outside", sides={str(i): int(rng.choice([-1, 1])) for i in range(d)},
                        factors={str(i): fac() for i in range(d)}, at=at()))
    return pts


def _gen_history(rng, d):
    """call-history workload: distinct requests + a sequence (indices) in which every out-of-range request occurs at
    least three times: right after an in-range request, right after itself, right after another out-of-range request
    (other axis / other side) and after a non-positive request"""
    def at():
        return [float(v) for v in rng.uniform(0.03, 0.97, size=d)]
    reqs = []
    for _ in range(3):
        reqs.append(dict(kind="knot", at=at()))
    for _ in range(3):
        reqs.append(dict(kind="interior", at=at()))
    for _ in range(2):
        reqs.append(dict(kind="nonpositive", axis=int(rng.integers(d)), value=[0.0, -1.0, -3.5e7][int(rng.integers(3))], at=at()))
    inr = list(range(6))
    npos = [6, 7]
    outs = []
    for i in range(d):
        for side in (-1, 1):
            outs.append(len(reqs))
            reqs.append(dict(kind="outside", axis=i, side=side, at=at(),
                             factor=float([1.0 + 1e-6, 1.01, 2.0, 10.0, 10 ** rng.uniform(1e-3, 1.0)][int(rng.integers(5))])))
    pick = lambda pool: int(pool[int(rng.integers(len(pool)))])
    seq = [pick(inr)]
    for o in [int(v) for v in rng.permutation(outs)]:
        other = [q for q in outs if q != o]
        pat = int(rng.integers(5))
        if pat == 0:
            seq += [pick(inr), o, o]
        elif pat == 1:
            seq += [o, o, o]
        elif pat == 2:
            seq += [pick(inr), o, pick(other), o]
        elif pat == 3:
            seq += [o, pick(inr), o, o]
        else:
            seq += [pick(npos), o, o, pick(inr)]
    tail = [int(v) for v in rng.permutation(outs + inr + npos)]
    return dict(requests=reqs, sequence=seq + tail, null=bool(rng.integers(2)), fb=bool(rng.integers(2)))


def gen_case(rng, tier):
    return make_case(rng, tier)


def fixed_cases(tier):
    out = []
    rng = np.random.default_rng(70707)
    for acc in ACCESSORS:
        out.append(make_case(rng, tier, acc, "present", "none"))
        out.append(make_case(rng, tier, acc, "present", "one"))
        out.append(make_case(rng, tier, acc, "present", "all"))
        out.append(make_case(rng, tier, acc, "missing", "none"))
        out.append(make_case(rng, tier, acc, "missing", "one"))
        out.append(make_case(rng, tier, acc, "missing", "all"))
        if acc != "wavelength":
            for ax in AXES[acc]:
                out.append(make_case(rng, tier, acc, "single", "none", [ax]))
            out.append(make_case(rng, tier, acc, "single", "one", list(AXES[acc])))
        if acc in PEC:
            out.append(make_case(rng, tier, acc, "nowavelength", "none"))
            out.append(make_case(rng, tier, acc, "nowavelength", "one"))
            out.append(make_case(rng, tier, acc, "nowavelength", "one"))
    rng = np.random.default_rng(50505)
    shapes = HOSTILE_PATTERNS[:4]
    k = 0
    for acc in ACCESSORS:
        if acc == "wavelength":
            continue
        for ax in AXES[acc]:
            pats = shapes if ax in LINEAR_AXES else [shapes[k % 4], shapes[(k + 2) % 4]]
            k += 1
            for pat in pats:
                out.append(make_case(rng, tier, acc, "hostile", ["none", "one"][k % 2], hostile=dict(axis=ax, pattern=pat)))
        out.append(make_case(rng, tier, acc, "hostile", "none", hostile=dict(axis=AXES[acc][k % len(AXES[acc])], pattern="tiny")))
    rng = np.random.default_rng(30303)
    k = 0
    for acc in ACCESSORS:
        if acc == "wavelength":
            continue
        for ax in AXES[acc]:
            out.append(make_case(rng, tier, acc, "degenerate", ["none", "one"][k % 2], degenerate=dict(kind="indep", axis=ax)))
            k += 1
        for kind in ("constant", "partial", "partial", "rank1"):
            out.append(make_case(rng, tier, acc, "degenerate", ["none", "one"][k % 2],
                                 degenerate=dict(kind=kind, axis=AXES[acc][k % len(AXES[acc])])))
            k += 1
    from vf.core import jsonable
    return [jsonable(c) for c in out]


# ----------------------------------------------------------------------------------------------------------------
# harness: writing the repository through the real update_* functions
# ----------------------------------------------------------------------------------------------------------------

def _species(name):
    import cherab.core.atomic.elements as em
    return getattr(em, name)


def _sym(name):
    """file-level symbol a species is stored under (documented layout <species symbol>.json)"""
    return _species(name).symbol.lower()


def _arr_table(acc, t):
    """fresh dict of numpy arrays for update_* (the writers mutate their input)"""
    out = {}
    for k, v in t.items():
        out[k] = np.array(v, dtype=float) if isinstance(v, list) else float(v)
    return out


def _write_store(repository, acc, key, table, path):
    S = _species
    tr = tuple(key["transition"]) if "transition" in key else None
    if acc in ("ionisation_rate", "recombination_rate", "line_radiated_power_rate", "continuum_radiated_power_rate",
               "cx_radiated_power_rate"):
        t = _arr_table(acc, table)
        fn = {"ionisation_rate": repository.update_ionisation_rates,
              "recombination_rate": repository.update_recombination_rates,
              "line_radiated_power_rate": repository.update_line_power_rates,
              "continuum_radiated_power_rate": repository.update_continuum_power_rates,
              "cx_radiated_power_rate": repository.update_cx_power_rates}[acc]
        fn({S(key["ion"]): {key["charge"]: dict(ne=t["ne"], te=t["te"], rates=t["rate"])}}, repository_path=path)
    elif acc == "thermal_cx_rate":
        t = _arr_table(acc, table)
        repository.update_thermal_cx_rates({S(key["donor"]): {key["donor_charge"]: {S(key["receiver"]): {
            key["receiver_charge"]: dict(ne=t["ne"], te=t["te"], rates=t["rate"])}}}}, repository_path=path)
    elif acc in ("impact_excitation_pec", "recombination_pec"):
        cls = "excitation" if acc == "impact_excitation_pec" else "recombination"
        repository.update_pec_rates({cls: {S(key["ion"]): {key["charge"]: {tr: _arr_table(acc, table)}}}}, repository_path=path)
    elif acc == "thermal_cx_pec":
        repository.update_pec_thermal_cx_rates({S(key["donor"]): {key["donor_charge"]: {S(key["receiver"]): {
            key["receiver_charge"]: {tr: _arr_table(acc, table)}}}}}, repository_path=path)
    elif acc == "beam_stopping_rate":
        repository.update_beam_stopping_rates({S(key["beam"]): {S(key["plasma"]): {key["charge"]: _arr_table(acc, table)}}},
                                              repository_path=path)
    elif acc == "beam_population_rate":
        repository.update_beam_population_rates({S(key["beam"]): {key["metastable"]: {S(key["plasma"]): {
            key["charge"]: _arr_table(acc, table)}}}}, repository_path=path)
    elif acc == "beam_emission_pec":
        repository.update_beam_emission_rates({S(key["beam"]): {S(key["plasma"]): {key["charge"]: {tr: _arr_table(acc, table)}}}},
                                              repository_path=path)
    elif acc == "beam_cx_pec":
        repository.update_beam_cx_rates({S(key["donor"]): {S(key["receiver"]): {key["receiver_charge"]: {tr: {
            int(m): _arr_table(acc, t) for m, t in table.items()}}}}}, repository_path=path)
    else:
        raise ValueError(acc)


def _model_key(acc, key, request):
    """independent model of where a table lives: file-level symbols (isotope -> element for REQUESTS only)"""
    out = []
    for f in KEYFIELDS[acc]:
        v = key[f]
        if f in SPECIES_FIELDS:
            v = _sym(_el_of(v)) if request else _sym(v)
        elif f == "transition":
            v = _tkey(v)
        else:
            v = int(v)
        out.append(v)
    return tuple(out)


def _call_args(acc, key):
    args = []
    for f in KEYFIELDS[acc]:
        v = key[f]
        if f in SPECIES_FIELDS:
            v = _species(v)
        elif f == "transition":
            v = tuple(v)
        else:
            v = int(v)
        args.append(v)
    return args


# ----------------------------------------------------------------------------------------------------------------
# oracle helpers
# ----------------------------------------------------------------------------------------------------------------

def _knot_points(acc, t, case):
    """(args array [N, d], want array [N]) in stored (photon / raw) units"""
    axes = AXES[acc]
    g = [np.asarray(t[a], dtype=float) for a in axes]
    if acc in FAM_2D or acc == "thermal_cx_pec":
        mesh = np.meshgrid(*g, indexing="ij")
        pts = np.stack([m.ravel() for m in mesh], axis=1)
        return pts, np.asarray(t["rate"], dtype=float).ravel()
    if acc in FAM_BEAM:
        mesh = np.meshgrid(*g, indexing="ij")
        pts = np.stack([m.ravel() for m in mesh], axis=1)
        sen = np.asarray(t["sen"], dtype=float)
        st = np.asarray(t["st"], dtype=float)
        want = sen[:, :, None] * (st / float(t["sref"]))[None, None, :]      # sen * (st / sref): no intermediate underflow
        return pts, want.ravel()
    # beam cx: sweep every knot of every axis with the others at anchor knots, plus random combinations
    qs = [np.asarray(t[q], dtype=float) for q in ("qeb", "qti", "qni", "qz", "qb")]
    idx = []
    anchor = [min(int(a * len(x)), len(x) - 1) for a, x in zip(case["cx_anchor"], g)]
    for i, x in enumerate(g):
        for k in range(len(x)):
            ii = list(anchor)
            ii[i] = k
            idx.append(ii)
    for c in case["cx_combos"]:
        idx.append([min(int(a * len(x)), len(x) - 1) for a, x in zip(c, g)])
    idx = np.array(idx)
    pts = np.stack([g[i][idx[:, i]] for i in range(5)], axis=1)
    want = qs[0][idx[:, 0]].copy()
    for i in range(1, 5):
        want = want * (qs[i][idx[:, i]] / float(t["qref"]))               # qeb * prod(q_k / qref): no intermediate underflow
    return pts, want


def _cx_knot_extra_rtol(t, pts):
    """qti, qni, qz, qb are cubic-interpolated in LINEAR space: evaluating the cell polynomial at a knot in double precision
    carries an absolute error of a few eps x the largest stencil value, i.e. a RELATIVE error eps x (largest neighbour /
    knot value) on a knot next to a many-decade spike (observed up to ~12 eps x neighbour over 25 000 hostile tables).  Allowance: 512 eps x
    max(|q| within +-2 knots) / |q(knot)| per linear factor (0 on smooth tables to within 1e-13)."""
    extra = np.zeros(len(pts))
    for col, (a, q) in enumerate((("eb", None), ("ti", "qti"), ("ni", "qni"), ("z", "qz"), ("b", "qb"))):
        if q is None:
            continue
        x = np.asarray(t[a], dtype=float)
        f = np.abs(np.asarray(t[q], dtype=float))
        k = np.array([int(np.argmin(np.abs(x - v))) for v in pts[:, col]])
        nb = np.array([f[max(0, j - 2):j + 3].max() for j in k])
        extra += 512 * 2.220446049250313e-16 * nb / f[k]
    return extra


def _frac_point(acc, t, frac):
    """point strictly inside the tabulated range (log-interpolated position; single-point axes -> the point)"""
    out = []
    for a, u in zip(AXES[acc], frac):
        x = t[a]
        lo, hi = min(x), max(x)
        out.append(float(lo if lo == hi else 10 ** (math.log10(lo) + u * (math.log10(hi) - math.log10(lo)))))
    return out


LOG_AXES = {"ne", "te", "td", "e", "n", "t", "eb"}


def _edge_log10_mismatch(acc, t, p):
    """name of an axis on which p sits on the first/last knot and np.log10(knot array) puts the knot strictly inside of
    libc log10(p) (diagnosis only: selects a finer violation key, never the verdict)"""
    for a, v in zip(AXES[acc], p):
        x = np.asarray(t[a], dtype=float)
        if a not in LOG_AXES or len(x) < 2:
            continue
        lx = np.log10(x)
        lv = math.log10(float(v))
        if (v == x[0] and lv < lx[0]) or (v == x[-1] and lv > lx[-1]):
            return a
    return None


class _Outcome:
    __slots__ = ("value", "exc")

    def __init__(self, value=None, exc=None):
        self.value = value
        self.exc = exc


def _call(fn, *args):
    """execute repo code, return value or the exception object (the exception TYPE is an observation)"""
    try:
        return _Outcome(value=fn(*args))
    except Exception as e:  # noqa  (observed, classified by the caller)
        return _Outcome(exc=e)


def _exc_site(e):
    import traceback
    for fr in reversed(traceback.extract_tb(e.__traceback__)):
        if "/cherab/" in fr.filename or "/raysect/" in fr.filename:
            return "%s:%s" % (os.path.basename(fr.filename), fr.name)
    return "?"


# ----------------------------------------------------------------------------------------------------------------
# run_case
# ----------------------------------------------------------------------------------------------------------------

def run_case(case, ctx):
    from cherab.openadas import OpenADAS, repository
    acc = case["accessor"]
    scenario = case["scenario"]
    req = case["request"]
    ctx.cls("accessor:" + acc)
    ctx.cls("scenario:" + scenario + ((":" + case.get("missing_how", "")) if scenario == "missing" else ""))
    sp_fields = [f for f in KEYFIELDS[acc] if f in SPECIES_FIELDS]
    n_iso = sum(1 for f in sp_fields if req[f] in ISO2EL)
    ctx.cls("species:" + ("element" if n_iso == 0 else "isotope" if n_iso == len(sp_fields) else "mixed"))
    if case.get("single_axes"):
        ctx.cls("single-point-axis:%d-of-%d" % (len(case["single_axes"]), len(AXES[acc])))
    if case.get("degenerate"):
        ctx.cls("degenerate:%s" % case["degenerate"]["kind"])
    if case.get("hostile"):
        ctx.cls("hostile:%s:%s" % (case["hostile"]["pattern"], "linear-axis" if case["hostile"]["axis"] in LINEAR_AXES else "log-axis"))

    base = getattr(ctx, "home", None)
    path = tempfile.mkdtemp(prefix="c07repo_", dir=base if base and os.path.isdir(base) else None)
    try:
        # ---- write the repository + build the model --------------------------------------------------------
        model = {}
        for s in case["stores"]:
            _write_store(repository, acc, s["key"], s["table"], path)
            model[_model_key(acc, s["key"], request=False)] = s
        wl_model = {}
        for w in case["wavelengths"]:
            repository.update_wavelengths({_species(w["ion"]): {int(w["charge"]): {tuple(w["transition"]): w["value"]}}},
                                          repository_path=path)
            wl_model[(_sym(w["ion"]), int(w["charge"]), _tkey(w["transition"]))] = float(w["value"])

        if acc == "wavelength":
            _judge_wavelength_accessor(case, ctx, OpenADAS, path, wl_model)
            return

        entry = model.get(_model_key(acc, req, request=True))
        for pe in (False, True):
            for null in (False, True):
                for fb in (False, True):
                    adas = OpenADAS(data_path=path, permit_extrapolation=pe, missing_rates_return_null=null,
                                    wavelength_element_fallback=fb)
                    _judge(case, ctx, adas, acc, req, entry, wl_model, pe, null, fb)
    finally:
        shutil.rmtree(path, ignore_errors=True)


def _expected_wavelength(acc, req, wl_model, fb):
    """(lambda or None, lambda of the element or None, requested-is-isotope-with-own-file)"""
    sf, cf, off = WL_OF[acc]
    sp = req[sf]
    q = (int(req[cf]) + off) if cf else 0
    tk = _tkey(req["transition"])
    own = wl_model.get((_sym(sp), q, tk))
    elem = wl_model.get((_sym(_el_of(sp)), q, tk))
    is_iso = sp in ISO2EL and _sym(sp) != _sym(_el_of(sp))
    if own is not None:
        return own, elem, is_iso
    if is_iso and fb and elem is not None:
        return elem, elem, is_iso
    return None, elem, is_iso


def _judge_wavelength_accessor(case, ctx, OpenADAS, path, wl_model):
    req = case["request"]
    sp = req["ion"]
    q = int(req["charge"])
    tk = _tkey(req["transition"])
    is_iso = sp in ISO2EL and _sym(sp) != _sym(_el_of(sp))
    for pe in (False, True):
        for null in (False, True):
            for fb in (False, True):
                adas = OpenADAS(data_path=path, permit_extrapolation=pe, missing_rates_return_null=null,
                                wavelength_element_fallback=fb)
                own = wl_model.get((_sym(sp), q, tk))
                elem = wl_model.get((_sym(_el_of(sp)), q, tk))
                want = own if own is not None else (elem if (is_iso and fb) else None)
                o = _call(adas.wavelength, _species(sp), q, tuple(req["transition"]))
                ctx.nontrivial()
                if want is not None:
                    _seen_accessor(ctx, "wavelength")
                    if o.exc is not None:
                        ctx.mon("wavelength")
                        ctx.viol("present-data-raises:wavelength:%s" % type(o.exc).__name__,
                                 "wavelength() raised %s although the wavelength is stored: %s" % (type(o.exc).__name__, o.exc),
                                 flags=dict(pe=pe, null=null, fb=fb))
                        continue
                    key = "wavelength:wavelength:wrong-value"
                    if is_iso and elem is not None and own is not None and o.value == elem:
                        key = "wavelength:wavelength:element-wavelength-used-for-isotope"
                    ctx.close(o.value, want, key, "wavelength() does not return the stored wavelength of the requested species",
                              rtol=1e-15, monitor="wavelength", flags=dict(pe=pe, null=null, fb=fb), element_value=elem)
                    if is_iso:
                        ctx.mon("isotope")
                else:
                    if null:
                        ctx.skip("wavelength(): missing_rates_return_null has no null value for a wavelength; RuntimeError accepted")
                    if o.exc is None:
                        k = "missing:wavelength:no-raise"
                        if is_iso and not fb and elem is not None and o.value == elem:
                            k = "wavelength:wavelength:element-wavelength-used-without-fallback"
                        ctx.check(False, k, "wavelength() returned %r although the wavelength is not stored" % (o.value,),
                                  monitor="missing_raise", flags=dict(pe=pe, null=null, fb=fb))
                    else:
                        ctx.check(isinstance(o.exc, RuntimeError), "missing:wavelength:raises-%s" % type(o.exc).__name__,
                                  "missing wavelength raised %s instead of RuntimeError: %s" % (type(o.exc).__name__, o.exc),
                                  monitor="missing_raise", flags=dict(pe=pe, null=null, fb=fb))


def _seen_accessor(ctx, acc):
    ctx.mon("acc:" + acc)


def _rates_of(acc, result):
    """normalise the accessor result to a list of (label, callable)"""
    if acc == "beam_cx_pec":
        return list(result)
    return [result]


def _judge(case, ctx, adas, acc, req, entry, wl_model, pe, null, fb):
    flags = dict(permit_extrapolation=pe, missing_rates_return_null=null, wavelength_element_fallback=fb)
    axes = AXES[acc]
    o = _call(getattr(adas, acc), *_call_args(acc, req))
    lam = lam_el = None
    is_iso = False
    if acc in WL_OF:
        lam, lam_el, is_iso = _expected_wavelength(acc, req, wl_model, fb)

    # ------------------------------------------------------------------ rate data missing
    if entry is None:
        ctx.nontrivial()
        how = case.get("missing_how", "?")
        if not null:
            if o.exc is None:
                ctx.check(False, "missing:%s:no-raise" % acc,
                          "%s returned %r although no data are stored for the request (%s)" % (acc, type(o.value).__name__, how),
                          monitor="missing_raise", flags=flags, how=how)
            else:
                ctx.check(isinstance(o.exc, RuntimeError), "missing:%s:raises-%s" % (acc, type(o.exc).__name__),
                          "%s raised %s instead of RuntimeError for missing data (%s): %s" % (acc, type(o.exc).__name__, how, o.exc),
                          monitor="missing_raise", flags=flags, how=how)
            return
        if o.exc is not None:
            ctx.check(False, "missing-null:%s:raises-%s" % (acc, type(o.exc).__name__),
                      "%s raised %s although null rates were requested (%s): %s" % (acc, type(o.exc).__name__, how, str(o.exc)[:200]),
                      monitor="missing_null", flags=flags, how=how, site=_exc_site(o.exc))
            return
        _judge_null(case, ctx, acc, o.value, flags, "missing-null")
        return

    table = entry["table"]
    single = [a for a in axes if len((table if acc != "beam_cx_pec" else next(iter(table.values())))[a]) == 1]

    # ------------------------------------------------------------------ rate present, wavelength missing
    if acc in WL_OF and lam is None:
        ctx.nontrivial()
        if o.exc is not None:
            if single and isinstance(o.exc, ValueError):
                # construction never reached the wavelength or failed on the single-point axis: judged elsewhere
                ctx.skip("wavelength-missing case hit the single-point-axis rejection first")
                return
            ctx.check(isinstance(o.exc, RuntimeError), "missing-wavelength:%s:raises-%s" % (acc, type(o.exc).__name__),
                      "%s raised %s instead of RuntimeError when the wavelength of the requested species is not stored: %s" % (
                          acc, type(o.exc).__name__, o.exc), monitor="missing_raise", flags=flags, wl_mode=case.get("wl_mode"))
            if null:
                ctx.skip("rate present, wavelength missing, nulls requested: RuntimeError accepted (statement ambiguous)")
            return
        # something was returned
        rates = _rates_of(acc, o.value)
        zero = _all_zero(case, acc, rates)
        if null and zero:
            ctx.mon("missing_null")
            ctx.skip("rate present, wavelength missing, nulls requested: null rate accepted (statement ambiguous)")
            return
        k = "missing-wavelength:%s:returns-rate" % acc
        if is_iso and lam_el is not None and not fb:
            k = "wavelength:%s:element-wavelength-used-without-fallback" % acc
        ctx.check(False, k, "%s returned a non-zero rate although the wavelength of the requested species is not stored "
                            "(fallback=%s, element wavelength stored=%s)" % (acc, fb, lam_el is not None),
                  monitor="wavelength", flags=flags, wl_mode=case.get("wl_mode"))
        return

    # ------------------------------------------------------------------ everything present
    _seen_accessor(ctx, acc)
    if o.exc is not None:
        if single and isinstance(o.exc, ValueError):
            bad = [a for a in single]
            if acc in FAM_BEAM:
                key = "single-point-axis:%s:%s" % (acc, "t" if "t" in bad else "+".join(bad))
            else:
                key = "single-point-axis:%s" % acc
            ctx.check(False, key, "%s raised %s for a stored table with single-point axis %s: %s" % (
                acc, type(o.exc).__name__, "+".join(bad), str(o.exc)[:200]), monitor="single_point", flags=flags,
                      site=_exc_site(o.exc))
            ctx.nontrivial()
            return
        k = "present-data-raises:%s:%s" % (acc, type(o.exc).__name__)
        if acc in WL_OF and is_iso and isinstance(o.exc, RuntimeError) and lam_el is None:
            k = "wavelength:%s:isotope-wavelength-stored-but-element-wavelength-required" % acc
        ctx.check(False, k, "%s raised %s although table and wavelength of the requested species are stored: %s" % (
            acc, type(o.exc).__name__, str(o.exc)[:200]), monitor="knot", flags=flags, site=_exc_site(o.exc),
                  wl_mode=case.get("wl_mode"))
        ctx.nontrivial()
        return
    if single:
        ctx.mon("single_point")

    conv = (HC_NM / lam) if acc in WL_OF else 1.0
    conv_el = (HC_NM / lam_el) if (acc in WL_OF and lam_el is not None) else None
    rates = _rates_of(acc, o.value)
    if acc == "beam_cx_pec":
        tabs = {int(m): t for m, t in table.items()}
        got_m = sorted(int(getattr(r, "donor_metastable", -1)) for r in rates)
        if not ctx.check(got_m == sorted(tabs), "beam_cx_pec:metastable-set",
                         "beam_cx_pec returned rates for donor metastables %s, stored are %s" % (got_m, sorted(tabs)),
                         monitor="knot", flags=flags):
            return
        pairs = [(r, tabs[int(r.donor_metastable)]) for r in rates]
    else:
        pairs = [(rates[0], table)]
    decoys = [s for s in case["stores"] if s["role"].startswith("decoy")]
    n_iso = sum(1 for f in KEYFIELDS[acc] if f in SPECIES_FIELDS and req[f] in ISO2EL and _sym(req[f]) != _sym(_el_of(req[f])))

    for rate, t in pairs:
        # ---------------- knots
        pts, want_raw = _knot_points(acc, t, case)
        want = want_raw * conv
        got = np.empty(len(pts))
        raised = None
        for i, p in enumerate(pts):
            oo = _call(rate, *[float(v) for v in p])
            if oo.exc is not None:
                raised = (i, oo.exc)
                got[i] = np.nan
            else:
                got[i] = oo.value
        ctx.nontrivial()
        if raised is not None:
            i, e = raised
            k = "knot-raises:%s" % acc
            edge = _edge_log10_mismatch(acc, t, pts[i])
            if edge and not pe:
                k = "knot-raises:%s:edge-log10-rounding" % acc
            ctx.check(False, k, "%s raised %s when evaluated exactly at a stored grid point%s: %s" % (
                acc, type(e).__name__, (" (first/last knot of %s; numpy log10 of the knot and libc log10 of the argument differ "
                                        "by one ulp)" % edge) if edge else "", str(e)[:200]),
                      monitor="knot", flags=flags, point=pts[i].tolist())
            continue
        key = "knot-value:%s" % acc
        what = "%s does not reproduce the stored table value x documented conversion at a grid point" % acc
        katol = (_cx_knot_extra_rtol(t, pts) * np.abs(want)) if acc == "beam_cx_pec" else 0.0
        ok_main = np.all(np.abs(got - want) <= KNOT_RTOL * np.abs(want) + katol)
        if not ok_main:
            # diagnose the mechanism for a finer key (never changes the verdict)
            def close_to(w):
                return w is not None and np.all(np.abs(got - w) <= 1e-7 * np.abs(w))
            if conv_el is not None and lam_el != lam and close_to(want_raw * conv_el):
                key = "wavelength:%s:element-wavelength-used-for-isotope" % acc
                what = "%s converts photons to watts with the ELEMENT's wavelength although the requested isotope's wavelength is stored" % acc
            elif acc in WL_OF and close_to(want_raw):
                key = "conversion:%s:photon-to-watt-missing" % acc
            else:
                for s in decoys:
                    try:
                        tt = s["table"] if acc != "beam_cx_pec" else s["table"].get(str(int(rate.donor_metastable)))
                        if tt is None:
                            continue
                        p2, w2 = _knot_points(acc, tt, case)
                        if p2.shape == pts.shape and np.allclose(p2, pts, rtol=1e-12) and close_to(w2 * conv):
                            key = "wrong-table:%s:%s" % (acc, s["role"])
                            what = "%s serves the request from the table stored under a different key (%s)" % (acc, s["role"])
                            break
                    except Exception:  # noqa
                        pass
        if ok_main or key.startswith("knot-value:"):
            ctx.close(got, want, key, what, rtol=KNOT_RTOL, atol=katol, monitor="knot", flags=flags, wl_mode=case.get("wl_mode"))
        else:   # diagnosed mechanism: report under its own key, keep the calibration margin of the plain comparison clean
            ib = int(np.argmax(np.abs(got - want) / np.abs(want)))
            ctx.mon("knot", len(got))
            ctx.viol(key, what, index=ib, got=float(got[ib]), want=float(want[ib]), rel=float(abs(got[ib] / want[ib] - 1)),
                     point=pts[ib].tolist(), flags=flags, wl_mode=case.get("wl_mode"))
        if n_iso:
            ctx.mon("isotope", 1)
        if acc in WL_OF:
            ctx.mon("wavelength", 1)
        bad = ~(np.isfinite(got) & (got >= 0))
        ctx.mon("nonneg", len(got))
        if bad.any():
            ctx.viol("negative-or-non-finite:%s:knot" % acc, "%s returned a negative or non-finite value at a grid point" % acc,
                     value=float(got[int(np.argmax(bad))]), flags=flags)

        # ---------------- interior points
        for fr in case["interior"]:
            p = _frac_point(acc, t, fr)
            oo = _call(rate, *p)
            ctx.mon("nonneg")
            if oo.exc is not None:
                ctx.viol("interior-raises:%s" % acc, "%s raised %s strictly inside the tabulated range: %s" % (
                    acc, type(oo.exc).__name__, str(oo.exc)[:200]), point=p, flags=flags)
            elif not (math.isfinite(oo.value) and oo.value >= 0):
                ctx.viol("negative-or-non-finite:%s:interior" % acc, "%s returned %r strictly inside the tabulated range" % (acc, oo.value),
                         point=p, flags=flags)

        # ---------------- non-positive density / temperature / energy
        for npz in case["nonpositive"]:
            ax = axes[npz["axis"]]
            if ax not in GUARDED:
                ctx.skip("non-positive %s: not a density/temperature/energy argument" % ARGNAMES[ax])
                continue
            p = _frac_point(acc, t, npz["at"])
            p[npz["axis"]] = float(npz["value"])
            oo = _call(rate, *p)
            k = "nonpositive:%s:%s" % (acc, ARGNAMES[ax])
            if oo.exc is not None:
                ctx.check(False, k, "%s raised %s for %s = %r (must return 0): %s" % (
                    acc, type(oo.exc).__name__, ARGNAMES[ax], npz["value"], str(oo.exc)[:160]), monitor="nonpositive", flags=flags, point=p)
            else:
                ctx.check(oo.value == 0.0, k, "%s returned %r for %s = %r (must return 0)" % (acc, oo.value, ARGNAMES[ax], npz["value"]),
                          monitor="nonpositive", flags=flags, point=p)

        # ---------------- outside the tabulated range
        for od in case["outside"]:
            ax = axes[od["axis"]]
            if ax in single:
                ctx.skip("range policy on a single-point axis (degenerate range; not judged)")
                continue
            if acc == "beam_cx_pec":
                # other arguments on knots: between knots the linear-space cubic factors may be <= 0 and evaluate()
                # short-circuits to 0 before it looks at the remaining arguments (observed, not judged)
                p = [float(t[a][min(int(u * len(t[a])), len(t[a]) - 1)]) for a, u in zip(axes, od["at"])]
            else:
                p = _frac_point(acc, t, od["at"])
            x = t[ax]
            p[od["axis"]] = float(max(x) * od["factor"] if od["side"] > 0 else min(x) / od["factor"])
            oo = _call(rate, *p)
            if not pe:
                ctx.check(oo.exc is not None, "range:%s:no-raise:%s" % (acc, ARGNAMES[ax]),
                          "%s returned %r for %s outside the tabulated range with permit_extrapolation=False" % (
                              acc, oo.value, ARGNAMES[ax]), monitor="range_raise", flags=flags, point=p, axis_range=[min(x), max(x)])
            else:
                if oo.exc is not None:
                    ctx.check(False, "range:%s:extrapolation-raises:%s" % (acc, ARGNAMES[ax]),
                              "%s raised %s for %s within one decade outside the range with permit_extrapolation=True: %s" % (
                                  acc, type(oo.exc).__name__, ARGNAMES[ax], str(oo.exc)[:160]), monitor="range_finite", flags=flags, point=p)
                elif case.get("hostile") and oo.value == math.inf:
                    # quadratic / linear continuation of a 3-12 decade step overflows legitimately (ASSUMPTIONS)
                    ctx.skip("hostile table: permitted extrapolation overflowed to +inf (finiteness judged on mild tables only)")
                else:
                    ctx.check(math.isfinite(oo.value) and oo.value >= 0, "range:%s:extrapolation-non-finite:%s" % (acc, ARGNAMES[ax]),
                              "%s returned %r for %s within one decade outside the range with permit_extrapolation=True" % (
                                  acc, oo.value, ARGNAMES[ax]), monitor="range_finite", flags=flags, point=p, axis_range=[min(x), max(x)])


    # ---------------- hostile shapes: dense sampling of every knot interval of the hostile axis
    h = case.get("history")
    selected = bool(h) and bool(h["null"]) == bool(null) and bool(h["fb"]) == bool(fb)
    if case.get("hostile") and selected:
        for rate, t in pairs:
            _judge_dense(case, ctx, acc, rate, t, flags)

    # ---------------- degenerate tables: the rest of the range-policy matrix (edge knots, outside several axes at once)
    if case.get("range_matrix") and selected:
        for rate, t in pairs:
            _judge_range_matrix(case, ctx, acc, rate, t, pe, flags)

    # ---------------- call history: outcomes must not depend on what was evaluated before
    if selected:
        _judge_history(case, ctx, adas, acc, req, table, flags)


def _judge_range_matrix(case, ctx, acc, rate, t, pe, flags):
    axes = AXES[acc]
    for rp in case["range_matrix"]:
        knots = acc == "beam_cx_pec" or rp.get("others") == "knots"
        if knots:     # (beam_cx_pec: see the short-circuit note at the single-axis excursions)
            p = [float(t[a][min(int(u * len(t[a])), len(t[a]) - 1)]) for a, u in zip(axes, rp["at"])]
        else:
            p = _frac_point(acc, t, rp["at"])
        names = []
        for si, side in rp["sides"].items():
            i = int(si)
            x = t[axes[i]]
            names.append(ARGNAMES[axes[i]])
            if rp["kind"] == "edge":
                p[i] = float(max(x) if side > 0 else min(x))
            else:
                f = float(rp["factors"][si])
                p[i] = float(max(x) * f if side > 0 else min(x) / f)
        what = "+".join(names)
        oo = _call(rate, *p)
        ctx.mon("range_matrix")
        detail = dict(point=p, flags=flags, degenerate=case.get("degenerate"), sides=rp["sides"],
                      ranges={a: [min(t[a]), max(t[a])] for a in axes})
        if rp["kind"] == "edge":
            if oo.exc is not None:
                ctx.viol("range:%s:raises-on-edge-knot:%s" % (acc, what), "%s raised %s with %s exactly on the %s knot of its axis (inside "
                         "the tabulated range): %s" % (acc, type(oo.exc).__name__, what, "last" if list(rp["sides"].values())[0] > 0 else "first",
                                                       str(oo.exc)[:160]), **detail)
            elif not (math.isfinite(oo.value) and oo.value >= 0):
                ctx.viol("negative-or-non-finite:%s:edge-knot" % acc, "%s returned %r on an edge knot of %s" % (acc, oo.value, what), **detail)
        elif not pe:
            if oo.exc is None:
                ctx.viol("range:%s:no-raise:%s" % (acc, what), "%s returned %r with %s outside the tabulated range and "
                         "permit_extrapolation=False" % (acc, oo.value, what), **detail)
        else:
            if oo.exc is not None:
                ctx.viol("range:%s:extrapolation-raises:%s" % (acc, what), "%s raised %s with %s within one decade outside the range and "
                         "permit_extrapolation=True: %s" % (acc, type(oo.exc).__name__, what, str(oo.exc)[:160]), **detail)
            elif not (math.isfinite(oo.value) and oo.value >= 0):
                ctx.viol("range:%s:extrapolation-non-finite:%s" % (acc, what), "%s returned %r with %s within one decade outside the "
                         "range and permit_extrapolation=True" % (acc, oo.value, what), **detail)


def _judge_dense(case, ctx, acc, rate, t, flags):
    """non-negativity between the knots of a table with a hostile shape (cubic under/overshoot): `dense` points per knot
    interval of the hostile axis, once with the other arguments on knots and once between knots.  +inf is not a
    violation inside the range (the statement demands finiteness only for permitted extrapolation); NaN, a negative
    value or an exception is."""
    hz = case["hostile"]
    axes = AXES[acc]
    ax = hz["axis"]
    i = axes.index(ax)
    x = [float(v) for v in t[ax]]
    dense = int(hz["dense"])
    for oth in hz["others"]:
        if oth["mode"] == "knots":
            base = [float(t[a][min(int(u * len(t[a])), len(t[a]) - 1)]) for a, u in zip(axes, oth["at"])]
        else:
            base = _frac_point(acc, t, oth["at"])
        for k in range(len(x) - 1):
            for j in range(dense):
                f = (j + 0.5) / dense
                if ax in LINEAR_AXES:
                    v = x[k] + f * (x[k + 1] - x[k])
                else:
                    v = 10 ** (math.log10(x[k]) + f * (math.log10(x[k + 1]) - math.log10(x[k])))
                if not (x[k] < v < x[k + 1]):
                    continue
                p = list(base)
                p[i] = float(v)
                oo = _call(rate, *p)
                ctx.mon("hostile_interior")
                detail = dict(point=p, interval=[x[k], x[k + 1]], others=oth["mode"], pattern=hz["pattern"], depth=hz.get("depth"), flags=flags)
                if oo.exc is not None:
                    ctx.viol("nonneg:%s:raises-between-knots:%s" % (acc, ax), "%s raised %s strictly inside the tabulated range (%s table): %s" % (
                        acc, type(oo.exc).__name__, hz["pattern"], str(oo.exc)[:160]), **detail)
                    return
                if oo.value != oo.value:
                    ctx.viol("nonneg:%s:nan-between-knots:%s" % (acc, ax), "%s returned NaN between two knots of axis %s of an all-positive %s table" % (
                        acc, ax, hz["pattern"]), **detail)
                    return
                if oo.value < 0:
                    ctx.viol("nonneg:%s:negative-between-knots:%s" % (acc, ax),
                             "%s returned the negative value %r between two knots of axis %s of an all-positive %s table" % (
                                 acc, oo.value, ax, hz["pattern"]), **detail)
                    return
                if oo.value == math.inf:
                    ctx.skip("hostile table: +inf between knots (finiteness is not demanded inside the range)")
    ctx.nontrivial()


def _hist_args(acc, t, r):
    axes = AXES[acc]
    if r["kind"] == "knot" or (acc == "beam_cx_pec" and r["kind"] == "outside"):
        p = [float(t[a][min(int(u * len(t[a])), len(t[a]) - 1)]) for a, u in zip(axes, r["at"])]
    else:
        p = _frac_point(acc, t, r["at"])
    if r["kind"] == "nonpositive":
        p[r["axis"]] = float(r["value"])
    elif r["kind"] == "outside":
        x = t[axes[r["axis"]]]
        p[r["axis"]] = float(max(x) * r["factor"] if r["side"] > 0 else min(x) / r["factor"])
    return p


def _outcome_sig(o):
    if o.exc is not None:
        return ("raises", type(o.exc).__name__)
    return ("value", np.float64(o.value).tobytes())


def _judge_history(case, ctx, adas, acc, req, table, flags):
    """One rate object H per stored table answers the whole request sequence; every request is also put, as the ONLY
    request, to a freshly constructed rate object obtained from the same provider.  Outcomes must be identical
    (bit-identical value or the same exception type)."""
    h = case["history"]
    cargs = _call_args(acc, req)
    getter = getattr(adas, acc)

    def tables_of(result):
        if acc == "beam_cx_pec":
            tabs = {int(m): t for m, t in table.items()}
            return [(r, tabs[int(r.donor_metastable)], int(r.donor_metastable)) for r in result]
        return [(result, table, None)]

    H = tables_of(getter(*cargs))
    # reference outcomes: one fresh provider call per distinct request, each fresh rate object evaluated exactly once
    ref = {}
    for qi in sorted(set(h["sequence"])):
        r = h["requests"][qi]
        for fr, t, m in tables_of(getter(*cargs)):
            ref[(qi, m)] = _outcome_sig(_call(fr, *_hist_args(acc, t, r)))
    for rate, t, m in H:
        seen = set()
        for pos, qi in enumerate(h["sequence"]):
            r = h["requests"][qi]
            args = _hist_args(acc, t, r)
            got = _outcome_sig(_call(rate, *args))
            want = ref[(qi, m)]
            ctx.mon("history")
            if got != want:
                repeat = qi in seen
                if want[0] == "raises" and got[0] == "value":
                    k = ("out-of-range-not-raised-on-repeat" if repeat else "out-of-range-not-raised-after-other-calls") \
                        if r["kind"] == "outside" else "exception-lost-after-previous-calls"
                elif want[0] == "value" and got[0] == "raises":
                    k = "raises-depending-on-previous-calls"
                elif want[0] == "raises":
                    k = "exception-type-depends-on-previous-calls"
                else:
                    k = "value-depends-on-previous-calls"
                show = lambda sg: sg[1] if sg[0] == "raises" else float(np.frombuffer(sg[1], dtype=np.float64)[0])
                prev = [h["requests"][j]["kind"] + (":%s%+d" % (AXES[acc][h["requests"][j]["axis"]], h["requests"][j]["side"])
                                                    if h["requests"][j]["kind"] == "outside" else "") for j in h["sequence"][max(0, pos - 4):pos]]
                ctx.viol("history:%s:%s" % (acc, k),
                         "%s: request #%d of a call sequence on one rate object (%s%s) gave %s %r, a fresh rate object gives %s %r for "
                         "the same arguments" % (acc, pos, r["kind"], (" %s" % ARGNAMES[AXES[acc][r["axis"]]]) if "axis" in r else "",
                                                 got[0], show(got), want[0], show(want)),
                         args=args, position=pos, repeated_request=repeat, previous_requests=prev, flags=flags, donor_metastable=m)
                seen.add(qi)
                continue
            seen.add(qi)
    ctx.nontrivial()


def _all_zero(case, acc, rates):
    try:
        for r in rates:
            for a in case["null_args"]:
                if r(*a) != 0.0:
                    return False
    except Exception:  # noqa
        return False
    return True


def _judge_null(case, ctx, acc, result, flags, prefix):
    if acc == "beam_cx_pec" and not isinstance(result, (list, tuple)):
        ctx.check(False, "%s:%s:not-a-list" % (prefix, acc), "beam_cx_pec returned %r instead of a list of rates" % type(result).__name__,
                  monitor="missing_null", flags=flags)
        return
    rates = _rates_of(acc, result)
    args = [list(a) for a in case["null_args"]]
    for npz in case["nonpositive"][:3]:
        a = list(args[0])
        a[npz["axis"]] = float(npz["value"])
        args.append(a)
    for r in rates:
        for a in args:
            oo = _call(r, *a)
            if oo.exc is not None:
                ctx.check(False, "%s:%s:null-rate-raises-%s" % (prefix, acc, type(oo.exc).__name__),
                          "the rate returned by %s for missing data raised %s: %s" % (acc, type(oo.exc).__name__, str(oo.exc)[:160]),
                          monitor="missing_null", flags=flags, args=a)
                return
            if not ctx.check(oo.value == 0.0, "%s:%s:non-zero" % (prefix, acc),
                             "the rate returned by %s for missing data evaluates to %r, not 0" % (acc, oo.value),
                             monitor="missing_null", flags=flags, args=a):
                return
    if not rates:
        ctx.mon("missing_null")
