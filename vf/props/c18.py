"""C18 — laser profiles integrate to the pulse energy and track their parameters.

Four monitor groups, all on the real classes through their public API only:

  quad     : get_energy_density sampled on tensor-trapezoid grids whose extent is *measured* from the function
             (on-axis value and one off-axis ratio per axis), h = sigma/4, +-9 sigma (2-D) / +-8 sigma (3-D).  Each
             quadrature is certified by refinement (same samples at 2h and on a narrower window must agree to
             1e-10) before it is judged: cross-section integral == E_p/(c tau) at every sampled z (bivariate,
             Gaussian beam), volume integral == E_p (trivariate), disk integral == energy_density * pi r^2 and
             every sample == energy_density (uniform).  The measured widths are also compared with the documented
             parameters (stddev_x, stddev_y, c*pulse_length for the trivariate pulse, stddev_waist at the waist): an
             energy density that ignores a width parameter does not track it.
  tiling   : generate_segmented_cylinder / <profile>.generate_geometry() / Laser.get_geometry(): segments are
             z-translated cylinders of the laser radius, the first starts at 0, consecutive ones abut, the last
             ends at the laser length, heights sum to the length (1e-12 * length).
  spectrum : power_spectral_density * delta_wavelength per bin against the exact integral of the documented
             unit-power density over the nominal bin (normal-CDF differences / exact overlap with [min, max]);
             sum of bins against the exact in-range fraction and against 1 when the range spans the line; the
             callable density itself against the documented density.
  history  : random setter sequences on all six classes; after EVERY setter the live object (for profiles also a
             Laser node it is attached to) is compared with an object freshly constructed from the modelled
             parameters: energy density, polarisation, pointing, generated and attached geometry, wavelengths,
             binned spectrum, density values; every reported accessor is compared with the value that was set.
             A mismatch that appears right after a setter is blamed on that setter (key = class.setter + observable).
             Three objects are compared after construction and after every setter: the live one, one constructed
             directly from the final parameters (all keywords, or default-valued keywords omitted / no arguments) and one
             constructed from different values and brought there through every setter; direct vs setter path has its
             own key.  Histories contain no-op assignments (the value the attribute already has) and A -> B -> A.
             "Same argument again right after a state change" is a first-class probe: density / polarisation / pointing
             (spectra: density, bins, wavelengths) are asked at a few arguments right before every setter and the FIRST calls
             after it repeat exactly those arguments (most recent first), judged against direct construction (monitor same_arg).
  shape    : at every judged cross-section the transverse profile is f(axis) exp(-x^2/2sx^2 - y^2/2sy^2) with the widths measured
             at about one sigma, out to 6 sigma along axes and diagonals (no Rayleigh-range convention needed); Gaussian-beam cases
             place the section 0..50 Rayleigh ranges on either side of waists of 2e-5..1e-2 m.  A cross-section the tensor grid
             cannot certify (truncated / non-smooth profile) is integrated by a polar quadrature with its own error estimate and
             judged when the deviation is far outside it (keys get ':far-from-waist' when the local width exceeds 1.5 waists).
  placement: after attaching and after EVERY setter of an attached profile, after `laser.laser_profile = laser.laser_profile`
             and after replacing the profile (equal / different segment count; 'laser' cases favour length changes that keep the
             count) the Laser's segments, read from each segment's transform, must tile [0, laser_length] of the current profile
             and equal those of a freshly built Laser (keys tiling:segment-placement-after:<op>).
  rejected : ~12 % of the history operations assign a value outside the parameter's domain (zero, negative, NaN, inf, wrong
             type, min >= max, fractional bins, zero polarisation vector) through EVERY setter.  If the setter raises AND no
             object can be constructed with that value either, the assignment is a refusal: all observables and reported
             parameters must equal the pre-assignment state (keys rejected:<Class>.<setter>:state-changed:<obs> /
             :reported-parameter-changed:<accessor>) and every later legal setter must work as on a fresh object
             (rejected:<Class>.<setter>:later-legal-setter-raises, blamed on the refusal that corrupted the state).  A value
             the setter accepts, or that the constructor accepts too (NaN / inf: nothing refuses those), ends the history
             unjudged and counted - the statement does not say which values must be refused.  A legal assignment that raises
             without a corrupting refusal before it has key history:<Class>.<setter>:legal-assignment-raises:<Exception>.
  formula  : on every profile object judged by quad / history (all three construction paths) get_energy_density at fixed
             multiples of the documented sigmas against the normalised Gaussian that the documented standard deviations
             and the stated integral define (sigma_z = c*tau for any tau, 1 ns or 1 s; Gaussian beam in the waist plane only).
  Parameter values equal to constructor defaults and to the presets written before the setters run (1, 0.1, 0.05, 0.01,
  1e-3, 0, 1e3) are drawn with ~20-60 % probability per parameter; 6 % of the profile objects are the no-argument object.
"""
import math

import numpy as np

ID = "C18"
LEVEL = "exploration"
RULE = ("cases are drawn per kind: 'quad' (profile class, E_p 1e-3..1e2 J, tau 1e-11..1e-7 s, widths 1e-4..1e-1 m with "
        "x != y, waist / pulse position inside, at the ends of and outside the laser length, wavelength 300..1100 nm, "
        "1-3 axial positions), 'tiling' (radius x length incl. length < 2 radius, length = k*2*radius +- 1 ulp, decimal "
        "radii, ratios up to 2000, via the function / a profile / an attached Laser), 'spectrum' (range 1e-3..1e2 nm "
        "wide at 300..1100 nm, 1..500 bins, Gaussian mean centred / inside / on an edge / outside / spanned), "
        "every profile parameter takes a constructor-default / preset value with probability 0.15..0.6, objects are built with all "
        "keywords, with default-valued keywords omitted (incl. no arguments) or through their setters from other values; "
        "'history' (one of the six classes, 1..12 (thorough: ..30) random valid setter calls, profiles attached to a Laser node); a case is "
        "non-trivial when at least one deciding comparison (certified quadrature, tiling chain, bin integral, or a "
        "live-vs-fresh comparison after >= 1 setter) was evaluated; distinct = distinct fully expanded case dicts")
LEVEL_TEXT = ("Exploration by runtime monitoring with reference-model and differential oracles: every generated parameter set "
              "is pushed through the real profile / spectrum classes and judged against closed-form integrals computed "
              "without cherab code, and every setter history against a freshly constructed object; right level because the "
              "quantifier ranges over continuous parameters and unbounded setter sequences of deterministic code")
LEVEL_NOTE = ("trusted: numpy/scipy (ndtr) for the reference integrals, the refinement certificate of the trapezoid "
              "quadrature, c = 299792458 m/s; histories are bounded to 12 (thorough: 30) setters with valid (positive) values only")
TECHNIQUE = ("runtime monitoring: conservation monitor (certified quadrature of the observed energy density), structural "
             "monitor on generated segments, reference-model oracle for binned spectra, history + fresh-object differential")
ASSUMPTIONS = [
    "UniformEnergyDensity has no pulse energy: its clause is read as 'every sample equals energy_density and the integral "
    "over the beam disk (laser_radius) equals energy_density*pi*r^2 at every axial position'",
    "axial positions are judged inside [0, laser_length] only (outside the cylinder the documentation leaves values open)",
    "a 'bin' is [min + i*delta, min + (i+1)*delta] with delta = (max-min)/bins; edges may carry the rounding of "
    "double-precision wavelengths ((i+10) ulp), which is included in the computed tolerance",
    "the unit-power densities are the documented ones: 1/(max-min) on [min,max] (ConstantSpectrum), N(mean, stddev) "
    "(GaussianSpectrum); 'range spans the line' = [min,max] contains mean +- 9 stddev (Gaussian), always (constant)",
    "a refused assignment (setter raises and the constructor refuses the value too) is part of a history: afterwards the object "
    "must still be the pre-assignment object; which out-of-domain values have to be refused is not judged",
    "width parameters mean what the class documentation says: stddev_x / stddev_y / stddev_waist (at the waist) are the "
    "standard deviations of the transverse Gaussian, c * pulse_length that of the trivariate pulse along z; the Gaussian-beam "
    "divergence (Rayleigh range) is NOT judged because documentation and code use different conventions",
]
ASAN_MODULES = ["cherab.core.model.laser.math_functions", "cherab.core.model.laser.profile", "cherab.core.model.laser.laserspectrum", "cherab.core.laser.laserspectrum", "cherab.core.laser.profile"]
ASAN = dict(cases=2000, workers=8, timecap=240)
QUICK = dict(cases=800, workers=2, timecap=45)
THOROUGH = dict(cases=40000, workers=16, timecap=600)
REQUIRED = {"quad_xsec": 60, "quad_volume": 4, "quad_uniform": 8, "tiling_lists": 30, "bins": 2000, "sum": 40,
            "sum_unity": 20, "density": 300, "hist_steps": 300, "hist_energy_density": 1000, "hist_geometry": 100,
            "hist_psd": 1000, "reported": 1500, "width": 60, "formula": 2000, "construct_paths": 300, "shape": 3000, "placement": 400, "same_arg": 3000, "rejected": 60}

C_LIGHT = 299792458.0      # m/s, exact by SI definition (own constant, not imported from cherab)
PROFILES = ("UniformEnergyDensity", "ConstantBivariateGaussian", "TrivariateGaussian", "GaussianBeamAxisymmetric")
SPECTRA = ("ConstantSpectrum", "GaussianSpectrum")
PROFILE_PARAMS = {
    "UniformEnergyDensity": ("energy_density", "laser_length", "laser_radius"),
    "ConstantBivariateGaussian": ("pulse_energy", "pulse_length", "laser_radius", "laser_length", "stddev_x", "stddev_y"),
    "TrivariateGaussian": ("pulse_energy", "pulse_length", "mean_z", "laser_length", "laser_radius", "stddev_x", "stddev_y"),
    "GaussianBeamAxisymmetric": ("pulse_energy", "pulse_length", "laser_length", "laser_radius", "waist_z", "stddev_waist",
                                 "laser_wavelength"),
}
# constructor defaults as written in the __init__ signatures (verified at run time against a no-argument object before
# any keyword is omitted; if the table is out of date the omission is skipped and counted, never judged)
DEFAULTS = {
    "UniformEnergyDensity": dict(energy_density=1.0, laser_length=1.0, laser_radius=0.05, polarization=[0.0, 1.0, 0.0]),
    "ConstantBivariateGaussian": dict(pulse_energy=1.0, pulse_length=1.0, laser_radius=0.05, laser_length=1.0, stddev_x=0.01,
                                      stddev_y=0.01, polarization=[0.0, 1.0, 0.0]),
    "TrivariateGaussian": dict(pulse_energy=1.0, pulse_length=1.0, mean_z=0.0, laser_length=1.0, laser_radius=0.05,
                               stddev_x=0.01, stddev_y=0.01, polarization=[0.0, 1.0, 0.0]),
    "GaussianBeamAxisymmetric": dict(pulse_energy=1.0, pulse_length=1.0, laser_length=1.0, laser_radius=0.05, waist_z=0.0,
                                     stddev_waist=0.01, laser_wavelength=1e3, polarization=[0.0, 1.0, 0.0]),
}
# values that coincide with constructor defaults or with the presets written into the attributes before the setters run
# (profile.pyx: 1, 0.1, 0.05, 1e3; math_functions.pyx: 1, 1e-3, 0): a setter that short-cuts on "unchanged" or a derived
# quantity that is only refreshed by a setter shows up exactly there
SPECIAL = {
    "pulse_energy": (1.0,), "pulse_length": (1.0,), "energy_density": (1.0,), "stddev_x": (0.1, 0.01, 1.0),
    "stddev_y": (0.1, 0.01, 1.0), "stddev_waist": (0.1, 0.01, 1e-3), "laser_wavelength": (1e3,), "laser_radius": (0.05,),
    "laser_length": (1.0,), "mean_z": (0.0, 1.0), "waist_z": (0.0,), "polarization": ([0.0, 1.0, 0.0],),
}
CERT = 1e-10       # refinement certificate for the quadrature
QTOL = 1e-9        # relative tolerance of the conservation statements (DESIGN C18)
TILE = 1e-12       # tiling tolerance relative to the laser length


# ------------------------------------------------------------------------------------------------
# generators
# ------------------------------------------------------------------------------------------------

def _lu(rng, a, b):
    return float(10.0 ** rng.uniform(a, b))


def _nice(rng, x):
    """sometimes replace a value by a short decimal (floor-division of decimal floats is where surprises live)"""
    if rng.random() < 0.3:
        return float("%.1g" % x) if rng.random() < 0.5 else float("%.2g" % x)
    return float(x)


def _draw_pol(rng):
    v = rng.normal(size=3)
    while float(np.linalg.norm(v)) < 0.1:
        v = rng.normal(size=3)
    v = v * _lu(rng, -2, 2)
    return [float(c) for c in v]


def _draw_length(rng, radius):
    u = rng.random()
    d = 2.0 * radius
    if u < 0.2:
        return float(d * rng.uniform(0.01, 0.999))          # shorter than one diameter
    if u < 0.45:
        k = int(rng.integers(1, 41))
        x = d * k
        j = int(rng.integers(-1, 2))
        if j:
            x = float(np.nextafter(x, math.inf if j > 0 else -math.inf))
        return float(x)
    if u < 0.9:
        return float(d * _lu(rng, 0, 2.3))
    return _nice(rng, d * _lu(rng, 0, 2.3))


def _same_count_length(rng, radius, length):
    """another laser length with the same number of segments int(length // (2 radius)) (None if there is no room)"""
    n = int(length // (2 * radius))
    for _ in range(4):
        v = float(2 * radius * (n + rng.uniform(0.02, 0.98)))
        if v > 0 and int(v // (2 * radius)) == n and v != length:
            return v
    return None


def _draw_zpos(rng, length):
    u = rng.random()
    if u < 0.5:
        return float(rng.uniform(0, length))
    if u < 0.6:
        return 0.0
    if u < 0.7:
        return float(length)
    if u < 0.85:
        return float(-rng.uniform(0, 2) * length)
    return float(length * (1 + rng.uniform(0, 2)))


def _draw_param(rng, name, P, special=0.2):
    if special and rng.random() < special:
        pool = SPECIAL[name]
        v = pool[int(rng.integers(len(pool)))]
        if name == "laser_radius" and P.get("laser_length", 0.0) / (2 * v) > 400:
            return _draw_param(rng, name, P, 0.0)
        return list(v) if isinstance(v, list) else float(v)
    if name == "pulse_energy":
        return _lu(rng, -3, 2)
    if name == "pulse_length":
        return _lu(rng, -11, -7)
    if name == "energy_density":
        return _lu(rng, -3, 3)
    if name in ("stddev_x", "stddev_y"):
        return _lu(rng, -4, -1)
    if name == "stddev_waist":
        return _lu(rng, math.log10(2e-5), -2)
    if name == "laser_wavelength":
        return float(rng.uniform(300, 1100))
    if name == "laser_radius":
        lo = max(1e-3, P.get("laser_length", 0.0) / 800.0)     # keeps the number of segments <= 400
        return _nice(rng, 10.0 ** rng.uniform(math.log10(lo), math.log10(max(0.3, 2 * lo))))
    if name == "laser_length":
        return _draw_length(rng, P["laser_radius"])
    if name in ("mean_z", "waist_z"):
        return _draw_zpos(rng, P["laser_length"])
    if name == "polarization":
        return _draw_pol(rng)
    raise KeyError(name)


def _draw_profile(rng, cls):
    u = rng.random()
    if u < 0.06:
        return {k: (list(v) if isinstance(v, list) else v) for k, v in DEFAULTS[cls].items()}     # the no-argument object
    special = 0.6 if u < 0.25 else 0.15        # mostly-default objects with a few keywords / mostly random ones
    P = {}
    P["laser_radius"] = _draw_param(rng, "laser_radius", P, special)
    P["laser_length"] = _draw_param(rng, "laser_length", P, special)
    for n in PROFILE_PARAMS[cls]:
        if n not in P:
            P[n] = _draw_param(rng, n, P, special)
    if "stddev_y" in P and rng.random() < 0.1:
        P["stddev_y"] = P["stddev_x"]
    P["polarization"] = _draw_param(rng, "polarization", P, special)
    return P


def _draw_via(rng):
    """how the judged object comes into being: all keywords / default-valued keywords omitted / reached by setters"""
    return ["direct", "omit", "omit", "setters"][int(rng.integers(4))]


def _draw_range(rng):
    mn = float(rng.uniform(300, 1100))
    w = _lu(rng, -3, 2)
    if rng.random() < 0.3:
        mn = float(round(mn, 1))
        w = float("%.2g" % w)
    mx = float(mn + w)
    return mn, mx


def _draw_bins(rng):
    u = rng.random()
    if u < 0.12:
        return 1
    if u < 0.2:
        return 2
    if u < 0.6:
        return int(rng.integers(3, 40))
    return int(rng.integers(40, 501))


def _draw_gauss(rng, mn, mx):
    """mean / stddev by class relative to the range"""
    w = mx - mn
    u = rng.random()
    if u < 0.25:
        k = "spanned"
        sd = w / rng.uniform(18.5, 80.0)
        mean = 0.5 * (mn + mx) + rng.uniform(-1, 1) * max(0.0, 0.5 * w - 9.2 * sd)
    elif u < 0.4:
        k = "centre"
        sd = w * _lu(rng, -2.5, 0.5)
        mean = 0.5 * (mn + mx)
    elif u < 0.6:
        k = "inside"
        sd = w * _lu(rng, -2.5, 0.5)
        mean = rng.uniform(mn, mx)
    elif u < 0.8:
        k = "edge"
        sd = w * _lu(rng, -2.5, 0.5)
        mean = mn if rng.random() < 0.5 else mx
    else:
        k = "outside"
        sd = w * _lu(rng, -2, 0.5)
        d = rng.uniform(0.5, 12) * sd
        mean = mn - d if (rng.random() < 0.5 and mn - d > 1.0) else mx + d
    return k, float(mean), float(sd)


def _gen_quad(rng):
    cls = PROFILES[int(rng.choice(4, p=[0.12, 0.38, 0.12, 0.38]))]
    P = _draw_profile(rng, cls)
    L = P["laser_length"]
    zs = []
    if cls != "TrivariateGaussian":
        n = int(rng.integers(1, 4))
        for _ in range(n):
            u = rng.random()
            zs.append(0.0 if u < 0.15 else (float(L) if u < 0.3 else float(rng.uniform(0, L))))
        if cls == "GaussianBeamAxisymmetric":
            if rng.random() < 0.6:
                # axial positions 0..50 Rayleigh ranges on either side of the waist (the waist may lie outside the cylinder);
                # the Rayleigh range is used for workload placement only (either convention gives the same coverage class)
                zr = 2 * math.pi * P["stddev_waist"] ** 2 / (P["laser_wavelength"] * 1e-9)
                u = float(rng.choice([-1, 1])) * (_lu(rng, -1, math.log10(50.0)) if rng.random() < 0.85 else 0.0)
                P["waist_z"] = float(zs[0] - u * zr)
            elif 0 <= P["waist_z"] <= L and rng.random() < 0.5:
                zs[0] = P["waist_z"]
    return dict(kind="quad", cls=cls, params=P, zs=zs, via=_draw_via(rng))


def _gen_tiling(rng):
    u = rng.random()
    radius = _nice(rng, _lu(rng, -3.5, -0.5))
    if u < 0.2:
        tc, length = "short", float(2 * radius * rng.uniform(0.01, 0.999))
    elif u < 0.55:
        k = int(rng.integers(1, 60))
        j = int(rng.integers(-1, 2))
        x = 2 * radius * k
        if j:
            x = float(np.nextafter(x, math.inf if j > 0 else -math.inf))
        tc, length = "k*2r%+dulp" % j, float(x)
    elif u < 0.9:
        tc, length = "generic", _nice(rng, 2 * radius * _lu(rng, 0, 2.5))
    else:
        tc, length = "long", float(2 * radius * _lu(rng, 2.5, 3.3))
    how = ["function", "profile", "laser"][int(rng.integers(3))]
    cls = PROFILES[int(rng.integers(4))]
    return dict(kind="tiling", tclass=tc, radius=float(radius), length=float(length), how=how, cls=cls)


def _gen_spectrum(rng):
    cls = SPECTRA[int(rng.random() < 0.6)]
    mn, mx = _draw_range(rng)
    case = dict(kind="spectrum", cls=cls, min=mn, max=mx, bins=_draw_bins(rng))
    if cls == "GaussianSpectrum":
        k, mean, sd = _draw_gauss(rng, mn, mx)
        case.update(mclass=k, mean=mean, stddev=sd)
    return case


def _gen_history(rng, tier="quick"):
    ci = int(rng.integers(6))
    nops = int(rng.integers(1, 13))
    if tier == "thorough" and rng.random() < 0.2:
        nops = int(rng.integers(13, 31))
    ops = []
    if ci < 4:
        cls = PROFILES[ci]
        P = _draw_profile(rng, cls)
        init = dict(P)
        names = list(PROFILE_PARAMS[cls]) + ["polarization"]
        attach = bool(rng.random() < 0.8)
        if attach:
            names += ["reassign_same", "laser_length"]
        before = {}
        for _ in range(nops):
            n = names[int(rng.integers(len(names)))]
            u = rng.random()
            if n == "reassign_same":
                ops.append([n, None])                      # laser.laser_profile = laser.laser_profile
                continue
            if rng.random() < 0.12:                        # an assignment the setter has to refuse
                ks = _invalid_kinds(n)
                ops.append([n, {"invalid": ks[int(rng.integers(len(ks)))]}])
                continue
            if u < 0.15:
                v = P[n]                                   # no-op assignment: the value the attribute already has
            elif u < 0.3 and n in before:
                v = before[n]                              # A -> B -> A
            elif n == "laser_length" and u < 0.6:
                v = _same_count_length(rng, P["laser_radius"], P["laser_length"]) or _draw_param(rng, n, P)
            else:
                v = _draw_param(rng, n, P)
            if n == "laser_radius" and P["laser_length"] / (2 * v) > 400:
                v = P[n]
            before[n] = P[n]
            P[n] = v
            ops.append([n, v])
        return dict(kind="history", cls=cls, init=init, ops=ops, attach=attach,
                    via=["direct", "omit"][int(rng.integers(2))])
    cls = SPECTRA[ci - 4]
    mn, mx = _draw_range(rng)
    S = dict(min_wavelength=mn, max_wavelength=mx, bins=_draw_bins(rng))
    names = ["min_wavelength", "max_wavelength", "bins"]
    if cls == "GaussianSpectrum":
        _, S["mean"], S["stddev"] = _draw_gauss(rng, mn, mx)
        names += ["mean", "stddev", "mean", "stddev"]
    init = dict(S)
    before = {}
    for _ in range(nops):
        n = names[int(rng.integers(len(names)))]
        u = rng.random()
        if rng.random() < 0.12:                            # an assignment the setter has to refuse
            ks = _invalid_kinds(n)
            ops.append([n, {"invalid": ks[int(rng.integers(len(ks)))]}])
            continue
        if u < 0.15:
            v = S[n]                                       # no-op assignment
        elif u < 0.3 and n in before and (n != "min_wavelength" or before[n] < S["max_wavelength"]) \
                and (n != "max_wavelength" or before[n] > S["min_wavelength"]):
            v = before[n]                                  # A -> B -> A
        elif n == "bins":
            v = _draw_bins(rng)
        elif n == "min_wavelength":
            w = _lu(rng, -3, 2)
            v = S["max_wavelength"] - w
            if v < 1.0:
                v = 0.5 * S["max_wavelength"]
        elif n == "max_wavelength":
            v = S["min_wavelength"] + _lu(rng, -3, 2)
        elif n == "mean":
            v = _draw_gauss(rng, S["min_wavelength"], S["max_wavelength"])[1]
        else:
            v = _draw_gauss(rng, S["min_wavelength"], S["max_wavelength"])[2]
        v = int(v) if n == "bins" else float(v)
        before[n] = S[n]
        S[n] = v
        ops.append([n, v])
    return dict(kind="history", cls=cls, init=init, ops=ops, attach=False, via="direct")


def _gen_laser(rng):
    """a Laser node driven through profile replacement / re-assignment and geometry setters"""
    r0 = _nice(rng, _lu(rng, -2.5, -0.7))
    n0 = int(rng.integers(1, 13)) if rng.random() < 0.85 else 0
    profs = []
    for k in range(int(rng.integers(2, 4))):
        cls = PROFILES[int(rng.integers(4))]
        r = r0 if k == 0 else _nice(rng, _lu(rng, -2.5, -0.7))
        n = n0 if (k == 0 or rng.random() < 0.6) else int(rng.integers(0, 13))      # equal / different segment count
        P = dict(_FIXED_PROFILE[cls], laser_radius=float(r), laser_length=float(2 * r * (n + rng.uniform(0.02, 0.98))))
        profs.append(dict(cls=cls, params=P))
    cur = 0
    R = [p["params"]["laser_radius"] for p in profs]
    L = [p["params"]["laser_length"] for p in profs]
    ops = []
    for _ in range(int(rng.integers(2, 11))):
        u = rng.random()
        if u < 0.35:
            v = _same_count_length(rng, R[cur], L[cur])
            if v is None:
                continue
            L[cur] = v
            ops.append(["set", "laser_length", v])
        elif u < 0.5:
            L[cur] = float(2 * R[cur] * (int(rng.integers(0, 13)) + rng.uniform(0.02, 0.98)))
            ops.append(["set", "laser_length", L[cur]])
        elif u < 0.62:
            v = _nice(rng, max(L[cur] / 60.0, _lu(rng, -2.5, -0.7)))
            R[cur] = float(v)
            ops.append(["set", "laser_radius", R[cur]])
        elif u < 0.8:
            ops.append(["reassign_same"])
        else:
            cur = int(rng.integers(len(profs)))
            ops.append(["replace", cur])
    return dict(kind="laser", profiles=profs, ops=ops)


def gen_case(rng, tier):
    u = rng.random()
    if u < 0.3:
        return _gen_quad(rng)
    if u < 0.4:
        return _gen_tiling(rng)
    if u < 0.47:
        return _gen_laser(rng)
    if u < 0.72:
        return _gen_spectrum(rng)
    return _gen_history(rng, tier)


def fixed_cases(tier):
    out = []
    pol = [0.0, 1.0, 0.0]
    base = dict(pulse_energy=2.0, pulse_length=1e-8, laser_radius=0.02, laser_length=1.0, polarization=pol)
    PB = dict(base, stddev_x=0.01, stddev_y=0.02)
    PT = dict(PB, mean_z=0.4)
    PG = dict(base, waist_z=0.5, stddev_waist=5e-4, laser_wavelength=1060.0)
    PU = dict(energy_density=5.0, laser_radius=0.03, laser_length=2.0, polarization=pol)
    inits = {"UniformEnergyDensity": PU, "ConstantBivariateGaussian": PB, "TrivariateGaussian": PT,
             "GaussianBeamAxisymmetric": PG}
    # one quadrature per class
    out.append(dict(kind="quad", cls="UniformEnergyDensity", params=PU, zs=[0.0, 1.0, 2.0]))
    out.append(dict(kind="quad", cls="ConstantBivariateGaussian", params=PB, zs=[0.0, 0.3, 1.0]))
    out.append(dict(kind="quad", cls="TrivariateGaussian", params=PT, zs=[]))
    out.append(dict(kind="quad", cls="GaussianBeamAxisymmetric", params=PG, zs=[0.0, 0.5, 1.0]))
    out.append(dict(kind="quad", cls="GaussianBeamAxisymmetric", params=dict(PG, waist_z=-3.0, stddev_waist=1e-4), zs=[0.0, 1.0]))
    # every setter of every class once, observed right after it (deterministic part of the history clause)
    new = dict(pulse_energy=7.0, pulse_length=3e-9, laser_radius=0.05, laser_length=0.33, stddev_x=0.004, stddev_y=0.03,
               mean_z=-0.2, waist_z=1.5, stddev_waist=2e-3, laser_wavelength=532.0, energy_density=0.25,
               polarization=[3.0, -1.0, 2.0])
    for cls in PROFILES:
        for n in list(PROFILE_PARAMS[cls]) + ["polarization"]:
            out.append(dict(kind="history", cls=cls, init=inits[cls], ops=[[n, new[n]]], attach=True))
    # constructor defaults / presets: the no-argument object, every single default-valued parameter in an otherwise
    # generic object (all construction paths), no-op assignments and A -> B -> A on every setter
    for cls in PROFILES:
        zs = [] if cls == "TrivariateGaussian" else [0.0, 0.4]
        for via in ("omit", "direct", "setters"):
            out.append(dict(kind="quad", cls=cls, params=dict(DEFAULTS[cls]), zs=zs, via=via))
        for n in list(PROFILE_PARAMS[cls]) + ["polarization"]:
            for v in SPECIAL[n]:
                P = dict(inits[cls])
                P[n] = v
                if cls == "GaussianBeamAxisymmetric" and n == "waist_z":
                    zs = [float(v), 0.4]
                out.append(dict(kind="quad", cls=cls, params=P, zs=zs, via="omit" if v == DEFAULTS[cls][n] else "direct"))
            out.append(dict(kind="history", cls=cls, init=inits[cls], attach=True, via="direct",
                            ops=[[n, inits[cls][n]], [n, new[n]], [n, inits[cls][n]], [n, inits[cls][n]]]))
            out.append(dict(kind="history", cls=cls, init=dict(DEFAULTS[cls]), attach=True, via="omit",
                            ops=[[n, DEFAULTS[cls][n]], [n, new[n]], [n, DEFAULTS[cls][n]]]))
    # Laser node: length / radius changes that keep and that change the segment count, re-assigning the same profile
    # object, replacing the profile by one with equal / different segment count
    def lp(cls, r, L):
        return dict(cls=cls, params=dict(_FIXED_PROFILE[cls], laser_radius=r, laser_length=L))
    A, B, C_, D = lp("ConstantBivariateGaussian", 0.05, 0.52), lp("GaussianBeamAxisymmetric", 0.03, 0.33), \
        lp("UniformEnergyDensity", 0.05, 0.27), lp("TrivariateGaussian", 0.1, 0.15)
    for ops in ([["set", "laser_length", 0.57], ["set", "laser_length", 0.5], ["set", "laser_length", 0.93]],
                [["reassign_same"], ["set", "laser_length", 0.57], ["set", "laser_length", 1.21], ["set", "laser_radius", 0.02]],
                [["replace", 1], ["replace", 0], ["replace", 2], ["replace", 3], ["replace", 0]],
                [["set", "laser_radius", 0.051], ["replace", 1], ["set", "laser_length", 0.31], ["reassign_same"],
                 ["set", "laser_length", 0.35], ["replace", 3], ["set", "laser_length", 0.19], ["set", "laser_length", 0.1]]):
        out.append(dict(kind="laser", profiles=[A, B, C_, D], ops=ops))
    for cls in PROFILES:
        out.append(dict(kind="history", cls=cls, init=inits[cls], attach=True, via="direct",
                        ops=[["laser_length", inits[cls]["laser_length"] * 1.004], ["reassign_same", None],
                             ["laser_length", inits[cls]["laser_length"] * 0.997], ["laser_radius", inits[cls]["laser_radius"] * 1.001]]))
    for cls in PROFILES:
        other = "energy_density" if cls == "UniformEnergyDensity" else "pulse_energy"
        for n in list(PROFILE_PARAMS[cls]) + ["polarization"]:
            for k in _invalid_kinds(n)[:2]:
                o2 = "laser_length" if n == other else other
                out.append(dict(kind="history", cls=cls, init=inits[cls], attach=True, via="direct",
                                ops=[[n, {"invalid": k}], [o2, new[o2]], [n, new[n]], [n, {"invalid": k}], [n, inits[cls][n]]]))
    SC = dict(min_wavelength=1059.0, max_wavelength=1069.0, bins=20)
    SG = dict(SC, mean=1064.0, stddev=0.8)
    for n, v in (("min_wavelength", 1061.5), ("max_wavelength", 1066.25), ("bins", 7)):
        out.append(dict(kind="history", cls="ConstantSpectrum", init=SC, ops=[[n, v]], attach=False))
    for n, v in (("min_wavelength", 1061.5), ("max_wavelength", 1066.25), ("bins", 7), ("mean", 1062.0), ("stddev", 2.5)):
        out.append(dict(kind="history", cls="GaussianSpectrum", init=SG, ops=[[n, v]], attach=False))
    out.append(dict(kind="history", cls="GaussianSpectrum", init=SG, attach=False,
                    ops=[["mean", 1062.0], ["bins", 11], ["stddev", 0.2], ["max_wavelength", 1070.0], ["mean", 1065.0]]))
    for n, v in (("min_wavelength", 1061.5), ("max_wavelength", 1066.25), ("bins", 7), ("mean", 1062.0), ("stddev", 2.5)):
        out.append(dict(kind="history", cls="GaussianSpectrum", init=SG, attach=False, ops=[[n, SG[n]], [n, v], [n, SG[n]]]))
        if n in SC:
            out.append(dict(kind="history", cls="ConstantSpectrum", init=SC, attach=False, ops=[[n, SC[n]], [n, v], [n, SC[n]]]))
        for k in _invalid_kinds(n):
            if k in ("zero", "negative", "not-below-max", "not-above-min", "fraction"):
                out.append(dict(kind="history", cls="GaussianSpectrum", init=SG, attach=False,
                                ops=[[n, {"invalid": k}], ["bins", 9], [n, v], [n, {"invalid": k}], ["stddev", 1.1]]))
                if n in SC:
                    out.append(dict(kind="history", cls="ConstantSpectrum", init=SC, attach=False,
                                    ops=[[n, {"invalid": k}], ["bins", 9], [n, v]]))
    # spectra: documented example, suite example, one bin, ranges known to lose an edge by rounding
    for mn, mx, b in ((1063.9, 1064.1, 1), (1039.9, 1040.1, 10), (1059.0, 1069.0, 20), (400.0, 400.7, 3), (300.7, 300.9, 1), (512.1, 512.4, 2),
                      (1063.9, 1064.1, 7), (532.0, 532.3, 49), (694.3, 694.301, 500)):
        out.append(dict(kind="spectrum", cls="ConstantSpectrum", min=mn, max=mx, bins=b))
    for mn, mx, b, m, s, k in ((1035.0, 1045.0, 100, 1040.0, 0.5, "spanned"), (1063.0, 1065.0, 1, 1064.0, 0.05, "spanned"),
                               (1060.0, 1064.0, 33, 1064.0, 0.7, "edge"), (1060.0, 1064.0, 33, 1071.0, 0.7, "outside"),
                               (1060.0, 1064.0, 500, 1062.0, 1e-3, "spanned"), (1060.0, 1060.001, 500, 1060.0005, 3e-4, "centre")):
        out.append(dict(kind="spectrum", cls="GaussianSpectrum", min=mn, max=mx, bins=b, mean=m, stddev=s, mclass=k))
    # tiling: fewer than one diameter, exact multiples +- 1 ulp, decimal floor-division traps
    for r, L, tc in ((1.0, 0.5, "short"), (0.5, 10.0, "k*2r+0ulp"), (0.05, 0.3, "generic"), (0.05, 0.1, "k*2r+0ulp"),
                     (0.05, float(np.nextafter(0.2, 0.0)), "k*2r-1ulp"), (0.05, float(np.nextafter(0.2, 1.0)), "k*2r+1ulp"),
                     (0.035, 0.07 * 3, "k*2r+0ulp"), (0.1, 0.7, "generic"), (0.025, 1.9999999999999998, "generic"),
                     (0.3, 0.5999999999999999, "short")):
        for how in ("function", "profile", "laser"):
            out.append(dict(kind="tiling", tclass=tc, radius=r, length=L, how=how, cls="ConstantBivariateGaussian"))
    return out


# ------------------------------------------------------------------------------------------------
# small helpers
# ------------------------------------------------------------------------------------------------

def _cmp(ctx, got, want, tol, monitor):
    """|got-want| <= tol elementwise.  Counts the evaluations, tracks max residual/tolerance over the PASSING
    entries (violating entries are reported by the caller).  Returns (bad_mask, got, want, tol) as flat arrays."""
    g = np.atleast_1d(np.asarray(got, dtype=float)).ravel()
    w = np.atleast_1d(np.asarray(want, dtype=float)).ravel()
    if g.shape != w.shape:
        ctx.mon(monitor, 1)
        return None, g, w, None
    t = np.broadcast_to(np.asarray(tol, dtype=float).ravel() if np.ndim(tol) else float(tol), w.shape).astype(float)
    err = np.abs(g - w)
    same = (g == w)                       # includes equal infinities
    bad = ~((err <= t) | same)            # NaN => bad
    ctx.mon(monitor, int(g.size))
    ok = ~bad
    if ok.any():
        with np.errstate(divide="ignore", invalid="ignore"):
            r = np.where(same[ok] | (err[ok] == 0), 0.0, err[ok] / t[ok])
        r = r[np.isfinite(r)]
        if r.size:
            ctx.margin(monitor, float(r.max()))
    return bad, g, w, t


def _judge(ctx, got, want, tol, key, what, monitor, **detail):
    bad, g, w, t = _cmp(ctx, got, want, tol, monitor)
    if bad is None:
        ctx.viol(key, what + " (shape %s vs %s)" % (g.shape, w.shape), **detail)
        return False
    if bad.any():
        i = int(np.argmax(bad))
        ctx.viol(key, what, index=i, got=float(g[i]), want=float(w[i]), tol=float(t[i]), n_bad=int(bad.sum()), **detail)
        return False
    return True


def _defcls(obj, name):
    for k in type(obj).__mro__:
        if name in vars(k):
            return k.__name__
    return type(obj).__name__


_DEFAULTS_OK = {}


def _defaults_ok(cls, ctx=None):
    """the DEFAULTS table describes what a no-argument object reports (observed, cached per worker)"""
    if cls not in _DEFAULTS_OK:
        import cherab.core.model.laser.profile as pm
        o = getattr(pm, cls)()
        D = DEFAULTS[cls]
        a = o.get_polarization(0.0, 0.0, 0.0)
        _DEFAULTS_OK[cls] = all(getattr(o, n) == D[n] for n in PROFILE_PARAMS[cls]) and [a.x, a.y, a.z] == D["polarization"]
    if not _DEFAULTS_OK[cls] and ctx is not None:
        ctx.skip("defaults-table-outdated:" + cls)
    return _DEFAULTS_OK[cls]


def _mk_profile(cls, P, via="direct", ctx=None):
    """direct: every keyword given; omit: keywords whose value equals the constructor default are left out (an
    all-default parameter set is the no-argument object); setters: built from different values, then every parameter is
    assigned through its setter"""
    from raysect.core import Vector3D
    import cherab.core.model.laser.profile as pm
    if via == "setters":
        Q = {}
        for k, v in P.items():
            if k == "polarization":
                Q[k] = [v[1] + 0.3, -v[2] + 0.2, v[0] - 0.5]
                if sum(c * c for c in Q[k]) < 0.01:
                    Q[k][0] += 1.0
            elif k in ("mean_z", "waist_z"):
                Q[k] = 1.7 * v + 0.37
            else:
                Q[k] = 1.7 * v
        o = _mk_profile(cls, Q)
        probe = _formula_points(cls, P)[0]          # the first point the monitors will ask for afterwards
        for k in PROFILE_PARAMS[cls]:
            o.get_energy_density(*probe)            # same argument right before / right after a state change
            setattr(o, k, P[k])
        o.get_polarization(*probe)
        o.set_polarization(Vector3D(*P["polarization"]))
        return o
    kw = {k: v for k, v in P.items() if k != "polarization"}
    kw["polarization"] = Vector3D(*P["polarization"])
    if via == "omit" and _defaults_ok(cls, ctx):
        kw = {k: v for k, v in kw.items() if P[k] != DEFAULTS[cls][k]}
    return getattr(pm, cls)(**kw)


def _mk_spectrum(cls, S, via="direct"):
    import cherab.core.model.laser.laserspectrum as sm
    if via == "setters":
        Q = dict(S, min_wavelength=0.5 * S["min_wavelength"], max_wavelength=2.0 * S["max_wavelength"], bins=S["bins"] + 3)
        if "mean" in S:
            Q.update(mean=1.01 * S["mean"], stddev=1.7 * S["stddev"])
        o = _mk_spectrum(cls, Q)
        x0 = S["min_wavelength"] + 0.02 * (S["max_wavelength"] - S["min_wavelength"])
        for k in ("min_wavelength", "max_wavelength", "bins", "mean", "stddev"):
            if k in S:
                o(x0)
                setattr(o, k, S[k])
        return o
    if cls == "ConstantSpectrum":
        return sm.ConstantSpectrum(S["min_wavelength"], S["max_wavelength"], S["bins"])
    return sm.GaussianSpectrum(S["min_wavelength"], S["max_wavelength"], S["bins"], S["mean"], S["stddev"])


def _formula_points(cls, P):
    """points at fixed multiples of the documented sigmas (any scale: sigma_z may be millimetres or 3e8 m)"""
    if cls == "UniformEnergyDensity":
        R, L = P["laser_radius"], P["laser_length"]
        return [(0.0, 0.0, 0.0), (0.5 * R, -0.3 * R, 0.4 * L), (-0.7 * R, 0.1 * R, L)]
    if cls == "GaussianBeamAxisymmetric":
        sx = sy = P["stddev_waist"]
        zs = [P["waist_z"]]                       # only the waist plane is free of the Rayleigh-range convention
    elif cls == "TrivariateGaussian":
        sx, sy, sz = P["stddev_x"], P["stddev_y"], C_LIGHT * P["pulse_length"]
        zs = [P["mean_z"] + f * sz for f in (0.0, 1.0, -2.0, 0.5)]
    else:
        sx, sy = P["stddev_x"], P["stddev_y"]
        zs = [0.0, 0.61 * P["laser_length"]]
    return [(fx * sx, fy * sy, z) for z in zs for fx, fy in ((0.0, 0.0), (0.7, -0.4), (-1.3, 1.1), (2.1, 0.0), (0.0, -2.6))]


def _formula_ref(cls, P, pts):
    """the normalised Gaussian fixed by the documented standard deviations and the integral the property states"""
    pts = np.asarray(pts, dtype=float)
    x, y, z = pts[:, 0], pts[:, 1], pts[:, 2]
    if cls == "UniformEnergyDensity":
        return np.full(len(pts), P["energy_density"]), np.zeros(len(pts))
    if cls == "TrivariateGaussian":
        sx, sy, sz = P["stddev_x"], P["stddev_y"], C_LIGHT * P["pulse_length"]
        arg = 0.5 * ((x / sx) ** 2 + (y / sy) ** 2 + ((z - P["mean_z"]) / sz) ** 2)
        amp = P["pulse_energy"] / ((2 * math.pi) ** 1.5 * sx * sy * sz)
    else:
        sx, sy = (P["stddev_waist"],) * 2 if cls == "GaussianBeamAxisymmetric" else (P["stddev_x"], P["stddev_y"])
        arg = 0.5 * ((x / sx) ** 2 + (y / sy) ** 2)
        amp = P["pulse_energy"] / (C_LIGHT * P["pulse_length"]) / (2 * math.pi * sx * sy)
    ref = amp * np.exp(-arg)
    return ref, ref * (1e-10 + 1e-14 * arg)


def _judge_formula(ctx, cls, obj, P, seen=None):
    pts = _formula_points(cls, P)
    ref, tol = _formula_ref(cls, P, pts)
    bad, g, w, t = _cmp(ctx, [obj.get_energy_density(*q) for q in pts], ref, tol, "formula")
    if bad.any() and (seen is None or "formula" not in seen):
        if seen is not None:
            seen.add("formula")
        i = int(np.argmax(bad))
        ctx.viol("formula:%s:energy-density-not-the-documented-gaussian" % cls,
                 "get_energy_density differs from the normalised Gaussian given by the documented standard deviations and the "
                 "integral the property states (pulse_energy/(c*pulse_length) per cross-section, pulse_energy per volume)",
                 point=[float(c) for c in pts[i]], got=float(g[i]), want=float(w[i]), n_bad=int(bad.sum()))
        return False
    return True


def _trap_w(n, h):
    w = np.full(n, h)
    w[0] = w[-1] = 0.5 * h
    return w


# ------------------------------------------------------------------------------------------------
# quadrature of the observed energy density
# ------------------------------------------------------------------------------------------------

def _width(f, r0):
    """Standard deviation of a centred Gaussian-like section measured from two samples; None if it cannot be measured."""
    f0 = f(0.0)
    if not (math.isfinite(f0) and f0 > 0):
        return None
    r = float(r0)
    best = None
    for _ in range(120):
        v = f(r)
        if not math.isfinite(v) or v < 0:
            return None
        q = v / f0
        if 0.0 < q < 0.999 and (best is None or abs(q - 0.5) < abs(best[1] - 0.5)):
            best = (r, q)
        if q > 0.9:
            r *= 2.0
        elif q < 0.05:
            r *= 0.5
        else:
            return r / math.sqrt(-2.0 * math.log(q))
    if best is not None:          # no sample in [0.05, 0.9] (e.g. a truncated profile): use the best-conditioned ratio seen
        return best[0] / math.sqrt(-2.0 * math.log(best[1]))
    return None


def _quad2(E, z, sx, sy, ctx):
    """Tensor trapezoid of E(x, y, z) on +-9 sigma, h = sigma/4 (73 x 73); returns (full, coarse(2h), narrow(+-7.5))."""
    n, H = 36, 0.25
    xs = [sx * H * k for k in range(-n, n + 1)]
    ys = [sy * H * k for k in range(-n, n + 1)]
    V = np.empty((2 * n + 1, 2 * n + 1))
    for i, x in enumerate(xs):
        row = V[i]
        for j, y in enumerate(ys):
            row[j] = E(x, y, z)
    ctx.mon("energy_density_samples", V.size)
    hx, hy = sx * H, sy * H
    w = _trap_w(2 * n + 1, 1.0)
    full = float(w @ V @ w) * hx * hy
    Vc = V[::2, ::2]
    wc = _trap_w(Vc.shape[0], 2.0)
    coarse = float(wc @ Vc @ wc) * hx * hy
    Vn = V[6:-6, 6:-6]
    wn = _trap_w(Vn.shape[0], 1.0)
    narrow = float(wn @ Vn @ wn) * hx * hy
    return full, coarse, narrow


def _quad3(E, zc, sx, sy, sz, ctx):
    """Tensor trapezoid on +-8 sigma, h = sigma/4 (65^3); coarse = 2h, narrow = +-7 sigma."""
    n, H = 32, 0.25
    m = 2 * n + 1
    xs = [sx * H * k for k in range(-n, n + 1)]
    ys = [sy * H * k for k in range(-n, n + 1)]
    zs = [zc + sz * H * k for k in range(-n, n + 1)]
    V = np.empty((m, m, m))
    for i, x in enumerate(xs):
        for j, y in enumerate(ys):
            row = V[i, j]
            for k, z in enumerate(zs):
                row[k] = E(x, y, z)
    ctx.mon("energy_density_samples", V.size)
    dv = (sx * H) * (sy * H) * (sz * H)

    def integ(A, h):
        w = _trap_w(A.shape[0], h)
        return float(np.einsum("i,j,k,ijk->", w, w, w, A)) * dv
    return integ(V, 1.0), integ(V[::2, ::2, ::2], 2.0), integ(V[4:-4, 4:-4, 4:-4], 1.0)


def _quad_polar(E, z, s, ctx):
    """Fallback for profiles the tensor grid cannot certify (not smooth): polar quadrature, 16 directions x 1200 radii up to
    12 s.  Returns (integral, error estimate from halving the radial / angular resolution and shrinking the disk)."""
    nr, na, R = 1200, 16, 12.0 * s
    h = R / nr
    r = h * np.arange(nr + 1)
    cs = [(math.cos(2 * math.pi * a / na), math.sin(2 * math.pi * a / na)) for a in range(na)]
    V = np.empty((na, nr + 1))
    for a, (c, sn) in enumerate(cs):
        row = V[a]
        for i in range(nr + 1):
            row[i] = E(r[i] * c, r[i] * sn, z)
    ctx.mon("energy_density_samples", V.size)

    def integ(A, rr):
        g = A.mean(axis=0) * rr
        return float(2 * math.pi * (g.sum() - 0.5 * (g[0] + g[-1])) * (rr[1] - rr[0]))
    full = integ(V, r)
    est = abs(full - integ(V[:, ::2], r[::2])) + abs(full - integ(V[::2], r)) + abs(full - integ(V[:, :961], r[:961]))
    return full, est


def _judge_shape(ctx, cls, E, z, sx, sy, far):
    """the transverse profile at fixed z is the Gaussian with the measured widths: f(0) exp(-x^2/2sx^2 - y^2/2sy^2) out to
    6 sigma along the axes and diagonals (class documentation; independent of the Rayleigh-range convention)"""
    f0 = E(0.0, 0.0, z)
    pts, arg = [], []
    for k in (0.5, 1.0, 2.0, 3.0, 4.0, 5.0, 6.0):
        for ux, uy in ((1, 0), (-1, 0), (0, 1), (0, -1), (0.6, 0.8), (-0.8, 0.6), (0.6, -0.8)):
            pts.append((k * ux * sx, k * uy * sy, z))
            arg.append(0.5 * k * k * (ux * ux + uy * uy))
    arg = np.array(arg)
    ref = f0 * np.exp(-arg)
    return _judge(ctx, [E(*q) for q in pts], ref, ref * (1e-9 + 1e-12 * arg) + 1e-300,
                  "shape:%s:transverse-profile-not-gaussian%s" % (cls, ":far-from-waist" if far else ""),
                  "the energy density across the beam is not f(axis) * exp(-x^2/2sx^2 - y^2/2sy^2) with the widths measured "
                  "at one sigma (truncated or distorted profile)", "shape", z=z, widths=[sx, sy])


def _certified(full, coarse, narrow):
    s = abs(full)
    return abs(coarse - full) <= CERT * s and abs(narrow - full) <= CERT * s


def _judge_widths(ctx, cls, items):
    for name, got, want in items:
        _judge(ctx, got, want, QTOL * want, "width:%s:%s-not-the-measured-standard-deviation" % (cls, name),
               "the standard deviation measured from the energy density differs from the documented width parameter",
               "width", parameter=name)


def _run_quad(case, ctx):
    cls, P = case["cls"], case["params"]
    via = case.get("via", "direct")
    ctx.cls("quad:" + cls)
    ctx.cls("quad-via:" + via)
    if P == DEFAULTS[cls]:
        ctx.cls("quad:all-defaults")
    ndef = sum(1 for k in PROFILE_PARAMS[cls] if P[k] == DEFAULTS[cls][k])
    ctx.cls("quad-default-valued-params:%s" % ("0" if ndef == 0 else ("1-2" if ndef < 3 else "3+")))
    p = _mk_profile(cls, P, via, ctx)
    E = p.get_energy_density
    if _judge_formula(ctx, cls, p, P):
        ctx.nontrivial()
    if cls == "UniformEnergyDensity":
        eps, R = P["energy_density"], P["laser_radius"]
        gx, gw = np.polynomial.legendre.leggauss(6)
        rr = 0.5 * R * (gx + 1.0)
        rw = 0.5 * R * gw
        nphi = 12
        for z in case["zs"]:
            vals = np.array([[E(r * math.cos(2 * math.pi * a / nphi), r * math.sin(2 * math.pi * a / nphi), z)
                              for a in range(nphi)] for r in rr])
            ctx.mon("energy_density_samples", vals.size)
            _judge(ctx, vals, np.full(vals.shape, eps), 0.0, "quad:UniformEnergyDensity:sample-not-energy_density",
                   "get_energy_density inside the cylinder differs from the energy_density that was set", "quad_uniform_samples", z=z)
            integral = float(((vals.sum(axis=1) * (2 * math.pi / nphi)) * rr * rw).sum())
            _judge(ctx, integral, eps * math.pi * R * R, QTOL * eps * math.pi * R * R,
                   "quad:UniformEnergyDensity:disk-integral", "integral of the energy density over the beam disk differs from "
                   "energy_density * pi * laser_radius^2", "quad_uniform", z=z)
            ctx.nontrivial()
        return
    if cls == "TrivariateGaussian":
        zc = P["mean_z"]
        s0z = C_LIGHT * P["pulse_length"]
        sx = _width(lambda t: E(t, 0.0, zc), P["stddev_x"])
        sy = _width(lambda t: E(0.0, t, zc), P["stddev_y"])
        sz = _width(lambda t: E(0.0, 0.0, zc + t), s0z)
        measured = None not in (sx, sy, sz)
        if not measured:
            sx, sy, sz = P["stddev_x"], P["stddev_y"], s0z
        full, coarse, narrow = _quad3(E, zc, sx, sy, sz, ctx)
        if not _certified(full, coarse, narrow):
            ctx.skip("quad-unconverged:" + cls)
            ctx.mon("quad_unconverged")
            return
        ctx.nontrivial()
        _judge(ctx, full, P["pulse_energy"], QTOL * P["pulse_energy"], "quad:TrivariateGaussian:volume-integral",
               "volume integral of the energy density differs from the pulse energy", "quad_volume",
               widths=[sx, sy, sz], widths_measured=measured)
        if measured:
            _judge_widths(ctx, cls, (("stddev_x", sx, P["stddev_x"]), ("stddev_y", sy, P["stddev_y"]),
                                     ("pulse_length", sz, s0z)))
        return
    want = P["pulse_energy"] / (C_LIGHT * P["pulse_length"])
    for z in case["zs"]:
        if cls == "ConstantBivariateGaussian":
            g0x, g0y = P["stddev_x"], P["stddev_y"]
        else:
            g0x = g0y = P["stddev_waist"]
        sx = _width(lambda t: E(t, 0.0, z), g0x)
        sy = _width(lambda t: E(0.0, t, z), g0y)
        measured = None not in (sx, sy)
        if not measured:
            sx, sy = g0x, g0y
        far = cls == "GaussianBeamAxisymmetric" and max(sx, sy) > 1.5 * P["stddev_waist"]
        ctx.cls("quad-beam:%s" % ("far-from-waist" if far else "near-waist") if cls == "GaussianBeamAxisymmetric" else "quad-bivariate")
        if measured:
            _judge_shape(ctx, cls, E, z, sx, sy, far)
        key = "quad:%s:cross-section-integral%s" % (cls, ":far-from-waist" if far else "")
        what = "integral of the energy density over the cross-section differs from pulse_energy / (c * pulse_length)"
        full, coarse, narrow = _quad2(E, z, sx, sy, ctx)
        if not _certified(full, coarse, narrow):
            # not a smooth Gaussian: polar quadrature with its own error estimate; judged only when the deviation is
            # far outside that estimate
            pfull, est = _quad_polar(E, z, max(sx, sy), ctx)
            if not (math.isfinite(pfull) and est <= 1e-2 * max(abs(pfull), want)):
                ctx.skip("quad-unconverged:" + cls)
                ctx.mon("quad_unconverged")
                continue
            ctx.nontrivial()
            _judge(ctx, pfull, want, QTOL * want + 20.0 * est, key, what, "quad_xsec_polar", z=z, widths=[sx, sy],
                   widths_measured=measured, quadrature="polar fallback (tensor grid not certified)", error_estimate=est)
            continue
        ctx.nontrivial()
        _judge(ctx, full, want, QTOL * want, key, what, "quad_xsec", z=z, widths=[sx, sy], widths_measured=measured)
        if measured and cls == "ConstantBivariateGaussian":
            _judge_widths(ctx, cls, (("stddev_x", sx, P["stddev_x"]), ("stddev_y", sy, P["stddev_y"])))
        elif measured and z == P["waist_z"]:
            # only at the waist: away from it the class documentation (z_R = pi w0^2 / lambda with w0 "the standard
            # deviation") and the code (2 pi sigma0^2 / lambda) disagree and the property does not say which is meant
            _judge_widths(ctx, cls, (("stddev_waist", sx, P["stddev_waist"]), ("stddev_waist", sy, P["stddev_waist"])))


# ------------------------------------------------------------------------------------------------
# tiling
# ------------------------------------------------------------------------------------------------

def _segments(lst):
    out = []
    for s in lst:
        m = s.transform
        pure = all(m[i, j] == (1.0 if i == j else 0.0) for i in range(3) for j in range(3)) and m[0, 3] == 0.0 and m[1, 3] == 0.0
        out.append((float(m[2, 3]), float(s.height), float(s.radius), bool(pure)))
    return out


def _judge_tiling(ctx, lst, radius, length, via):
    from raysect.primitive import Cylinder
    ctx.mon("tiling_lists")
    if not ctx.check(isinstance(lst, list) and len(lst) > 0 and all(isinstance(s, Cylinder) for s in lst),
                     "tiling:no-cylinder-segments", "the generated geometry is empty or not a list of cylinders",
                     monitor="tiling_struct", via=via):
        return False
    segs = sorted(_segments(lst))
    z0 = np.array([s[0] for s in segs])
    h = np.array([s[1] for s in segs])
    r = np.array([s[2] for s in segs])
    tol = TILE * length
    ok = ctx.check(all(s[3] for s in segs), "tiling:segment-transform-not-z-translation",
                   "a segment's transform is not a pure translation along z", monitor="tiling_struct", via=via)
    ok &= ctx.check(bool(np.all(h > 0)), "tiling:non-positive-segment-height", "a segment has non-positive height",
                    monitor="tiling_struct", via=via)
    ok &= _judge(ctx, r, np.full(r.shape, radius), 1e-15 * radius, "tiling:segment-radius",
                 "a segment's radius differs from the laser radius", "tiling_radius", via=via)
    ok &= _judge(ctx, z0[0], 0.0, tol, "tiling:first-segment-not-at-0", "the first segment does not start at z = 0",
                 "tiling_ends", via=via)
    if len(segs) > 1:
        ok &= _judge(ctx, z0[:-1] + h[:-1], z0[1:], tol, "tiling:gap-or-overlap",
                     "consecutive segments overlap or leave a gap", "tiling_joints", via=via, n=len(segs))
    ok &= _judge(ctx, z0[-1] + h[-1], length, tol, "tiling:last-segment-not-at-length",
                 "the last segment does not end at the laser length", "tiling_ends", via=via, n=len(segs))
    ok &= _judge(ctx, float(h.sum()), length, tol * max(1.0, len(segs) / 100.0), "tiling:heights-do-not-sum-to-length",
                 "segment heights do not sum to the laser length", "tiling_sum", via=via, n=len(segs))
    ctx.nontrivial()
    return ok


def _placement_reason(lst, radius, length):
    """why the segments (placement read from each segment's transform) do not tile [0, length]; None if they do"""
    from raysect.primitive import Cylinder
    if not (isinstance(lst, list) and lst and all(isinstance(s, Cylinder) for s in lst)):
        return "no cylinder segments"
    segs = sorted(_segments(lst))
    z0 = np.array([s[0] for s in segs])
    h = np.array([s[1] for s in segs])
    tol = TILE * length
    if not all(s[3] for s in segs):
        return "segment transform is not a translation along z"
    if not np.all(h > 0):
        return "non-positive segment height"
    if not np.all(np.abs(np.array([s[2] for s in segs]) - radius) <= 1e-15 * radius):
        return "segment radius differs from laser_radius"
    if not abs(z0[0]) <= tol:
        return "first segment does not start at 0"
    if len(segs) > 1 and not np.all(np.abs(z0[:-1] + h[:-1] - z0[1:]) <= tol):
        return "consecutive segments overlap or leave a gap"
    if not abs(z0[-1] + h[-1] - length) <= tol:
        return "last segment does not end at laser_length"
    return None


def _judge_placement(ctx, laser, radius, length, op, **detail):
    geo = laser.get_geometry()
    why = _placement_reason(geo, radius, length)
    if why is None and not (all(s.parent is laser for s in geo) and len(laser.children) == len(geo)):
        why = "the Laser node's children are not exactly the segments"
    ctx.mon("placement")
    if why is not None:
        ctx.viol("tiling:segment-placement-after:" + op,
                 "after this operation the Laser's segments (start / end read from their transforms) do not tile "
                 "[0, laser_length] of its current profile exactly once", why=why, radius=radius, length=length,
                 segments=[list(s[:3]) for s in sorted(_segments(geo))][:6] if isinstance(geo, list) else None, **detail)
    return why is None


def _run_laser(case, ctx):
    from cherab.core.laser import Laser
    ctx.cls("laser-history")
    profs = case["profiles"]
    params = [dict(p["params"]) for p in profs]
    objs = [_mk_profile(p["cls"], q) for p, q in zip(profs, params)]
    cur = 0
    laser = Laser()
    laser.laser_profile = objs[0]
    done = ["attach"]
    _judge_placement(ctx, laser, params[0]["laser_radius"], params[0]["laser_length"], "attach")
    for op in case["ops"]:
        n_before = len(laser.get_geometry())
        if op[0] == "set":
            setattr(objs[cur], op[1], op[2])
            params[cur][op[1]] = op[2]
            label = op[1]
        elif op[0] == "reassign_same":
            laser.laser_profile = laser.laser_profile
            label = "reassign-same-profile"
        else:
            cur = op[1]
            laser.laser_profile = objs[cur]
            label = "replace-profile"
        R, L = params[cur]["laser_radius"], params[cur]["laser_length"]
        n_want = max(1, int(L // (2 * R)))
        ctx.cls("laser-op:%s:%s" % (label, "same-count" if n_want == n_before else "other-count"))
        ok = _judge_placement(ctx, laser, R, L, label, history=done[-6:])
        # a brand-new Laser with a brand-new profile of the same parameters
        flaser = Laser()
        flaser.laser_profile = _mk_profile(profs[cur]["cls"], params[cur])
        a = np.array(sorted(_segments(laser.get_geometry())), dtype=float).ravel()
        b = np.array(sorted(_segments(flaser.get_geometry())), dtype=float).ravel()
        bad, g, w, t = _cmp(ctx, a, b, 1e-12 * np.abs(b) + 1e-300, "hist_geometry")
        if ok and (bad is None or bad.any()):
            ctx.viol("tiling:laser-geometry-differs-from-fresh-laser-after:" + label,
                     "after this operation the Laser's segments differ from those of a freshly built Laser with an equal profile",
                     history=done[-6:], n_live=len(a) // 4, n_fresh=len(b) // 4)
        done.append(label)
        ctx.nontrivial()


def _run_tiling(case, ctx):
    radius, length, how = case["radius"], case["length"], case["how"]
    ctx.cls("tiling:" + case["tclass"])
    ctx.cls("tiling-via:" + how)
    if how == "function":
        from cherab.core.model.laser.profile import generate_segmented_cylinder
        _judge_tiling(ctx, generate_segmented_cylinder(radius, length), radius, length, "generate_segmented_cylinder")
        return
    cls = case["cls"]
    P = dict(_FIXED_PROFILE[cls], laser_radius=radius, laser_length=length)
    p = _mk_profile(cls, P)
    if how == "profile":
        _judge_tiling(ctx, p.generate_geometry(), radius, length, cls + ".generate_geometry")
        return
    from cherab.core.laser import Laser
    laser = Laser()
    laser.laser_profile = p
    geo = laser.get_geometry()
    if _judge_tiling(ctx, geo, radius, length, "Laser.get_geometry"):
        ctx.check(all(s.parent is laser for s in geo) and len(laser.children) == len(geo),
                  "tiling:laser-children-not-the-segments", "the Laser node's children are not exactly the generated segments",
                  monitor="tiling_struct")


_FIXED_PROFILE = {
    "UniformEnergyDensity": dict(energy_density=1.0, laser_radius=0.05, laser_length=1.0, polarization=[0.0, 1.0, 0.0]),
    "ConstantBivariateGaussian": dict(pulse_energy=1.0, pulse_length=1e-8, laser_radius=0.05, laser_length=1.0, stddev_x=0.01,
                                      stddev_y=0.02, polarization=[0.0, 1.0, 0.0]),
    "TrivariateGaussian": dict(pulse_energy=1.0, pulse_length=1e-8, mean_z=0.3, laser_radius=0.05, laser_length=1.0,
                               stddev_x=0.01, stddev_y=0.02, polarization=[0.0, 1.0, 0.0]),
    "GaussianBeamAxisymmetric": dict(pulse_energy=1.0, pulse_length=1e-8, laser_radius=0.05, laser_length=1.0, waist_z=0.5,
                                     stddev_waist=1e-3, laser_wavelength=1060.0, polarization=[0.0, 1.0, 0.0]),
}


# ------------------------------------------------------------------------------------------------
# binned spectra
# ------------------------------------------------------------------------------------------------

def _ulp(x):
    return float(np.spacing(abs(x)))


def _norm_interval(a, b):
    """P(a < Z < b) for a standard normal, accurate in both tails (no erf cancellation)."""
    from scipy.special import ndtr
    a = np.asarray(a, dtype=float)
    b = np.asarray(b, dtype=float)
    up = a > 0
    return np.where(up, ndtr(-a) - ndtr(-b), ndtr(b) - ndtr(a))


def _bin_reference(cls, mn, mx, bins, mean=None, stddev=None):
    """exact per-bin integrals of the documented unit-power density over the nominal bins + computed tolerances"""
    delta = (mx - mn) / bins
    i = np.arange(bins, dtype=float)
    lo = mn + i * delta
    hi = mn + (i + 1.0) * delta
    edge = 6.0 * (i + 10.0) * _ulp(mx)          # rounding of double-precision edges around lambda ~ max
    if cls == "ConstantSpectrum":
        want = np.full(bins, 1.0 / bins)         # overlap of a nominal bin with [min, max] is the whole bin
        tol = want * (1e-12 + edge / delta)
        total, total_tol = 1.0, 1e-12
        return lo, hi, want, tol, total, total_tol
    a = (lo - mean) / stddev
    b = (hi - mean) / stddev
    want = _norm_interval(a, b)
    # largest density inside each bin (at the point closest to the mean)
    d = np.where((lo <= mean) & (mean <= hi), 0.0, np.minimum(np.abs(a), np.abs(b)))
    pdfmax = np.exp(-0.5 * d * d) / (stddev * math.sqrt(2 * math.pi))
    tol = 1e-9 * want + 1e-15 + pdfmax * edge
    za, zb = (mn - mean) / stddev, (mx - mean) / stddev
    total = float(_norm_interval(za, zb))
    pdf_e = (math.exp(-0.5 * za * za) + math.exp(-0.5 * zb * zb)) / (stddev * math.sqrt(2 * math.pi))
    total_tol = 1e-12 + bins * 3e-16 + pdf_e * 6.0 * (bins + 10.0) * _ulp(mx)
    return lo, hi, want, tol, total, total_tol


def _run_spectrum(case, ctx):
    cls, mn, mx, bins = case["cls"], case["min"], case["max"], case["bins"]
    mean, sd = case.get("mean"), case.get("stddev")
    ctx.cls("spectrum:%s%s:%s" % (cls, (":" + case["mclass"]) if cls == "GaussianSpectrum" else "",
                                  "1bin" if bins == 1 else ("few" if bins < 40 else "many")))
    S = dict(min_wavelength=mn, max_wavelength=mx, bins=bins, mean=mean, stddev=sd)
    s = _mk_spectrum(cls, S)
    psd = np.array(s.power_spectral_density, dtype=float)
    delta = float(s.delta_wavelength)
    if not ctx.check(psd.shape == (bins,), "bins:%s:wrong-number-of-bins" % cls,
                     "power_spectral_density does not have `bins` entries", monitor="spectrum_struct", shape=list(psd.shape)):
        return
    power = psd * delta
    lo, hi, want, tol, total, total_tol = _bin_reference(cls, mn, mx, bins, mean, sd)
    ctx.nontrivial()
    bad, g, w, t = _cmp(ctx, power, want, tol, "bins")
    halved = 0
    if bad.any():
        idx = np.flatnonzero(bad)
        edge_half = [int(i) for i in idx if cls == "ConstantSpectrum" and i in (0, bins - 1)
                     and abs(g[i] - 0.5 * w[i]) <= 1e-9 * w[i]]
        other = [int(i) for i in idx if int(i) not in edge_half]
        halved = len(edge_half)
        if edge_half:
            i = edge_half[-1]
            ctx.viol("bins:ConstantSpectrum:edge-bin-half-power",
                     "first/last bin of a ConstantSpectrum carries half of its power (bin edge falls outside [min,max] by rounding)",
                     index=i, got=float(g[i]), want=float(w[i]), bins=bins, which=["first" if j == 0 and bins > 1 else "last" for j in edge_half])
        if other:
            i = other[0]
            ctx.viol("bins:%s:bin-power-not-bin-integral" % cls,
                     "power in a bin differs from the integral of the unit-power spectral density over that bin",
                     index=i, got=float(g[i]), want=float(w[i]), tol=float(t[i]), n_bad=len(other), bins=bins)
    # sum of the bins against the in-range fraction of the line
    tot = float(power.sum())
    sbad, _, _, _ = _cmp(ctx, tot, total, total_tol, "sum")
    if sbad.any():
        if cls == "ConstantSpectrum" and halved and abs(tot - (1.0 - halved * 0.5 / bins)) <= 1e-9:
            ctx.viol("sum:ConstantSpectrum:edge-bin-half-power",
                     "bins of a ConstantSpectrum do not sum to 1 because an edge bin carries half of its power",
                     got=tot, want=total, bins=bins, halved_edge_bins=halved)
        else:
            ctx.viol("sum:%s:not-the-in-range-fraction" % cls,
                     "sum of the bin powers differs from the integral of the unit-power density over [min, max]",
                     got=tot, want=total, tol=total_tol, bins=bins)
    spans = cls == "ConstantSpectrum" or ((mean - mn) >= 9.0 * sd and (mx - mean) >= 9.0 * sd)
    if spans:
        ubad, _, _, _ = _cmp(ctx, tot, 1.0, 1e-12 + bins * 3e-16, "sum_unity")
        if ubad.any() and not (cls == "ConstantSpectrum" and halved):
            ctx.viol("sum:%s:not-unity-when-range-spans-line" % cls,
                     "bin powers do not sum to one although the range spans the line", got=tot, bins=bins)
    # the callable density against the documented density (strictly inside / outside the range)
    w_ = mx - mn
    xs = [mn + w_ * f for f in (0.013, 0.25, 0.5, 0.77, 0.991)] + [mn - 0.37 * w_, mx + 0.21 * w_]
    if cls == "ConstantSpectrum":
        ref = [1.0 / w_] * 5 + [0.0, 0.0]
        dt = [1e-13 / w_] * 7
    else:
        xs += [mean, mean + sd, mean - 2.5 * sd]
        ref = [math.exp(-0.5 * ((x - mean) / sd) ** 2) / (sd * math.sqrt(2 * math.pi)) for x in xs]
        # exponent rounding: |d(arg^2/2)| <= 4 eps arg^2  (+ cancellation of x - mean at lambda ~ 1000 nm)
        dt = [r * (1e-12 + abs((x - mean) / sd) * 4 * _ulp(max(abs(x), mean)) / sd) + 1e-300 for r, x in zip(ref, xs)]
    _judge(ctx, [s(x) for x in xs], ref, np.array(dt), "density:%s:not-the-documented-unit-power-density" % cls,
           "the spectrum evaluated as a function differs from the documented unit-power spectral density", "density")
    wl = np.array(s.wavelengths, dtype=float)
    _judge(ctx, wl, 0.5 * (lo + hi), 3.0 * (np.arange(bins) + 10.0) * _ulp(mx), "wavelengths:%s:not-bin-centres" % cls,
           "wavelengths are not the centres of the bins", "wavelengths")


# ------------------------------------------------------------------------------------------------
# histories
# ------------------------------------------------------------------------------------------------

def _profile_points(P):
    sx = P.get("stddev_x", P.get("stddev_waist", P["laser_radius"]))
    sy = P.get("stddev_y", sx)
    L = P["laser_length"]
    zc = P.get("mean_z", P.get("waist_z", 0.5 * L))
    dz = C_LIGHT * P["pulse_length"] if "mean_z" in P else 0.37 * L
    pts = []
    for z in (0.0, 0.5 * L, zc, zc + dz):
        pts += [(0.0, 0.0, z), (sx, 0.0, z), (0.0, -sy, z), (-0.7 * sx, 1.3 * sy, z)]
    return pts


def _observe_profile(p, laser, pts):
    o = {}
    o["energy_density"] = np.array([p.get_energy_density(*q) for q in pts])
    v = [p.get_polarization(*pts[0]), p.get_polarization(*pts[-1])]
    o["polarization"] = np.array([[a.x, a.y, a.z] for a in v]).ravel()
    a = p.get_pointing(*pts[1])
    o["pointing"] = np.array([a.x, a.y, a.z])
    o["geometry"] = np.array(sorted(_segments(p.generate_geometry())), dtype=float).ravel()
    if laser is not None:
        geo = laser.get_geometry()
        o["laser_geometry"] = np.array(sorted(_segments(geo)), dtype=float).ravel()
        o["laser_children"] = np.array([float(len(laser.children)), float(all(s.parent is laser for s in geo))])
    return o


def _observe_spectrum(s, S):
    o = {}
    o["wavelengths"] = np.array(s.wavelengths, dtype=float)
    o["power_spectral_density"] = np.array(s.power_spectral_density, dtype=float)
    o["delta_wavelength"] = np.array([s.delta_wavelength, s.get_delta_wavelength()])
    w = S["max_wavelength"] - S["min_wavelength"]
    xs = [S["min_wavelength"] + w * f for f in (-0.4, 0.02, 0.3, 0.5, 0.81, 0.97, 1.3)]
    if "mean" in S:
        xs += [S["mean"], S["mean"] + 0.8 * S["stddev"]]
    o["density"] = np.array([s(x) for x in xs])
    return o


_HMON = {"energy_density": "hist_energy_density", "polarization": "hist_polarization", "pointing": "hist_polarization",
         "geometry": "hist_geometry", "laser_geometry": "hist_geometry", "laser_children": "hist_geometry",
         "wavelengths": "hist_wavelengths", "power_spectral_density": "hist_psd", "delta_wavelength": "hist_wavelengths",
         "density": "hist_density"}


def _diff(ctx, live, fresh):
    """names of observables on which live and fresh disagree (rtol 1e-12: both ran the same arithmetic)"""
    out = {}
    for k, f in fresh.items():
        l_ = live[k]
        bad, g, w, t = _cmp(ctx, l_, f, 1e-12 * np.abs(f).ravel() + 1e-300, _HMON[k])
        if bad is None:
            out[k] = dict(shape_live=list(np.shape(l_)), shape_fresh=list(np.shape(f)))
        elif bad.any():
            i = int(np.argmax(bad))
            out[k] = dict(index=i, live=float(g[i]), fresh=float(w[i]), n_bad=int(bad.sum()))
    return out


def _reported(ctx, obj, M, cls, seen, rejected=None):
    """every reported accessor against the value that was set (the parameters a fresh object would be built from)"""
    wrong = []
    if cls in SPECTRA:
        d = (M["max_wavelength"] - M["min_wavelength"]) / M["bins"]
        exp = [("min_wavelength", obj.min_wavelength, M["min_wavelength"], 0.0),
               ("max_wavelength", obj.max_wavelength, M["max_wavelength"], 0.0),
               ("bins", obj.bins, M["bins"], 0.0),
               ("get_min_wavelenth", obj.get_min_wavelenth(), M["min_wavelength"], 0.0),
               ("get_max_wavelenth", obj.get_max_wavelenth(), M["max_wavelength"], 0.0),
               ("get_spectral_bins", obj.get_spectral_bins(), M["bins"], 0.0),
               ("delta_wavelength", obj.delta_wavelength, d, 4e-16 * d),
               ("get_delta_wavelength", obj.get_delta_wavelength(), d, 4e-16 * d)]
        if cls == "GaussianSpectrum":
            exp += [("mean", obj.mean, M["mean"], 0.0), ("stddev", obj.stddev, M["stddev"], 0.0)]
        wl = np.array(obj.wavelengths, dtype=float)
        ok = wl.shape == (M["bins"],)
        ref = M["min_wavelength"] + (np.arange(M["bins"]) + 0.5) * d
        if ok:
            bad, _, _, _ = _cmp(ctx, wl, ref, 8 * np.spacing(ref), "reported")
            ok = not bad.any()
        if not ok:
            wrong.append("wavelengths")
        if not ok and "wavelengths" not in seen:
            seen.add("wavelengths")
            ctx.viol(("rejected:%s.%s:reported-parameter-changed:wavelengths" % rejected) if rejected else
                     "reported:%s.wavelengths:not-bin-centres-of-set-range" % _defcls(obj, "wavelengths"),
                     "wavelengths are not min + (i + 1/2) (max - min) / bins of the parameters that were set")
    else:
        exp = [(n, getattr(obj, n), M[n], 0.0) for n in PROFILE_PARAMS[cls]]
        # direction only (the statement does not say the reported vector has unit length)
        u = np.array(M["polarization"], dtype=float)
        u = u / np.linalg.norm(u)
        a = obj.get_polarization(0.0, 0.0, 0.0)
        a = np.array([a.x, a.y, a.z])
        na = float(np.linalg.norm(a))
        a = a / na if na > 0 and math.isfinite(na) else a * float("nan")
        for c, g_, w_ in (("x", a[0], u[0]), ("y", a[1], u[1]), ("z", a[2], u[2])):
            exp.append(("get_polarization." + c, g_, w_, 1e-14))
    for name, got, want, tol in exp:
        bad, _, _, _ = _cmp(ctx, float(got), float(want), tol, "reported")
        if bad.any():
            wrong.append(name)
        if bad.any() and name not in seen:
            seen.add(name)
            base = name.split(".")[0]
            ctx.viol(("rejected:%s.%s:reported-parameter-changed:" % rejected + name) if rejected else
                     "reported:%s.%s:differs-from-set-value" % (_defcls(obj, base), name),
                     "a reported parameter differs from the value the object was given", accessor=name, got=float(got),
                     want=float(want))
    return wrong


def _same_arg_probes(cls, M):
    """arguments for the same-argument-again probe, taken from the parameters BEFORE the setter"""
    if cls in PROFILES:
        sx = M.get("stddev_x", M.get("stddev_waist", M["laser_radius"]))
        sy = M.get("stddev_y", sx)
        L = M["laser_length"]
        zc = M.get("mean_z", M.get("waist_z", 0.31 * L))
        return [(0.0, 0.0, 0.5 * L), (-0.9 * sx, 0.35 * sy, zc), (0.45 * sx, -0.8 * sy, 0.23 * L)]
    w = M["max_wavelength"] - M["min_wavelength"]
    xs = [M["min_wavelength"] + f * w for f in (0.12, 0.5, 0.83)]
    if "mean" in M:
        xs.append(M["mean"] + 0.6 * M["stddev"])
    return dict(x=xs, bin=[0, (M["bins"] - 1) // 2, M["bins"] - 1])


def _same_arg_eval(obj, cls, probes, reverse=False, M=None):
    """evaluate the observables at the probe arguments (reverse: last argument first, i.e. the most recently asked one)"""
    if cls in PROFILES:
        pts = list(reversed(probes)) if reverse else probes
        out = {"energy_density": [obj.get_energy_density(*q) for q in pts]}
        v = [obj.get_polarization(*q) for q in pts[:2]] + [obj.get_pointing(*q) for q in pts[:2]]
        out["polarization"] = [c for a in v[:2] for c in (a.x, a.y, a.z)]
        out["pointing"] = [c for a in v[2:] for c in (a.x, a.y, a.z)]
        return out
    xs = list(reversed(probes["x"])) if reverse else probes["x"]
    out = {"density": [obj(x) for x in xs]}
    psd, wl = obj.power_spectral_density, obj.wavelengths
    n = len(psd)
    idx = [i for i in probes["bin"] if i < (n if M is None else min(n, M["bins"]))]
    out["power_spectral_density"] = [float(psd[i]) for i in idx] + [float(n)]
    out["wavelengths"] = [float(wl[i]) for i in idx] + [float(len(wl))]
    return out


INVALID_KINDS = {
    "positive": ("zero", "negative", "nan", "inf", "str", "none"),
    "real": ("nan", "inf", "str", "none"),
    "bins": ("zero", "negative", "fraction", "str", "none"),
    "polarization": ("zero-vector", "str"),      # not None: Cython lets None through a typed Vector3D argument (crash, not a refusal)
}


def _invalid_kinds(name):
    if name in ("mean_z", "waist_z"):
        return INVALID_KINDS["real"]
    if name in ("bins", "polarization"):
        return INVALID_KINDS[name]
    extra = ("not-below-max",) if name == "min_wavelength" else (("not-above-min",) if name == "max_wavelength" else ())
    return INVALID_KINDS["positive"] + extra


def _invalid_value(name, kind, M):
    if kind == "zero":
        return 0 if name == "bins" else 0.0
    if kind == "negative":
        return -3 if name == "bins" else -(abs(M[name]) or 1.0)
    if kind == "nan":
        return float("nan")
    if kind == "inf":
        return float("inf")
    if kind == "fraction":
        return 2.5
    if kind == "str":
        return "abc"
    if kind == "none":
        return None
    if kind == "not-below-max":
        return M["max_wavelength"]
    if kind == "not-above-min":
        return M["min_wavelength"]
    if kind == "zero-vector":
        return [0.0, 0.0, 0.0]
    raise KeyError(kind)


def _run_history(case, ctx):
    """live object driven by the setter history; after construction and after every setter it is compared with
    D = an object constructed directly from the modelled parameters (all keywords, or default-valued ones omitted) and
    S = an object constructed from different values and brought to the modelled parameters through every setter."""
    cls, ops = case["cls"], case["ops"]
    via = case.get("via", "direct")
    ctx.cls("history:" + cls)
    M = dict(case["init"])
    is_prof = cls in PROFILES
    laser = None
    if is_prof:
        from raysect.core import Vector3D
        from cherab.core.laser import Laser
        live = _mk_profile(cls, M, via, ctx)
        if case.get("attach"):
            laser = Laser()
            laser.laser_profile = live
    else:
        live = _mk_spectrum(cls, M)
    seen = set()
    prev = set()
    kinds = set()
    rejected_before = []
    wrong_prev = set()
    corrupting = []       # refused assignments after which the object's state or reported parameters had changed
    for step, (name, value) in enumerate([(None, None)] + [tuple(o) for o in ops]):
        setter = None
        rejected_now = None
        if name is not None:
            # apply to the live object through the public API, and to the model
            invalid = value["invalid"] if isinstance(value, dict) else None
            if invalid is not None:
                value = _invalid_value(name, invalid, M)
            was_noop = bool(invalid is None and name != "reassign_same" and value == M[name])
            kinds.add("rejected" if invalid else ("noop" if was_noop else "change"))
            # "same argument again right after a state change": the observables are asked at a few arguments right
            # before the setter, and the FIRST calls after it repeat exactly those arguments, last one first
            probes = _same_arg_probes(cls, M)
            _same_arg_eval(live, cls, probes)
            setter = "set_polarization" if name == "polarization" else name
            raised = None
            try:
                if name == "reassign_same":
                    if laser is not None:
                        laser.laser_profile = laser.laser_profile
                elif name == "polarization":
                    live.set_polarization(Vector3D(*value) if isinstance(value, list) else value)
                else:
                    setattr(live, name, value)
            except Exception as e:  # noqa  (judged below: allowed only for a value outside the parameter's domain)
                raised = e
            who = (_defcls(live, setter), setter)
            if invalid is None and raised is not None:
                # a legal assignment must work (as it would on a freshly constructed object)
                if corrupting:
                    ctx.viol("rejected:%s.%s:later-legal-setter-raises" % corrupting[-1],
                             "after an assignment was rejected, a later legal assignment raises although the same "
                             "assignment works on a freshly constructed object",
                             rejected=["%s.%s" % r for r in rejected_before], legal_setter="%s.%s" % who, value=value,
                             exception="%s: %s" % (type(raised).__name__, str(raised)[:200]))
                else:
                    ctx.viol("history:%s.%s:legal-assignment-raises:%s" % (who + (type(raised).__name__,)),
                             "a legal parameter assignment raises", value=value, exception=str(raised)[:200])
                ctx.mon("legal_setter_raised")
                break
            if invalid is not None:
                ctx.cls("rejected-kind:" + invalid)
                if raised is None:
                    # the statement does not say which values a setter must refuse: an accepted out-of-domain value
                    # ends the history unjudged
                    ctx.skip("out-of-domain-value-accepted:%s.%s:%s" % (who + (invalid,)))
                    break
                # a refusal is judged only if no object can be constructed with that value either (then the pre-assignment
                # state is the only consistent one); a value the constructor takes (NaN, inf: no setter refuses those) is in
                # the class's accepted domain and the exception came from a side effect -> unjudged
                try:
                    trial = dict(M)
                    trial[name] = value
                    _mk_profile(cls, trial) if is_prof else _mk_spectrum(cls, trial)
                    constructible = True
                except Exception:  # noqa
                    constructible = False
                if constructible:
                    ctx.skip("refused-value-is-constructible:%s.%s:%s" % (who + (invalid,)))
                    break
                ctx.mon("rejected")
                rejected_now = who
                rejected_before.append(who)
            same_arg_live = _same_arg_eval(live, cls, probes, reverse=True)
            if name != "reassign_same" and invalid is None:
                M[name] = value
        if laser is not None:
            _judge_placement(ctx, laser, M["laser_radius"], M["laser_length"], setter or "attach")
        # brand-new objects (and Laser nodes) from the modelled parameters: direct and through the setters
        if is_prof:
            objs = [_mk_profile(cls, M, via, ctx), _mk_profile(cls, M, "setters")]
            lasers = [None, None]
            if laser is not None:
                for k in (0, 1):
                    lasers[k] = Laser()
                    lasers[k].laser_profile = objs[k]
            pts = _profile_points(M)
            lo = _observe_profile(live, laser, pts)
            do, so = (_observe_profile(o, l_, pts) for o, l_ in zip(objs, lasers))
            _judge_formula(ctx, cls, live, M, seen)
            _judge_formula(ctx, cls, objs[0], M, seen)
        else:
            objs = [_mk_spectrum(cls, M), _mk_spectrum(cls, M, "setters")]
            lo = _observe_spectrum(live, M)
            do, so = (_observe_spectrum(o, M) for o in objs)
        if setter is not None:
            ref = _same_arg_eval(objs[0], cls, probes, reverse=True, M=M)
            for obs in ref:
                f = np.asarray(ref[obs], dtype=float)
                bad, g, w, t = _cmp(ctx, same_arg_live[obs], f, 1e-12 * np.abs(f).ravel() + 1e-300, "same_arg")
                if (bad is None or bad.any()) and ("same_arg", obs) not in seen:
                    seen.add(("same_arg", obs))
                    i = 0 if bad is None else int(np.argmax(bad))
                    ctx.viol((("rejected:%s.%s:state-changed:" % rejected_now) if rejected_now else
                              "history:%s.%s:stale:" % (_defcls(live, setter), setter)) + obs + ":same-argument-first-call",
                             "asked for the same argument right before and as the first call right after this setter, the live "
                             "object's %s differs from that of an object constructed directly with the final parameters" % obs,
                             setter=setter, observable=obs, index=i, live=None if bad is None else float(g[i]),
                             direct=None if bad is None else float(w[i]), n_bad=None if bad is None else int(bad.sum()))
        ctx.mon("hist_steps")
        ctx.mon("construct_paths")
        ctx.nontrivial()
        m_ld, m_ls, m_ds = _diff(ctx, lo, do), _diff(ctx, lo, so), _diff(ctx, do, so)
        for obs in sorted(m_ds):
            if ("construct", obs) not in seen:
                seen.add(("construct", obs))
                ctx.viol("construct:%s:direct-construction-vs-setter-path:%s" % (cls, obs),
                         "an object constructed directly with the final parameters and one that reached them through its "
                         "setters from different values disagree on %s" % obs,
                         observable=obs, step=step, default_keywords_omitted=(via == "omit"),
                         **{("direct" if k == "live" else "via_setters" if k == "fresh" else k): v for k, v in m_ds[obs].items()})
        stale = set(m_ld) & set(m_ls)
        if setter is not None:
            for obs in sorted(stale - prev):
                ctx.viol((("rejected:%s.%s:state-changed:" % rejected_now) if rejected_now else
                          "history:%s.%s:stale:" % (_defcls(live, setter), setter)) + obs,
                         "after this setter the live object's %s differs from freshly built objects'" % obs,
                         setter=setter, observable=obs, noop_assignment=was_noop,
                         **m_ld[obs])
        wrong = set(_reported(ctx, live, M, cls, seen, rejected=rejected_now))
        if rejected_now and ((wrong - wrong_prev) or (stale - prev)):
            corrupting.append(rejected_now)
        wrong_prev = wrong
        prev = stale
        if step == 0:
            _reported(ctx, objs[1], M, cls, seen)
    for k in kinds:
        ctx.cls("history-op:" + k)


def run_case(case, ctx):
    kind = case["kind"]
    if kind == "quad":
        _run_quad(case, ctx)
    elif kind == "tiling":
        _run_tiling(case, ctx)
    elif kind == "spectrum":
        _run_spectrum(case, ctx)
    elif kind == "history":
        _run_history(case, ctx)
    elif kind == "laser":
        _run_laser(case, ctx)
    else:
        raise ValueError("unknown case kind %r" % kind)
