"""C20 — derivative and ADMT operators discretise the operators they claim to.

Monitors (all on the real generate_derivative_operators / calculate_admt):
  deriv  : constants -> 0 (all five operators, every cell); linear -> exact gradient in every cell;
           bilinear -> exact mixed derivative in every cell; quadratic -> exact Dxx (cells not in the
           first/last column) and Dyy (cells not in the first/last row).
  admt   : (i) finite, L @ 1 = 0; (ii) anisotropy 1 => L = sqrt(dx dy) (Dxx + Dyy + diag(1/R) Dx) built from
           the returned operators, for any psi; (iii) quadratic psi, quadratic f: in cells at distance >= 2 from
           the boundary every discrete ingredient is exact, so L f must equal the analytic
           sqrt(dx dy) [div(D grad f) + (1/R)(D_xx f_x + D_xy f_y)], D = Dpar b b^T + Dperp n n^T.
"""
import copy
import numpy as np

ID = "C20"
LEVEL = "exploration"
RULE = ("random rectangular grids (n_x, n_y in 2..14, a few with 1030..1400 cells; dx != dy in 1e-3..1, origin R0 0.2..10) built as voxel-vertex "
        "arrays (float64 / float32 / integer; vertices listed from any corner in either sense, one listing per grid or a different one per voxel) "
        "+ index maps (1-D numbering down the columns as documented, or along the rows; y decreasing with iy), operator dicts handed to "
        "calculate_admt in any key order, random polynomial fields; "
        "'deriv' cases drive the five derivative operators, 'admt' cases drive calculate_admt with linear / quadratic / "
        "cubic flux maps whose gradient is bounded away from zero and anisotropy 1..1e4; a case is non-trivial when at "
        "least one exactness comparison was evaluated on a cell (distinct = distinct grid+field descriptors)")
LEVEL_TEXT = ("Exploration by runtime reference-model monitoring: every generated grid/field is pushed through the real "
              "operator builders and compared with closed-form polynomial derivatives and the analytic anisotropic "
              "diffusion operator on the classes where the discrete operators are exact; right level because the "
              "property quantifies over continuous inputs and the code is deterministic NumPy")
LEVEL_NOTE = ("trusted: the analytic derivative formulas in this module; 'consistent discretisation for any smooth flux "
              "map' is restated as exactness on polynomial classes + the anisotropy-1 algebraic identity")
TECHNIQUE = "runtime monitoring: reference-model oracle (exact polynomial derivatives, analytic ADMT) over generated grids"
ASSUMPTIONS = ["voxels are equal rectangles; the index maps give (column, row) with the row index increasing as y decreases (module docstring); the 1-D numbering runs down the columns or along the rows",
               "flux maps have |grad psi| >= 0.2 max|grad psi| on the grid (quantifier: non-vanishing gradient)"]
QUICK = dict(cases=400, workers=2, timecap=60)
THOROUGH = dict(cases=40000, workers=16, timecap=600)
REQUIRED = {"const": 1000, "linear": 1000, "bilinear": 500, "quadratic": 200, "admt_finite": 50, "admt_const": 50,
            "admt_iso": 50, "admt_analytic": 50, "admt_scale": 100, "sibling": 300,
            "vertex_order_uniform": 25, "vertex_order_mixed": 15, "large_grid": 2, "row_numbering": 25, "opdict_reordered": 25, "inputs_untouched": 200, "anisotropy_per_voxel": 5}


def gen_case(rng, tier):
    nx = int(rng.integers(2, 15))
    ny = int(rng.integers(2, 15))
    if rng.random() < 0.15:
        nx = 2
    if rng.random() < 0.15:
        ny = 2
    dx = float(10 ** rng.uniform(-3, 0))
    dy = float(10 ** rng.uniform(-3, 0))
    if rng.random() < 0.1:
        dy = dx
    R0 = float(rng.uniform(0.2, 10))
    Z0 = float(rng.uniform(-5, 5))
    kind = "deriv" if rng.random() < 0.4 else "admt"
    case = dict(kind=kind, nx=nx, ny=ny, dx=dx, dy=dy, R0=R0, Z0=Z0)
    if rng.random() < 0.2:
        # integer-valued vertex coordinates (pixel / millimetre grids), handed over as an integer array or as int tuples
        case.update(dx=float(2 * rng.integers(1, 4)), dy=float(2 * rng.integers(1, 4)), R0=float(rng.integers(1, 20)),
                    Z0=float(rng.integers(-10, 10)), vertex_kind=["int_array", "int_tuples", "float32_array"][int(rng.integers(3))])
    # the vertices of a voxel may be listed from any corner and in either sense (only their mean is documented to matter):
    # one listing for the whole grid ('uniform') or a different one per voxel ('mixed')
    r = rng.random()
    if r < 0.25:
        case["vorder"] = dict(mode="uniform", start=int(rng.integers(4)), rev=bool(rng.random() < 0.5))
    elif r < 0.40:
        case["vorder"] = dict(mode="mixed", seed=int(rng.integers(2 ** 31)))
    # the index maps describe the layout; the 1-D numbering itself may run down the columns (Ingesson) or along the rows
    if rng.random() < 0.25:
        case["numbering"] = "row"
    # calculate_admt documents a dict of named operators: hand it over with the keys in another order half of the time
    if rng.random() < 0.5:
        case["opdict_order"] = [int(k) for k in rng.permutation(5)]
    # grids with more than 1024 cells (the operators are dense n x n arrays: keep them rare)
    if rng.random() < (0.02 if tier == "quick" else 0.01):
        case["nx"] = nx = int(rng.integers(26, 41))
        case["ny"] = ny = int(np.ceil(rng.integers(1030, 1400) / nx))
        case["large"] = True
    # polynomial coefficients in normalised coordinates u=(x-xc)/Lx, v=(y-yc)/Ly, |u|,|v|<=1/2
    case["f"] = [float(c) for c in rng.normal(size=10)]          # 1,u,v,u2,uv,v2,u3,u2v,uv2,v3
    if kind == "admt":
        pk = ["linear", "quadratic", "quadratic", "cubic"][int(rng.integers(4))]
        # dominant linear part so that |grad psi| stays away from zero
        th = rng.uniform(0, 2 * np.pi)
        g = 10 ** rng.uniform(-1, 1)
        psi = [float(rng.normal()), float(g * np.cos(th)), float(g * np.sin(th))]
        s = g * rng.uniform(0.05, 0.6)
        psi += [float(c) for c in s * rng.normal(size=3)] if pk != "linear" else [0.0, 0.0, 0.0]
        psi += [float(c) for c in 0.5 * s * rng.normal(size=4)] if pk == "cubic" else [0.0, 0.0, 0.0, 0.0]
        case["psi_kind"] = pk
        case["psi"] = psi
        an = [1, 1.0, 10, float(10 ** rng.uniform(0, 4)), float(rng.uniform(1, 3))][int(rng.integers(5))]
        case["anisotropy"] = an
        if rng.random() < 0.12:
            # one factor per voxel: D_perp = 1/anisotropy = a0 + a1 u + a2 v with values in [0.02, 1]
            lo = float(10 ** rng.uniform(-1.7, -0.3))
            hi = float(rng.uniform(lo * 1.5, 1.0)) if lo * 1.5 < 1.0 else 1.0
            th2 = rng.uniform(0, 2 * np.pi)
            amp = 0.5 * (hi - lo) / (abs(np.cos(th2)) / 2 + abs(np.sin(th2)) / 2 + 1e-12) * 0.98
            case["an_field"] = [float(0.5 * (hi + lo)), float(amp * np.cos(th2)), float(amp * np.sin(th2))]
        # the operator does not depend on the scale (units) of the flux map: drive tiny and huge flux values as well
        if rng.random() < 0.5:
            case["psi_scale"] = float(10 ** rng.uniform(-12, 8))
    return case


def fixed_cases(tier):
    base = dict(nx=5, ny=6, dx=0.02, dy=0.035, R0=1.5, Z0=-0.3, f=[0.3, 1.0, -0.7, 0.5, 0.8, -0.4, 0, 0, 0, 0])
    ib = dict(base, dx=2.0, dy=4.0, R0=3.0, Z0=-2.0)
    out = [dict(ib, kind="deriv", vertex_kind="int_tuples"), dict(ib, kind="deriv", vertex_kind="int_array"),
           dict(ib, kind="admt", nx=7, ny=8, vertex_kind="int_array", psi_kind="quadratic", psi=[0.1, 2.0, 1.0, 0.3, 0.45, -0.2, 0, 0, 0, 0], anisotropy=1),
           dict(base, kind="deriv"), dict(base, kind="deriv", nx=2, ny=2), dict(base, kind="deriv", nx=2, ny=7),
           dict(base, kind="admt", psi_kind="quadratic", psi=[0.1, 2.0, 1.0, 0.3, 0.45, -0.2, 0, 0, 0, 0], anisotropy=1),
           dict(base, kind="admt", nx=8, ny=9, psi_kind="quadratic", psi=[0.1, 2.0, 1.0, 0.3, 0.45, -0.2, 0, 0, 0, 0], anisotropy=10),
           dict(base, kind="admt", nx=8, ny=9, psi_kind="cubic", psi=[0.1, 2.0, 1.0, 0.3, 0.45, -0.2, .1, -.1, .2, .05], anisotropy=1.0),
           dict(base, kind="admt", nx=2, ny=2, psi_kind="linear", psi=[0.1, 2.0, 1.0, 0, 0, 0, 0, 0, 0, 0], anisotropy=100.0)]
    qpsi = [0.1, 2.0, -1.4, 0.5, 0.45, -0.4, 0, 0, 0, 0]
    out += [dict(base, kind="deriv", vorder=dict(mode="uniform", start=1, rev=False)),
            dict(base, kind="deriv", vorder=dict(mode="uniform", start=2, rev=True)),
            dict(base, kind="deriv", vorder=dict(mode="mixed", seed=7)),
            dict(base, kind="admt", nx=8, ny=9, psi_kind="quadratic", psi=qpsi, anisotropy=10, vorder=dict(mode="mixed", seed=11)),
            dict(base, kind="deriv", numbering="row"), dict(base, kind="deriv", nx=2, ny=5, numbering="row"),
            dict(base, kind="admt", nx=8, ny=9, psi_kind="quadratic", psi=qpsi, anisotropy=10, numbering="row", opdict_order=[4, 3, 2, 1, 0]),
            dict(base, kind="admt", nx=8, ny=9, psi_kind="quadratic", psi=qpsi, anisotropy=1, opdict_order=[2, 3, 4, 0, 1]),
            dict(base, kind="deriv", nx=36, ny=30, large=True),
            dict(base, kind="admt", nx=36, ny=30, large=True, psi_kind="quadratic", psi=qpsi, anisotropy=10),
            dict(base, kind="admt", nx=33, ny=32, large=True, psi_kind="quadratic", psi=qpsi, anisotropy=1)]
    return out


# polynomial in normalised coords; returns value and derivatives w.r.t. physical x, y
def _poly(c, x, y, xc, yc, Lx, Ly):
    u = (x - xc) / Lx
    v = (y - yc) / Ly
    c0, cu, cv, cuu, cuv, cvv, c30, c21, c12, c03 = c
    f = c0 + cu * u + cv * v + cuu * u * u + cuv * u * v + cvv * v * v + c30 * u ** 3 + c21 * u * u * v + c12 * u * v * v + c03 * v ** 3
    fu = cu + 2 * cuu * u + cuv * v + 3 * c30 * u * u + 2 * c21 * u * v + c12 * v * v
    fv = cv + cuv * u + 2 * cvv * v + c21 * u * u + 2 * c12 * u * v + 3 * c03 * v * v
    fuu = 2 * cuu + 6 * c30 * u + 2 * c21 * v
    fuv = cuv + 2 * c21 * u + 2 * c12 * v
    fvv = 2 * cvv + 2 * c12 * u + 6 * c03 * v
    return dict(f=f, fx=fu / Lx, fy=fv / Ly, fxx=fuu / Lx ** 2, fxy=fuv / (Lx * Ly), fyy=fvv / Ly ** 2)


def build_grid(case):
    nx, ny, dx, dy, R0, Z0 = case["nx"], case["ny"], case["dx"], case["dy"], case["R0"], case["Z0"]
    verts, m12, m21 = [], {}, {}
    cx, cy, ixs, iys = [], [], [], []
    i = 0
    if case.get("numbering") == "row":
        order = [(ix, iy) for iy in range(ny) for ix in range(nx)]
    else:
        order = [(ix, iy) for ix in range(nx) for iy in range(ny)]
    for ix, iy in order:
        if True:
            h = R0 + (ix + 0.5) * dx
            k = Z0 + (ny - iy - 0.5) * dy     # y decreases with iy
            verts.append([(h + dx / 2, k + dy / 2), (h + dx / 2, k - dy / 2), (h - dx / 2, k - dy / 2), (h - dx / 2, k + dy / 2)])
            m12[i] = (ix, iy)
            m21[(ix, iy)] = i
            ixs.append(ix)
            iys.append(iy)
            i += 1
    verts = np.array(verts)
    cen = verts.mean(axis=1)
    vo = case.get("vorder")
    if vo:
        if vo["mode"] == "uniform":
            verts = np.roll(verts, vo["start"], axis=1)
            if vo["rev"]:
                verts = verts[:, ::-1, :]
        else:
            r2 = np.random.default_rng(vo["seed"])
            for j in range(len(verts)):
                w = np.roll(verts[j], int(r2.integers(4)), axis=0)
                verts[j] = w[::-1] if r2.random() < 0.5 else w
        verts = np.ascontiguousarray(verts)
    vk = case.get("vertex_kind")
    if vk == "int_array":
        assert np.all(verts == np.round(verts))
        verts = verts.astype(np.int64)
    elif vk == "int_tuples":
        assert np.all(verts == np.round(verts))
        verts = [[(int(a), int(b)) for a, b in cell] for cell in verts]
    elif vk == "float32_array":
        verts = verts.astype(np.float32)
    return verts, m12, m21, cen[:, 0], cen[:, 1], np.array(ixs), np.array(iys)


def _sibling_grids(case, ops_first, ctx):
    """Grids with the same number of cells and the same voxel size but a different shape, built in the same process right
    after the case's grid, must get their own operators; building the case's grid again must give identical operators."""
    from cherab.tools.inversions.admt_utils import generate_derivative_operators
    nx, ny = case["nx"], case["ny"]
    n = nx * ny
    shapes = [(ny, nx)] + [(a, n // a) for a in range(2, n // 2 + 1) if n % a == 0 and n // a >= 2 and (a, n // a) not in ((nx, ny), (ny, nx))][:2]
    for sx, sy in shapes:
        if (sx, sy) == (nx, ny):
            continue
        sc = dict(case, nx=sx, ny=sy)
        verts, m12, m21, x, y, ix, iy = build_grid(sc)
        ops = generate_derivative_operators(verts, m12, m21)
        cf = [0.3, 1.0, -0.7, 0, 0.9, 0, 0, 0, 0, 0]
        P = _poly(cf, x, y, x.mean(), y.mean(), sx * case["dx"], sy * case["dy"])
        scale = np.max(np.abs(P["f"])) + 1e-300
        ctx.close(ops["Dx"] @ P["f"], P["fx"], "sibling-grid:Dx", "Dx of a grid built after another grid with the same cell count and voxel size is not exact on a bilinear field",
                  atol=1e-10 * scale / case["dx"], monitor="sibling", shape=[sx, sy], first=[nx, ny])
        ctx.close(ops["Dy"] @ P["f"], P["fy"], "sibling-grid:Dy", "Dy of a grid built after another grid with the same cell count and voxel size is not exact on a bilinear field",
                  atol=1e-10 * scale / case["dy"], monitor="sibling", shape=[sx, sy], first=[nx, ny])
        ctx.close(ops["Dxy"] @ P["f"], P["fxy"], "sibling-grid:Dxy", "Dxy of a grid built after another grid with the same cell count and voxel size is not exact on a bilinear field",
                  atol=1e-10 * scale / (case["dx"] * case["dy"]), monitor="sibling", shape=[sx, sy], first=[nx, ny])
    verts, m12, m21, x, y, ix, iy = build_grid(case)
    again = generate_derivative_operators(verts, m12, m21)
    for nm in ("Dx", "Dy", "Dxx", "Dyy", "Dxy"):
        ctx.check(np.array_equal(again[nm], ops_first[nm]), "history:operators-differ-on-rebuild:%s" % nm,
                  "generate_derivative_operators gives a different %s for the same grid after other grids were built" % nm, monitor="sibling")


class _Suffixed:
    """ctx proxy that appends the vertex-listing class to every violation key (mechanism-level keys)"""

    def __init__(self, ctx, sfx):
        self._c, self._s = ctx, sfx

    def __getattr__(self, name):
        return getattr(self._c, name)

    def close(self, got, want, key, *a, **k):
        return self._c.close(got, want, key + self._s, *a, **k)

    def check(self, ok, key, *a, **k):
        return self._c.check(ok, key + self._s, *a, **k)

    def viol(self, key, *a, **k):
        return self._c.viol(key + self._s, *a, **k)


def run_case(case, ctx):
    from cherab.tools.inversions.admt_utils import generate_derivative_operators, calculate_admt
    vo = case.get("vorder")
    if vo:
        ctx = _Suffixed(ctx, ":vertices-listed-from-another-corner" if vo["mode"] == "uniform" else ":vertex-listing-differs-between-voxels")
        ctx.mon("vertex_order_" + vo["mode"])
    if case.get("large"):
        ctx.mon("large_grid")
    if case.get("numbering") == "row":
        ctx.mon("row_numbering")
    nx, ny, dx, dy = case["nx"], case["ny"], case["dx"], case["dy"]
    verts, m12, m21, x, y, ix, iy = build_grid(case)
    verts_before = copy.deepcopy(verts)
    maps_before = (dict(m12), dict(m21))
    ops = generate_derivative_operators(verts, m12, m21)
    same = np.array_equal(np.asarray(verts), np.asarray(verts_before)) and type(verts) is type(verts_before)
    ctx.check(same and (dict(m12), dict(m21)) == maps_before, "inputs-modified:generate_derivative_operators",
              "generate_derivative_operators modified the caller's vertex array or index maps", monitor="inputs_untouched",
              container=type(verts).__name__)
    ctx.cls(case["kind"] + (":" + case["vertex_kind"] if case.get("vertex_kind") else "") + (":vorder-" + vo["mode"] if vo else "")
            + (":>1024-cells" if case.get("large") else "") + (":row-numbering" if case.get("numbering") == "row" else ""))
    xc, yc = x.mean(), y.mean()
    Lx, Ly = nx * dx, ny * dy
    n = nx * ny
    names = ["Dx", "Dy", "Dxx", "Dyy", "Dxy"]
    hk = dict(Dx=dx, Dy=dy, Dxx=dx * dx, Dyy=dy * dy, Dxy=dx * dy)
    for nm in names:
        if ops[nm].shape != (n, n) or not np.all(np.isfinite(ops[nm])):
            ctx.viol("operator-malformed:%s" % nm, "operator %s has shape %s or non-finite entries" % (nm, ops[nm].shape))
            return
    if case["kind"] == "deriv":
        if not case.get("large"):
            _sibling_grids(case, ops, ctx)
        c = list(case["f"])
        ctx.nontrivial()
        # constants
        const = np.full(n, c[0] if c[0] != 0 else 1.0)
        for nm in names:
            ctx.close(ops[nm] @ const, np.zeros(n), "const:%s" % nm, "%s maps a constant field to non-zero" % nm,
                      atol=1e-10 * abs(const[0]) / hk[nm], monitor="const", op=nm)
        # linear
        cl = c[:3] + [0.0] * 7
        P = _poly(cl, x, y, xc, yc, Lx, Ly)
        scale = np.max(np.abs(P["f"])) + 1e-300
        ctx.close(ops["Dx"] @ P["f"], P["fx"], "linear:Dx", "Dx is not the exact x-gradient of a linear field",
                  atol=1e-10 * scale / dx, monitor="linear")
        ctx.close(ops["Dy"] @ P["f"], P["fy"], "linear:Dy", "Dy is not the exact y-gradient of a linear field",
                  atol=1e-10 * scale / dy, monitor="linear")
        # (the statement promises second-derivative exactness in interior cells only: the boundary rows of
        #  Dxx/Dyy are Ingesson's one-sided nearest-neighbour formulae and are not judged)
        ctx.close(ops["Dxy"] @ P["f"], np.zeros(n), "linear:Dxy", "Dxy of a linear field is not zero",
                  atol=1e-10 * scale / hk["Dxy"], monitor="linear")
        # bilinear
        cb = c[:3] + [0.0, c[4], 0.0, 0, 0, 0, 0]
        P = _poly(cb, x, y, xc, yc, Lx, Ly)
        scale = np.max(np.abs(P["f"])) + 1e-300
        ctx.close(ops["Dxy"] @ P["f"], P["fxy"], "bilinear:Dxy", "Dxy is not the exact mixed derivative of a bilinear field",
                  atol=1e-10 * scale / (dx * dy), monitor="bilinear")
        ctx.close(ops["Dx"] @ P["f"], P["fx"], "bilinear:Dx", "Dx is not exact on a bilinear field (linear in x)",
                  atol=1e-10 * scale / dx, monitor="bilinear")
        ctx.close(ops["Dy"] @ P["f"], P["fy"], "bilinear:Dy", "Dy is not exact on a bilinear field (linear in y)",
                  atol=1e-10 * scale / dy, monitor="bilinear")
        # quadratic
        cq = c[:6] + [0, 0, 0, 0]
        P = _poly(cq, x, y, xc, yc, Lx, Ly)
        scale = np.max(np.abs(P["f"])) + 1e-300
        inx = (ix > 0) & (ix < nx - 1)
        iny = (iy > 0) & (iy < ny - 1)
        if inx.any():
            ctx.close((ops["Dxx"] @ P["f"])[inx], P["fxx"][inx], "quadratic:Dxx", "Dxx is not exact for a quadratic field in interior columns",
                      atol=1e-9 * scale / dx ** 2, monitor="quadratic")
        if iny.any():
            ctx.close((ops["Dyy"] @ P["f"])[iny], P["fyy"][iny], "quadratic:Dyy", "Dyy is not exact for a quadratic field in interior rows",
                      atol=1e-9 * scale / dy ** 2, monitor="quadratic")
        if (inx & iny).any():
            m = inx & iny
            ctx.close((ops["Dxy"] @ P["f"])[m], P["fxy"][m], "quadratic:Dxy", "Dxy is not exact for a quadratic field in interior cells",
                      atol=1e-9 * scale / (dx * dy), monitor="quadratic")
        return
    # ---------------- ADMT -----------------
    psi_c = list(case["psi"])
    an = case["anisotropy"]
    p_field = None
    if case.get("an_field"):
        # one anisotropy factor per voxel (the implementation broadcasts it): D_perp = 1/anisotropy linear in (x, y), within (0, 1]
        a0, a1, a2 = case["an_field"]
        u_, v_ = (x - xc) / Lx, (y - yc) / Ly
        p_field = a0 + a1 * u_ + a2 * v_
        if p_field.min() <= 1e-3 or p_field.max() > 1.0:
            ctx.skip("per-voxel anisotropy field leaves (0, 1]")
            return
        an = 1.0 / p_field
        ctx.mon("anisotropy_per_voxel")
    PS = _poly(psi_c, x, y, xc, yc, Lx, Ly)
    psc = float(case.get("psi_scale", 1.0))
    if psc != 1.0:
        PS = {k: v * psc for k, v in PS.items()}
    grad = np.hypot(PS["fx"], PS["fy"])
    # the *discrete* gradient the function actually uses must also be non-vanishing
    dgrad = np.hypot(ops["Dx"] @ PS["f"], ops["Dy"] @ PS["f"])
    if grad.min() < 0.2 * grad.max() or dgrad.min() < 0.2 * grad.max():
        ctx.skip("flux map gradient too close to zero on the grid")
        return
    ctx.nontrivial()
    if case.get("opdict_order"):
        ops = {names[k]: ops[names[k]] for k in case["opdict_order"]}
        ctx.mon("opdict_reordered")
    snap = (x.copy(), PS["f"].copy(), {k: v.copy() for k, v in ops.items()})
    L = calculate_admt(x, ops, PS["f"], dx, dy, anisotropy=an)
    ctx.check(np.array_equal(x, snap[0]) and np.array_equal(PS["f"], snap[1]) and all(np.array_equal(ops[k], snap[2][k]) for k in ops),
              "inputs-modified:calculate_admt", "calculate_admt modified the caller's radii, flux values or operators", monitor="inputs_untouched")
    ok = ctx.check(L.shape == (n, n) and bool(np.all(np.isfinite(L))), "admt:non-finite",
                   "calculate_admt returned a non-finite entry or wrong shape", monitor="admt_finite")
    if not ok:
        return
    rowabs = np.abs(L).sum(axis=1)
    # metamorphic: rescaling the flux map (a change of units) must not change the operator
    for c2 in (1e-9, 1e7):
        L2 = calculate_admt(x, ops, PS["f"] * c2, dx, dy, anisotropy=an)
        ctx.close(L2, L, "admt:depends-on-flux-scale", "ADMT operator changes when the flux map is multiplied by a constant",
                  atol=1e-9 * rowabs.max(), monitor="admt_scale", factor=c2, psi_scale=psc)
    ctx.close(L @ np.ones(n), np.zeros(n), "admt:constants", "ADMT operator does not annihilate constants",
              atol=1e-11 * rowabs.max(), monitor="admt_const")
    F = _poly(list(case["f"][:6]) + [0, 0, 0, 0], x, y, xc, yc, Lx, Ly)
    fr = np.asarray(case["f"])
    rng = np.random.default_rng(abs(hash(tuple(case["f"]))) % (2 ** 32))
    frand = rng.normal(size=n)
    sq = np.sqrt(dx * dy)
    # conditioning of the coefficient algebra: second differences of psi relative to its gradient
    curv = max(np.abs(ops["Dxx"] @ PS["f"]).max(), np.abs(ops["Dyy"] @ PS["f"]).max(), np.abs(ops["Dxy"] @ PS["f"]).max())
    cond = 1.0 + (curv * max(dx, dy) / dgrad.min()) + (curv / dgrad.min()) ** 2 * 0
    if p_field is None and float(an) == 1.0:
        Lref = sq * (ops["Dxx"] + ops["Dyy"] + np.diag(1.0 / x) @ ops["Dx"])
        for fv, lab in ((frand, "random"), (F["f"], "quadratic")):
            scale_rows = (np.abs(L) @ np.abs(fv)) + (np.abs(Lref) @ np.abs(fv)) + sq * (curv / dgrad.min()) * (np.abs(ops["Dx"]) + np.abs(ops["Dy"])) @ np.abs(fv)
            got = L @ fv
            want = Lref @ fv
            err = np.abs(got - want)
            tol = 1e-11 * scale_rows.max() * np.ones(n)
            ctx.mon("admt_iso", n)
            ctx.margin("admt_iso", float((err / tol).max()))
            if (err > tol).any():
                k = int(np.argmax(err / tol))
                ctx.viol("admt:anisotropy-1-not-laplacian",
                         "at anisotropy 1 the ADMT operator differs from sqrt(dx dy)(Dxx + Dyy + (1/R) Dx) built from the same operators",
                         cell=k, got=float(got[k]), want=float(want[k]), tol=float(tol[k]), field=lab, psi_kind=case["psi_kind"],
                         rel=float(err[k] / (abs(want[k]) + 1e-300)))
                break
    if case["psi_kind"] in ("linear", "quadratic"):
        inner = (ix >= 2) & (ix <= nx - 3) & (iy >= 2) & (iy <= ny - 3)
        if inner.any():
            p = 1.0 / float(an) if p_field is None else p_field
            p_x, p_y = (0.0, 0.0) if p_field is None else (case["an_field"][1] / Lx, case["an_field"][2] / Ly)
            q = 1.0
            px, py, pxx, pxy, pyy = PS["fx"], PS["fy"], PS["fxx"], PS["fxy"], PS["fyy"]
            N = px ** 2 + py ** 2
            Nx = 2 * (px * pxx + py * pxy)
            Ny = 2 * (px * pxy + py * pyy)
            Axx = p * px ** 2 + q * py ** 2
            Ayy = p * py ** 2 + q * px ** 2
            Axy = (p - q) * px * py
            Axx_x = 2 * p * px * pxx + 2 * q * py * pxy + p_x * px ** 2
            Ayy_y = 2 * p * py * pyy + 2 * q * px * pxy + p_y * py ** 2
            Axy_x = (p - q) * (pxx * py + px * pxy) + p_x * px * py
            Axy_y = (p - q) * (pxy * py + px * pyy) + p_y * px * py
            Dxx = Axx / N
            Dyy = Ayy / N
            Dxy = Axy / N
            dDxx_dx = (Axx_x * N - Axx * Nx) / N ** 2
            dDyy_dy = (Ayy_y * N - Ayy * Ny) / N ** 2
            dDxy_dx = (Axy_x * N - Axy * Nx) / N ** 2
            dDxy_dy = (Axy_y * N - Axy * Ny) / N ** 2
            want = sq * (Dxx * F["fxx"] + 2 * Dxy * F["fxy"] + Dyy * F["fyy"]
                         + (dDxx_dx + dDxy_dy + Dxx / x) * F["fx"] + (dDxy_dx + dDyy_dy + Dxy / x) * F["fy"])
            got = L @ F["f"]
            # rounding: the stencils difference values of size max|f|, max|psi| over dx^2
            fmax = np.abs(F["f"]).max()
            pmax = np.abs(PS["f"] - PS["f"].mean()).max() + 1e-300
            hmin2 = min(dx, dy) ** 2
            eps = 2.3e-16
            coef_rel = 50 * eps * (pmax / hmin2) / (grad.min() / max(Lx, Ly)) * 0 + 1e-7
            scale_rows = (np.abs(L) @ np.abs(F["f"] - F["f"].mean()))
            tol = 1e-9 * (scale_rows.max() + np.abs(want).max()) * cond
            err = np.abs(got - want)[inner]
            ctx.mon("admt_analytic", int(inner.sum()))
            ctx.margin("admt_analytic", float(err.max() / tol))
            if err.max() > tol:
                k = int(np.flatnonzero(inner)[np.argmax(err)])
                ctx.viol("admt:analytic-operator-mismatch",
                         "ADMT operator applied to a quadratic field differs from the analytic anisotropic diffusion operator in an interior cell "
                         "(quadratic flux map: every discrete ingredient is exact there)",
                         cell=k, got=float(got[k]), want=float(want[k]), tol=float(tol), anisotropy=(an if p_field is None else "per-voxel"),
                         rel=float(abs(got[k] - want[k]) / (abs(want[k]) + 1e-300)))
