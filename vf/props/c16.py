"""C16 — instruments: settings follow parameters, calibration conserves the spectrum.

Monitor shape: history + executable model (differential) + invariant + reference model.

  differential : a real instrument (Spectrometer, CzernyTurnerSpectrometer, Polychromator) is driven through a random
                 history of public setters with interleaved reads (reads fill the lazy _min/_max/_bins/_pipeline_kwargs
                 caches).  The harness keeps a plain model "last accepted value per constructor parameter" and, after
                 every setter (on a shallow copy, so that the monitor itself does not fill the live instrument's
                 caches), at every interleaved read and at the end (on the live instrument), compares
                 min_wavelength, max_wavelength, spectral_bins, wavelengths, wavelength_to_pixel, pipeline_classes,
                 pipeline_kwargs and create_pipelines() with an instrument constructed directly from the model.
                 Exceptions are observations compared by type (both sides raising the same type = equal, counted as
                 skipped: the statement does not say the accessor must work).
  invariant    : icontract.invariant on the three pure-Python classes (applied in memory from the harness): the
                 reported range covers every pixel / filter (filters: the TRUE support = min / max of the table the
                 filter was built from, registered by the harness, not the filter's self-reported attributes); (max-min)/spectral_bins <= narrowest pixel /
                 min_bins_per_pixel (narrowest window / min_bins_per_window).  Evaluated around every public call.
  aliasing     : in ~30 % of the cases the history ends with the caller changing IN PLACE the container it handed to the
                 last constructor / setter of the array-valued parameter (float64 arrays, rows of a 2-D buffer, slices
                 of a 1-D buffer, int arrays, nested lists, filter lists / object arrays, accommodated_spectra lists /
                 arrays) or writing into the arrays returned by wavelength_to_pixel / wavelengths.  No setter is
                 called; afterwards all observables (read on the live instrument in random order, caches warm or cold as
                 the history left them) must equal those of the instrument built from the values as set, or all those
                 of one built from the container's current contents; a mixture, or a broken invariant, is reported as
                 alias:<Class>.<attr>:caller-<form>-mutated-changes-instrument.
  returned     : returned-array history monitor: every array an earlier calibrate() call returned (mid-history calls on
                 earlier pixel layouts, the final call, a call on a second live instrument with the same parameters,
                 further calls with other source spectra) is kept with a snapshot and re-judged after every later
                 calibrate() call -- it must be unchanged, i.e. value x width still equals ITS spectrum's integral;
                 the caller overwriting one result must change no other held result and no later result.
  calibration  : calibrate(Spectrum) value * pixel width against the exact integral of the piecewise-linear
                 interpolant through the bin centres with nearest extrapolation (Raysect's documented
                 Spectrum.integrate semantics), computed per pixel with numpy.interp + math.fsum.
"""
import copy
import math
import warnings

import numpy as np

ID = "C16"
LEVEL = "exploration"
RULE = ("random instruments x random public-setter histories (1..15 ops: valid and rejected parameter values, reads of "
        "random observable subsets and calibrate() calls interleaved so that setters hit cold and warm lazy caches): "
        "Spectrometer with 1..5 accommodated spectra over monotone pixel-edge layouts (uniform, geometric, random "
        "increments, quadratic dispersion, explicit; 2..600 edges; disjoint / adjacent / overlapping / nested), "
        "survey-style layouts (2..5 wide quadratic-dispersion channels), CzernyTurnerSpectrometer over the parameter "
        "domain where resolution() is real and positive for every intermediate state, Polychromator with 1..8 "
        "trapezoidal / tabulated filters (tables ascending / descending / shuffled, irregular duplicate-free spacing, "
        "list / tuple / ndarray, int / float dtype); every array-valued input (pixel edges, accommodated_spectra, "
        "filters) is also given as list / tuple / ndarray / int dtype, reversed pixel arrays as rejected values; ~30 % of "
        "the histories end with an in-place change of the caller-owned container (or a write into getter arrays) "
        "instead of the final differential; "
        "final calibrate() of source spectra with 1..5000 bins covering the "
        "instrument exactly / loosely / with bin edges aligned to pixel edges.  A case is non-trivial when at least "
        "one setter was accepted and the final differential comparison ran, or at least one pixel was judged by the "
        "calibration oracle (distinct = distinct expanded case descriptors)")
LEVEL_TEXT = ("Exploration by runtime monitoring: every generated history is executed on the real classes and judged by "
              "(i) a from-scratch instrument built from the modelled final parameters, (ii) contracts evaluated around "
              "every public call, (iii) an independent per-pixel integral.  Right level because the property "
              "quantifies over unbounded setter histories and continuous pixel layouts of deterministic pure-Python code")
LEVEL_NOTE = ("trusted: the harness model 'last accepted value per parameter' (a rejected value must leave the parameter "
              "getter unchanged, otherwise the case is skipped as ambiguous); numpy.interp / math.fsum for the "
              "reference integral; Raysect's Spectrum bin centres (spectrum.wavelengths) as the interpolation nodes")
TECHNIQUE = ("runtime monitoring: history + executable model (differential fresh-vs-mutated), icontract class invariants, "
             "reference-model oracle for calibration")
ASSUMPTIONS = [
    "'parameter changes' are assignments through the public property setters; what the caller does afterwards with the "
    "container it handed over (or with arrays a getter returned) is not a parameter change: the instrument must then "
    "still be ONE consistent instrument -- all observables equal to those built from the values as set, or (tolerated, "
    "counted as skip) all equal to those built from the container's current contents; only a mixture is a violation",
    "effects of the instrument on the caller's objects (write-locking a passed array) are outside the wording: counted as "
    "skips 'outside-wording:...', never judged",
    "an accessor raising the same exception type on the mutated and the fresh instrument counts as equal (skipped and "
    "counted), e.g. CzernyTurnerSpectrometer.pipeline_classes / create_pipelines (AttributeError on both)",
    "for Polychromator the bin-width bound is narrowest filter window / min_bins_per_window; a filter's support and "
    "window are the min / max of the wavelength table it was built from (trapezoid: centre -/+ window/2)",
    "the spectrum's integral over a pixel is Raysect's documented one: piecewise-linear through the bin centres, "
    "nearest-neighbour extrapolation in the two outer half bins",
    "bin-width bound is judged with relative slack 1e-12 (one rounding of the quotient inside ceil)",
]
QUICK = dict(cases=900, workers=2, timecap=45)
THOROUGH = dict(cases=40000, workers=16, timecap=420)
REQUIRED = {"diff_final": 600, "diff_shadow": 3000, "diff_read": 700, "inv_range": 12000, "inv_binwidth": 12000,
            "calib": 20000, "set_accepted": 350, "set_rejected": 40, "pixels_echo": 60,
            "alias_judged": 60, "getter_write": 60, "calib_held": 100000, "calib_caller_write": 80,
            "set_reassigned": 25}

_S = {"in_monitor": False, "memo": None}

SPEC_OBS = ["min_wavelength", "max_wavelength", "spectral_bins", "wavelengths", "wavelength_to_pixel",
            "pipeline_classes", "pipeline_kwargs", "create_pipelines"]
POLY_OBS = ["min_wavelength", "max_wavelength", "spectral_bins", "pipeline_classes", "pipeline_kwargs", "create_pipelines"]
BINW_SLACK = 1e-12


class InvariantBroken(Exception):
    """Raised by the icontract invariants installed on the real classes (caught in run_case only)."""

    def __init__(self, clause, inst):
        super().__init__(clause)
        self.clause = clause
        self.cls_name = type(inst).__name__
        self.where = _S.get("where") or "construction"
        self.detail = dict(_S.get("last_view_detail") or {})
        self.mech = self.detail.get("mechanism")


# ----------------------------------------------------------------------------------------------
# contracts on the real classes
# ----------------------------------------------------------------------------------------------

def _same_state(inst, snap):
    d = vars(inst)
    if len(d) != len(snap):
        return False
    for k, v in d.items():
        if k not in snap or snap[k] is not v:
            return False
    return True


def _view(inst):
    """Public settings of `inst` read on a shallow copy (the live instrument's lazy caches stay as they are).
    Returns None when the settings cannot be evaluated or the state is outside the property's domain."""
    memo = _S["memo"]
    if memo is not None and memo[0] is inst and _same_state(inst, memo[1]):
        return memo[2], False
    _S["memo"] = None
    _S["in_monitor"] = True
    try:
        view = None
        try:
            c = copy.copy(inst)
            lo = float(c.min_wavelength)
            hi = float(c.max_wavelength)
            bins = c.spectral_bins
            if hasattr(c, "wavelength_to_pixel"):
                arrays = [np.asarray(a, dtype=float) for a in c.wavelength_to_pixel]
                ok = len(arrays) > 0 and all(a.ndim == 1 and a.size >= 2 and np.all(np.isfinite(a)) and np.all(np.diff(a) > 0)
                                             for a in arrays)
                if ok:
                    view = dict(lo=lo, hi=hi, bins=bins, starts=[float(a[0]) for a in arrays],
                                ends=[float(a[-1]) for a in arrays],
                                narrowest=float(min(np.diff(a).min() for a in arrays)), per=c.min_bins_per_pixel)
            else:
                fl = list(c.filters)
                if fl:
                    # TRUE support of every filter: min / max of the table values it was built from (registered by
                    # the harness when the filter was created), not the attributes the filter reports about itself
                    truth = _S.get("truth") or {}
                    starts, ends, mech = [], [], None
                    for f in fl:
                        t = truth.get(id(f))
                        if t is not None and t[0] is f:
                            a, b, order = t[1], t[2], t[3]
                            if float(f.min_wavelength) != a or float(f.max_wavelength) != b or float(f.window) != b - a:
                                m = "unsorted-filter-table" if order in ("descending", "shuffled") else \
                                    "filter-attributes-differ-from-table"
                                mech = mech if mech == "unsorted-filter-table" else m
                        else:
                            a, b = float(f.min_wavelength), float(f.max_wavelength)
                        starts.append(a)
                        ends.append(b)
                    view = dict(lo=lo, hi=hi, bins=bins, starts=starts, ends=ends, mech=mech,
                                narrowest=float(min(b - a for a, b in zip(starts, ends))), per=c.min_bins_per_window)
            if view is not None and not (math.isfinite(lo) and math.isfinite(hi) and view["narrowest"] > 0):
                view = None
        except InvariantBroken:
            raise
        except Exception:  # noqa  settings not evaluable (e.g. half-built or empty instrument): clause is vacuous
            view = None
    finally:
        _S["in_monitor"] = False
    _S["memo"] = (inst, dict(vars(inst)), view, set())
    return view, True


def _first(clause):
    """True the first time `clause` is evaluated on the memoised instrument state (honest evaluation counts)."""
    seen = _S["memo"][3]
    if clause in seen:
        return False
    seen.add(clause)
    return True


def _inv_range_covers(self):
    if _S["in_monitor"]:
        return True
    view, new = _view(self)
    new = _first("range")
    if view is None:
        if new:
            _S["counts"]["inv_not_evaluable"] += 1
        return True
    if new:
        _S["counts"]["inv_range"] += 1
    ok = all(view["lo"] <= s for s in view["starts"]) and all(e <= view["hi"] for e in view["ends"])
    if not ok:
        _S["last_view_detail"] = dict(min_wavelength=view["lo"], max_wavelength=view["hi"], mechanism=view.get("mech"),
                                      lowest_item_start=min(view["starts"]), highest_item_end=max(view["ends"]))
    return ok


def _inv_bin_width(self):
    if _S["in_monitor"]:
        return True
    view, new = _view(self)
    new = _first("width")
    if view is None:
        return True
    if new:
        _S["counts"]["inv_binwidth"] += 1
    bins = view["bins"]
    try:
        nb = float(bins)
    except (TypeError, ValueError):
        nb = float("nan")
    ok = nb >= 1
    width = None
    bound = view["narrowest"] / view["per"]
    if ok:
        width = (view["hi"] - view["lo"]) / nb
        ok = width <= bound * (1.0 + BINW_SLACK)
        if bound > 0 and width > 0:
            r = (width / bound - 1.0) / BINW_SLACK
            if ok and r > _S["margins"].get("inv_binwidth", 0.0):   # margin of checks that held only
                _S["margins"]["inv_binwidth"] = r
    if not ok:
        _S["last_view_detail"] = dict(spectral_bins=repr(bins), bin_width=width, bound=bound, narrowest=view["narrowest"],
                                      mechanism=view.get("mech"),
                                      per=view["per"], min_wavelength=view["lo"], max_wavelength=view["hi"])
    return ok


def _err_range(self):
    return InvariantBroken("range-covers", self)


def _err_width(self):
    return InvariantBroken("bin-width", self)


def worker_init(ctx):
    import collections
    import icontract
    from cherab.tools.spectroscopy import (Spectrometer, CzernyTurnerSpectrometer, Polychromator, TrapezoidalFilter,
                                           PolychromatorFilter)
    from raysect.optical import Spectrum, InterpolatedSF
    _S.update(Spectrometer=Spectrometer, CzernyTurnerSpectrometer=CzernyTurnerSpectrometer, Polychromator=Polychromator,
              TrapezoidalFilter=TrapezoidalFilter, PolychromatorFilter=PolychromatorFilter, Spectrum=Spectrum,
              InterpolatedSF=InterpolatedSF)
    _S["counts"] = collections.Counter()
    _S["margins"] = {}
    _S["flushed"] = collections.Counter()
    if not _S.get("decorated"):
        # subclass first: icontract appends to an inherited __invariants__ list, decorating the base first would
        # evaluate every clause twice on the subclass
        for cls in (CzernyTurnerSpectrometer, Spectrometer, Polychromator):
            icontract.invariant(_inv_range_covers, error=_err_range)(cls)
            icontract.invariant(_inv_bin_width, error=_err_width)(cls)
        _S["decorated"] = True


def _flush_counts(ctx):
    for k, v in _S["counts"].items():
        d = v - _S["flushed"][k]
        if d:
            ctx.mon(k, d)
            _S["flushed"][k] = v
    for k, v in _S["margins"].items():
        ctx.margin(k, v)


# ----------------------------------------------------------------------------------------------
# case expansion
# ----------------------------------------------------------------------------------------------

def expand_layout(rec):
    k = rec["kind"]
    if k == "explicit":
        return np.array(rec["edges"], dtype=float)
    n = int(rec["n"])
    i = np.arange(n, dtype=float)
    if k == "uniform":
        return rec["start"] + i * rec["width"]
    if k == "geometric":
        return rec["start"] * rec["ratio"] ** i
    if k == "quadratic":
        return rec["start"] + rec["b"] * i + rec["c"] * i * i
    if k == "random":
        r = np.random.default_rng(int(rec["seed"]))
        w = rec["mean_width"] * np.exp(rec["sigma"] * r.standard_normal(n - 1))
        return np.concatenate(([rec["start"]], rec["start"] + np.cumsum(w)))
    raise ValueError("unknown layout %r" % k)


def expand_samples(rec, centres):
    n = centres.size
    k = rec["kind"]
    r = np.random.default_rng(int(rec.get("seed", 0)))
    amp = float(rec.get("amp", 1.0))
    if k == "zero":
        return np.zeros(n)
    if k == "const":
        return np.full(n, amp)
    if k == "ramp":
        return amp * (0.1 + np.arange(n) / max(n, 1))
    if k == "random":
        return amp * r.random(n)
    if k == "signed":
        return amp * r.standard_normal(n)
    if k == "spike":
        s = np.zeros(n)
        for _ in range(int(rec.get("nspikes", 1))):
            s[int(r.integers(n))] = amp * (0.5 + r.random())
        return s
    if k == "smooth":
        lo, hi = centres[0], centres[-1]
        span = max(hi - lo, 1e-9)
        s = np.full(n, 0.05 * amp)
        for _ in range(int(rec.get("nlines", 3))):
            c = lo + span * r.random()
            w = span * 10 ** r.uniform(-3, -0.5)
            s = s + amp * r.random() * np.exp(-0.5 * ((centres - c) / w) ** 2)
        return s
    raise ValueError("unknown samples %r" % k)


def _make_filter(spec):
    if spec["type"] == "trapezoid":
        args = [spec["c"], spec["window"]]
        if spec.get("flat_top") is not None:
            args.append(spec["flat_top"])
        else:
            args.append(None)
        return _S["TrapezoidalFilter"](*args, name=spec["name"])
    wl, sm = spec["wavelengths"], spec["samples"]
    cont = spec.get("container", "list")
    if cont == "ndarray":
        wl = np.array(wl, dtype=np.int64 if spec.get("dtype") == "int" else float)
        sm = np.array(sm)
    elif cont == "tuple":
        wl, sm = tuple(wl), tuple(sm)
    return _S["PolychromatorFilter"](wl, sm, normalise=spec.get("normalise", False), name=spec["name"])


def _filter_truth(spec):
    """(lo, hi, order) of the table the filter is built from -- independent of the filter's own attributes."""
    if spec["type"] == "trapezoid":
        return float(spec["c"] - 0.5 * spec["window"]), float(spec["c"] + 0.5 * spec["window"]), "ascending"
    w = np.array(spec["wavelengths"], dtype=float)
    d = np.diff(w)
    order = "ascending" if np.all(d > 0) else "descending" if np.all(d < 0) else "shuffled"
    return float(w.min()), float(w.max()), order


def _filters_value(idx, pool, as_tuple=False, form=None):
    out = []
    for i in idx:
        if i == "bad-str":
            out.append("not a filter")
        elif i == "bad-sf":
            out.append(_S["InterpolatedSF"]([400.0, 500.0, 600.0], [0.0, 1.0, 0.0]))
        else:
            out.append(pool[i])
    if form == "ndarray":
        arr = np.empty(len(out), dtype=object)
        arr[:] = out
        return arr
    return tuple(out) if (as_tuple or form == "tuple") else out


def _wl2pix_value(recs, form):
    """The accommodated pixel-edge arrays in the container / dtype form the case asks for."""
    arrs = [expand_layout(l) for l in recs]
    isint = [bool(np.all(a == np.round(a))) for a in arrs]
    if form == "tuple":
        return tuple(arrs)
    if form == "tuple-of-lists":
        return tuple([int(x) for x in a] if i else a.tolist() for a, i in zip(arrs, isint))
    if form == "list-of-tuples":
        return [tuple(a.tolist()) for a in arrs]
    if form == "int-arrays":
        return [a.astype(np.int64) if i else a for a, i in zip(arrs, isint)]
    if form == "ndarray-2d" and len({a.size for a in arrs}) == 1:
        return np.array(arrs, dtype=np.int64 if all(isint) else float)
    if form == "reversed":
        return [a[::-1].copy() for a in arrs]
    if form == "slices":
        # every calibration array is a slice (view) of one caller-owned float64 buffer
        buf = np.concatenate(arrs)
        cuts = np.cumsum([0] + [a.size for a in arrs])
        return [buf[cuts[i]:cuts[i + 1]] for i in range(len(arrs))]
    return arrs


def _acc_value(value, form):
    if form == "list":
        return [list(x) for x in value]
    if form == "ndarray":
        isint = all(float(a) == int(a) and isinstance(b, int) for a, b in value)
        return np.array([[a, b] for a, b in value], dtype=np.int64 if isint else float)
    return tuple((a, b) for a, b in value)


def build(kind, P, pool, form=None):
    """Instrument constructed directly from the (modelled) parameters, positional order as documented."""
    prev = _S.get("where")
    _S["where"] = "construction"
    try:
        return _build(kind, P, pool, form)
    finally:
        _S["where"] = prev


def _build(kind, P, pool, form=None):
    if kind in ("spectrometer", "survey"):
        val = _S["last_container"] = _wl2pix_value(P["wavelength_to_pixel"], form)
        return _S["Spectrometer"](val, P["min_bins_per_pixel"], P["name"])
    if kind == "czerny":
        acc = _S["last_container"] = _acc_value(P["accommodated_spectra"], form)
        return _S["CzernyTurnerSpectrometer"](P["diffraction_order"], P["grating"], P["focal_length"], P["pixel_spacing"],
                                              P["diffraction_angle"], acc, P["min_bins_per_pixel"], P["name"])
    if kind == "polychromator":
        val = _S["last_container"] = _filters_value(P["filters"], pool, form=form)
        return _S["Polychromator"](val, P["min_bins_per_window"], P["name"])
    raise ValueError("unknown kind %r" % kind)


def setter_value(kind, attr, value, pool, op):
    if attr == "wavelength_to_pixel":
        if op.get("raw") is not None:
            return op["raw"]
        return _wl2pix_value(value, op.get("form", "list"))
    if attr == "accommodated_spectra":
        return _acc_value(value, op.get("form"))
    if attr == "filters":
        return _filters_value(value, pool, form=op.get("form"))
    return value


# ----------------------------------------------------------------------------------------------
# observation and comparison
# ----------------------------------------------------------------------------------------------

def _norm_val(v, pool):
    for i, f in enumerate(pool):
        if v is f:
            return ("filter", i)
    if isinstance(v, (str, int, float, bool)) or v is None:
        return v
    return ("object", type(v).__name__, id(v))


def observe(inst, name, pool):
    try:
        if name == "create_pipelines":
            v = inst.create_pipelines()
            out = []
            for p in v:
                item = {"class": type(p), "name": getattr(p, "name", None)}
                if hasattr(p, "filter"):
                    item["filter"] = _norm_val(p.filter, pool)
                out.append(item)
            return ("ok", out)
        v = getattr(inst, name)
        if name in ("min_wavelength", "max_wavelength"):
            return ("ok", float(v))
        if name == "spectral_bins":
            return ("ok", int(v) if isinstance(v, (int, np.integer)) else ("non-int", repr(v)))
        if name in ("wavelengths", "wavelength_to_pixel"):
            return ("ok", [np.array(a, dtype=float) for a in v])
        if name == "pipeline_classes":
            return ("ok", list(v))
        if name == "pipeline_kwargs":
            return ("ok", [{k: _norm_val(x, pool) for k, x in d.items()} for d in v])
        return ("ok", v)
    except InvariantBroken:
        raise
    except Exception as e:  # noqa  exceptions are observations, compared by type
        return ("exc", type(e).__name__)


def _eq(a, b):
    if isinstance(a, np.ndarray) or isinstance(b, np.ndarray):
        return isinstance(a, np.ndarray) and isinstance(b, np.ndarray) and a.shape == b.shape and bool(
            np.array_equal(a, b, equal_nan=True))
    if isinstance(a, float) and isinstance(b, float):
        return a == b or (a != a and b != b)
    if isinstance(a, (list, tuple)) and isinstance(b, (list, tuple)):
        return len(a) == len(b) and all(_eq(x, y) for x, y in zip(a, b))
    if isinstance(a, dict) and isinstance(b, dict):
        return set(a) == set(b) and all(_eq(a[k], b[k]) for k in a)
    if isinstance(a, type) or isinstance(b, type):
        return a is b
    return type(a) is type(b) and a == b


def _brief(o):
    tag, v = o
    if tag == "exc":
        return "raises " + v

    def b(x):
        if isinstance(x, np.ndarray):
            return "array(n=%d, first=%r, last=%r)" % (x.size, x[0] if x.size else None, x[-1] if x.size else None)
        if isinstance(x, (list, tuple)):
            return "[" + ", ".join(b(y) for y in list(x)[:6]) + (", ..." if len(x) > 6 else "") + "]"
        if isinstance(x, dict):
            return "{" + ", ".join("%s: %s" % (k, b(y)) for k, y in x.items()) + "}"
        if isinstance(x, type):
            return x.__name__
        return repr(x)
    return b(v)[:400]


def compare(ctx, cname, obs, got, want, where, last_set, monitor):
    """One differential comparison of an observable; returns True when equal."""
    ctx.mon(monitor)
    if got[0] == "exc" and want[0] == "exc" and got[1] == want[1]:
        ctx.skip("both-raise:%s.%s:%s" % (cname, obs, got[1]))
        return True
    if got[0] == want[0] and _eq(got[1], want[1]):
        return True
    if got[0] != want[0]:
        mech = "mutated-raises" if got[0] == "exc" else "fresh-raises"
    elif got[0] == "exc":
        mech = "exception-type-differs"
    else:
        mech = "value-differs"
    ctx.viol("diff:%s.%s:%s:after-%s" % (cname, obs, mech, last_set),
             "%s.%s of the instrument mutated by the setter history differs from an instrument constructed directly "
             "with the final parameters (%s)" % (cname, obs, where),
             mutated=_brief(got), fresh=_brief(want), last_setter=last_set, where=where)
    return False


# ----------------------------------------------------------------------------------------------
# calibration oracle
# ----------------------------------------------------------------------------------------------

def ref_pixel_integrals(centres, samples, edges, idx=None):
    """Exact integral of the piecewise-linear interpolant (constant beyond the outer nodes) over every pixel, with
    the integral of |f| (tolerance scale) and the largest |sample| bracketing the pixel (rounding floor)."""
    pix = np.arange(edges.size - 1) if idx is None else idx
    n = len(pix)
    want = np.empty(n)
    scale = np.empty(n)
    ymax = np.empty(n)
    asamp = np.abs(samples)
    for i, ip in enumerate(pix):
        a = edges[ip]
        b = edges[ip + 1]
        i0 = int(np.searchsorted(centres, a, side="right"))
        i1 = int(np.searchsorted(centres, b, side="left"))
        if i1 > i0:
            xs = np.concatenate(([a], centres[i0:i1], [b]))
        else:
            xs = np.array([a, b])
        ys = np.interp(xs, centres, samples)
        dx = np.diff(xs)
        want[i] = math.fsum(0.5 * (ys[1:] + ys[:-1]) * dx)
        scale[i] = math.fsum(0.5 * (np.abs(ys[1:]) + np.abs(ys[:-1])) * dx)
        j0 = max(i0 - 1, 0)
        j1 = min(max(i1, i0) + 1, centres.size)
        ymax[i] = asamp[j0:j1].max() if j1 > j0 else asamp[min(j0, centres.size - 1)]
    return want, scale, ymax


def resolve_spectrum(spec, lo, hi, first_width):
    """Source spectrum (min, max, bins) covering [lo, hi] as described by the case."""
    r = spec["range"]
    bins = int(spec["bins"])
    if r["mode"] == "exact":
        return lo, hi, bins
    if r["mode"] == "loose":
        return max(lo - r["lo"], 0.5 * lo), hi + r["hi"], bins
    if r["mode"] == "aligned":
        w = first_width
        npx = int(math.ceil((hi - lo) / w - 1e-9))
        a, b, j = int(r["a"]), int(r["b"]), int(r["j"])
        smin = lo - a * w
        if smin <= 0:
            smin = lo
            a = 0
        if j >= 1:
            nb = (npx + a + b) * j
            smax = smin + (npx + a + b) * w
        else:
            g = -j
            nb = int(math.ceil((npx + a + b) / g))
            smax = smin + nb * g * w
        if smax < hi:
            smax = hi
        return smin, smax, max(nb, 1)
    raise ValueError("unknown range mode")


def rejudge_held(ctx, trigger):
    """Returned-array history monitor: every result an earlier calibrate() call handed out (any instrument alive in the
    case, any earlier pixel layout) still is the caller's value -- unchanged since it was returned, hence still obeying
    the integral law for ITS spectrum -- after whatever calibrate() calls happened since."""
    for h in _S["held"]:
        for k, (arr, snap) in enumerate(zip(h["arrays"], h["snaps"])):
            ctx.mon("calib_held", int(snap.size))
            if arr.shape == snap.shape and np.array_equal(arr, snap, equal_nan=True):
                continue
            law = None
            if h["law"][k] is not None and arr.shape == snap.shape:
                idx, width, want, atol = h["law"][k]
                law = bool(np.all(np.abs(arr[idx] * width - want) <= atol))
            ctx.viol("calibration:%s:earlier-result-changed-by-%s" % (h["cname"], trigger),
                     "an array returned by an earlier calibrate() call changed after %s: value x width of that result no "
                     "longer equals its own spectrum's integral over the pixel" % trigger.replace("-", " "),
                     held_from=h["tag"], spectrum=k, integral_law_still_holds=law,
                     n_changed=int(np.sum(arr != snap)) if arr.shape == snap.shape else -1,
                     shares_memory_with_a_later_result=any(np.shares_memory(arr, o) for g in _S["held"] if g is not h
                                                           for o in g["arrays"]))
            return False
    return True


def check_calibration(ctx, inst, cname, spec, pool, tag, max_pixels=None):
    Spectrum = _S["Spectrum"]
    lo_o = observe(inst, "min_wavelength", pool)
    hi_o = observe(inst, "max_wavelength", pool)
    px_o = observe(inst, "wavelength_to_pixel", pool)
    if lo_o[0] != "ok" or hi_o[0] != "ok" or px_o[0] != "ok":
        ctx.skip("calibration:settings-not-readable")
        return
    lo, hi, arrays = lo_o[1], hi_o[1], px_o[1]
    if not (math.isfinite(lo) and math.isfinite(hi) and hi > lo and lo > 0) or not all(
            a.size >= 2 and np.all(np.isfinite(a)) and np.all(np.diff(a) > 0) for a in arrays):
        ctx.skip("calibration:outside-domain")
        return
    smin, smax, bins = resolve_spectrum(spec, lo, hi, float(arrays[0][1] - arrays[0][0]))
    if bins > 20000:
        bins = 20000
    ctx.cls("calib-range:" + spec["range"]["mode"])
    ctx.cls("calib-samples:" + spec["samples"]["kind"])
    sp = Spectrum(smin, smax, bins)
    centres = np.array(sp.wavelengths, dtype=float)
    samples = expand_samples(spec["samples"], centres)
    sp.samples[:] = samples
    out = inst.calibrate(sp)
    ok = ctx.check(len(out) == len(arrays), "calibration:%s:wrong-number-of-spectra" % cname,
                   "calibrate() returned %d arrays for %d accommodated spectra" % (len(out), len(arrays)),
                   monitor="calib_shape")
    if not ok:
        return
    eps = 2.3e-16
    entry = {"cname": cname, "tag": tag, "arrays": [], "snaps": [], "law": []}
    for k, (edges, val) in enumerate(zip(arrays, out)):
        if isinstance(val, np.ndarray):
            entry["arrays"].append(val)                    # the very object the caller was handed
            entry["snaps"].append(val.copy())
            entry["law"].append(None)
        val = np.asarray(val, dtype=float)
        if not ctx.check(val.shape == (edges.size - 1,), "calibration:%s:wrong-number-of-pixels" % cname,
                         "calibrate() returned shape %s for %d pixels" % (val.shape, edges.size - 1), monitor="calib_shape"):
            return
        npx = edges.size - 1
        idx = np.arange(npx)
        if max_pixels is not None and npx > max_pixels:
            idx = np.unique(np.linspace(0, npx - 1, max_pixels).astype(int))
        want, scale, ymax = ref_pixel_integrals(centres, samples, edges, idx)
        width = np.diff(edges)[idx]
        atol = 1e-10 * scale + 16 * eps * ymax * width
        if entry["law"]:
            entry["law"][-1] = (idx, width, want, atol)
        ctx.close(val[idx] * width, want, "calibration:%s:pixel-integral-not-conserved" % cname,
                  "calibrated pixel value x pixel width differs from the spectrum's integral over the pixel "
                  "(piecewise-linear through the bin centres, nearest extrapolation)",
                  rtol=0.0, atol=atol, monitor="calib", spectrum=k, pixels=int(edges.size - 1), source_bins=bins,
                  source_range=[smin, smax], instrument_range=[lo, hi], samples=spec["samples"]["kind"], at=tag)
        if np.any(scale > 0):
            ctx.nontrivial()
    # results handed out earlier (this or another instrument, this or an earlier layout) must have survived this call
    if rejudge_held(ctx, "later-calibrate-call"):
        for g in _S["held"]:
            if any(np.shares_memory(a, b) for a in entry["arrays"] for b in g["arrays"]):
                ctx.cls("calib-results-share-memory")
        _S["held"].append(entry)
    return entry


# ----------------------------------------------------------------------------------------------
# run
# ----------------------------------------------------------------------------------------------

PARAM_GETTERS = {"spectrometer": ["wavelength_to_pixel", "min_bins_per_pixel", "name"],
                 "czerny": ["diffraction_order", "grating", "focal_length", "pixel_spacing", "diffraction_angle",
                            "accommodated_spectra", "min_bins_per_pixel", "name"],
                 "polychromator": ["filters", "min_bins_per_window", "name"]}
PARAM_GETTERS["survey"] = PARAM_GETTERS["spectrometer"]


def _param_snapshot(inst, kind):
    out = {}
    for g in PARAM_GETTERS[kind]:
        v = getattr(inst, g)
        if isinstance(v, tuple) and v and isinstance(v[0], np.ndarray):
            v = [np.array(a) for a in v]
        out[g] = v
    return out


def _snap_equal(a, b):
    def plain(v):
        if isinstance(v, np.ndarray) and v.dtype == object:
            return list(v)
        if isinstance(v, np.floating):
            return float(v)
        return v
    return all(a[k] is b[k] or _eq(plain(a[k]), plain(b[k])) for k in a)


def run_case(case, ctx):
    if "Spectrometer" not in _S:
        worker_init(ctx)
    _S["memo"] = None
    _S["last_view_detail"] = None
    _S["held"] = []
    with warnings.catch_warnings(), np.errstate(all="ignore"):
        warnings.simplefilter("ignore")
        try:
            _run(case, ctx)
        except InvariantBroken as e:
            what = {"range-covers": "the reported spectral range does not cover every pixel / filter",
                    "bin-width": "bin width (max-min)/spectral_bins exceeds narrowest pixel (window) / min_bins_per_pixel "
                                 "(min_bins_per_window), or spectral_bins is not a number >= 1"}[e.clause]
            ctx.viol("invariant:%s:%s:%s" % (e.clause, e.cls_name, e.mech or ("after-" + e.where)), what,
                     violated_after=e.where, **e.detail)
        finally:
            _S["memo"] = None
            _S["where"] = None
            _S["truth"] = None
            _S["held"] = []
            _flush_counts(ctx)


def _probe_returned_lists(ctx, throwaway, cname):
    """Evidence only (never a verdict): pipeline_kwargs / pipeline_classes have no setter, the list / dicts the getter
    returns are the only handle a user has to customise create_pipelines(); whether they are the internal objects or
    copies is not fixed by the wording of C16.  Done on a throw-away instrument."""
    try:
        kw = throwaway.pipeline_kwargs
        if kw:
            kw[0]["name"] = "<written by the caller>"
            shared = throwaway.pipeline_kwargs[0]["name"] == "<written by the caller>"
            ctx.cls("returned-pipeline_kwargs:%s" % ("internal-object" if shared else "copy"))
            if shared:
                ctx.skip("outside-wording:pipeline_kwargs-getter-returns-internal-dicts:%s" % cname)
    except (AttributeError, TypeError, IndexError, KeyError):
        ctx.cls("returned-pipeline_kwargs:not-probed")


def _run(case, ctx):
    kind = case["kind"]
    ctx.cls(kind)
    obs_names = POLY_OBS if kind == "polychromator" else SPEC_OBS
    pool = [_make_filter(s) for s in case.get("filters_pool", [])]
    _S["truth"] = {}
    for f, spec in zip(pool, case.get("filters_pool", [])):
        _S["truth"][id(f)] = (f,) + _filter_truth(spec)
        ctx.cls("filter-table:%s" % (_S["truth"][id(f)][3] if spec["type"] == "tabulated" else "trapezoid"))
    P = copy.deepcopy(case["init"])
    inst = build(kind, P, pool, form=case.get("init_form"))
    owned = (_S["last_container"], case.get("init_form"))
    if case.get("init_form"):
        ctx.cls("input-form:" + case["init_form"])
    cname = type(inst).__name__
    if kind == "czerny":
        angles = [P["diffraction_angle"]] + [o["value"] for o in case["ops"] if o["op"] == "set" and o["attr"] == "diffraction_angle"
                                             and not o.get("invalid")]
        ctx.cls("ct-angles:" + "+".join(sorted({"obtuse" if a > 90 else "acute" for a in angles})))
    last_set = "construction"
    accepted = 0
    reads_since_set = 0
    order_rng = np.random.default_rng(int(case.get("order_seed", 0)))

    def shadow(where):
        fresh = build(kind, P, pool)
        c = copy.copy(inst)
        names = list(obs_names)
        order_rng.shuffle(names)
        good = True
        for nm in names:
            good = compare(ctx, cname, nm, observe(c, nm, pool), observe(fresh, nm, pool), where, last_set, "diff_shadow") and good
        return good

    for step, op in enumerate(case["ops"]):
        if op["op"] == "set":
            attr = op["attr"]
            ctx.cls("set-on-%s-cache" % ("warm" if reads_since_set else "cold"))
            reads_since_set = 0
            value = setter_value(kind, attr, op["value"], pool, op)
            if op.get("form"):
                ctx.cls("input-form:" + op["form"])
            _S["where"] = ("rejected-set-" if op.get("invalid") else "set-") + attr
            if op.get("invalid"):
                before = _param_snapshot(inst, kind)
                try:
                    setattr(inst, attr, value)
                except (TypeError if op["invalid"] == "TypeError" else ValueError):
                    ctx.mon("set_rejected")
                else:
                    ctx.skip("invalid-value-accepted:%s.%s" % (cname, attr))
                    return
                if not _snap_equal(before, _param_snapshot(inst, kind)):
                    ctx.skip("rejected-setter-changed-parameter:%s.%s" % (cname, attr))
                    return
                last_set = "rejected-set-" + attr
                _S["where"] = last_set
            else:
                setattr(inst, attr, value)
                P[attr] = op["value"]
                if attr == ARRAY_ATTR[kind]:
                    owned = (value, op.get("form"))
                ctx.mon("set_accepted")
                accepted += 1
                last_set = "set-" + attr
            if not shadow("shadow copy after op %d" % step):
                return
        elif op["op"] == "reassign":
            # edit the container in place (caller's object, or the object read back from the getter), then assign the
            # SAME object again: a setter call whose value is the container's final contents
            attr = op["attr"]
            ctx.cls("set-on-%s-cache" % ("warm" if reads_since_set else "cold"))
            reads_since_set = 0
            obj = owned[0] if op["source"] == "owned" else getattr(inst, attr)
            form = owned[1]
            if op["source"] == "getter":
                form = "list" if isinstance(obj, list) else "ndarray" if isinstance(obj, np.ndarray) else "tuple"
            if op["edit"]["kind"] != "none":
                if attr == "wavelength_to_pixel":
                    new = _wl2pix_value(op["value"], form)
                elif attr == "accommodated_spectra":
                    new = _acc_value(op["value"], form)
                else:
                    new = _filters_value(op["value"], pool, form=form)
                if not _write_in_place(ctx, obj, new, cname, attr):
                    ctx.skip("reassign:container-not-editable-in-place:%s.%s" % (cname, attr))
                    return
            ctx.cls("reassign:%s:%s:%s" % (attr, op["source"], op["edit"]["kind"]))
            _S["where"] = last_set = "reassign-same-object-" + attr
            setattr(inst, attr, obj)
            P[attr] = copy.deepcopy(op["value"])
            owned = (obj, form if op["source"] == "owned" else "getter-object")
            ctx.mon("set_accepted")
            ctx.mon("set_reassigned")
            accepted += 1
            if not shadow("shadow copy after op %d" % step):
                return
        elif op["op"] == "read":
            reads_since_set += 1
            fresh = build(kind, P, pool)
            for nm in op["what"]:
                if not compare(ctx, cname, nm, observe(inst, nm, pool), observe(fresh, nm, pool),
                               "interleaved read at op %d" % step, last_set, "diff_read"):
                    return
        elif op["op"] == "calibrate":
            reads_since_set += 1
            check_calibration(ctx, inst, cname, op["spectrum"], pool, "op %d" % step)
        else:
            raise ValueError("unknown op %r" % op)

    if case.get("alias"):
        alias_phase(ctx, case, kind, inst, cname, P, pool, owned, obs_names)
        return

    # final differential on the live instrument
    fresh = build(kind, P, pool)
    good = True
    for nm in case["final_order"]:
        good = compare(ctx, cname, nm, observe(inst, nm, pool), observe(fresh, nm, pool), "final state", last_set,
                       "diff_final") and good
    if accepted:
        ctx.nontrivial()
    if not good:
        return
    if kind in ("spectrometer", "survey"):
        # the pixels are the arrays handed in, whatever container / dtype / construction path they came through
        got = observe(inst, "wavelength_to_pixel", pool)
        want = [expand_layout(l) for l in P["wavelength_to_pixel"]]
        ctx.check(got[0] == "ok" and _eq(got[1], want), "pixels:%s.wavelength_to_pixel:differs-from-input-arrays" % cname,
                  "the instrument's pixel-edge arrays are not the (float) values of the arrays it was given",
                  monitor="pixels_echo", reported=_brief(got))
    _probe_returned_lists(ctx, build(kind, P, pool), cname)
    if kind == "czerny":
        # evidence only: the wording does not fix the bin count beyond the bound, so a differing count is no verdict
        try:
            plain = _S["Spectrometer"](inst.wavelength_to_pixel, inst.min_bins_per_pixel, inst.name)
            same = (plain.min_wavelength, plain.max_wavelength, plain.spectral_bins) == (
                inst.min_wavelength, inst.max_wavelength, inst.spectral_bins)
            ctx.cls("ct-vs-plain-spectrometer-with-same-arrays:%s" % ("same-settings" if same else "different-settings"))
        except ValueError:
            ctx.cls("ct-vs-plain-spectrometer-with-same-arrays:not-comparable")
    if kind != "polychromator" and case.get("spectrum") is not None:
        check_calibration(ctx, inst, cname, case["spectrum"], pool, "final")
        extra = case.get("spectra_extra") or []
        if extra:
            # several calls with different source spectra, two instruments alive; earlier results are re-judged after
            # every call (rejudge_held inside check_calibration)
            ctx.cls("calib-sequence")
            check_calibration(ctx, fresh, cname, extra[0], pool, "final+1 (second instrument)", max_pixels=120)
            e2 = check_calibration(ctx, inst, cname, extra[-1], pool, "final+2", max_pixels=120)
            # the caller owns what it was handed: writing into one result changes no other result ...
            if e2 is not None and e2["arrays"] and _S["held"] and _S["held"][-1] is e2:
                for a, snap in zip(e2["arrays"], e2["snaps"]):
                    a[...] = -12345.0
                    snap[...] = -12345.0
                e2["law"] = [None] * len(e2["arrays"])
                ctx.mon("calib_caller_write")
                rejudge_held(ctx, "caller-writing-into-another-result")
                # ... and no later result
                check_calibration(ctx, inst, cname, extra[0], pool, "final+3 (after caller wrote into a result)", max_pixels=120)


# ----------------------------------------------------------------------------------------------
# caller-owned containers: what the instrument was handed stays the caller's, the instrument stays the instrument's
# ----------------------------------------------------------------------------------------------

ARRAY_ATTR = {"spectrometer": "wavelength_to_pixel", "survey": "wavelength_to_pixel", "czerny": "accommodated_spectra",
              "polychromator": "filters"}


def _unlock(ctx, a, cname, attr):
    """The caller's own array: if the instrument write-locked it, note it (outside the wording of C16) and unlock."""
    if not a.flags.writeable:
        ctx.skip("outside-wording:caller-array-made-read-only:%s.%s" % (cname, attr))
        try:
            a.flags.writeable = True
        except ValueError:
            return False
    return True


def _mutate_owned(ctx, kind, obj, how, pool, cname):
    """In-place change of the container the caller handed to the instrument (no instrument API involved).
    Returns the current contents as plain values, or None when the container is immutable."""
    attr = ARRAY_ATTR[kind]
    if attr == "wavelength_to_pixel":
        d = float(how["shift"])
        if isinstance(obj, np.ndarray):                       # rows of a 2-D buffer
            if not _unlock(ctx, obj, cname, attr):
                return None
            obj += int(round(d)) if obj.dtype.kind == "i" else d
        else:
            done = False
            bases = set()
            for k in range(len(obj)):
                a = obj[k]
                if isinstance(a, np.ndarray):
                    tgt = a.base if a.base is not None else a    # slices: change the buffer the views come from
                    if id(tgt) in bases:
                        continue
                    bases.add(id(tgt))
                    if not _unlock(ctx, tgt, cname, attr):
                        continue
                    tgt += int(round(d)) if tgt.dtype.kind == "i" else d
                    done = True
                elif isinstance(a, list):
                    for j in range(len(a)):
                        a[j] = a[j] + (int(round(d)) if isinstance(a[j], int) else d)
                    done = True
                elif isinstance(obj, list):                  # list of tuples: replace the item of the caller's list
                    obj[k] = tuple(x + d for x in a)
                    done = True
            if not done:
                return None
        return [np.array(a, dtype=float) for a in obj]
    if attr == "accommodated_spectra":
        d = float(how["shift"])
        if isinstance(obj, np.ndarray):
            obj[:, 0] += int(round(d)) if obj.dtype.kind == "i" else d
        elif isinstance(obj, list):
            for item in obj:
                item[0] = item[0] + d
        else:
            return None
        return tuple((float(a), (int(b) if float(b) == int(b) else float(b))) for a, b in obj)
    if attr == "filters":
        if isinstance(obj, tuple):
            return None
        extra = pool[int(how["filter"]) % len(pool)]
        if isinstance(obj, np.ndarray):
            obj[int(how["index"]) % len(obj)] = extra
        elif how["action"] == "append" or len(obj) < 2:
            obj.append(extra)
        elif how["action"] == "pop":
            obj.pop(int(how["index"]) % len(obj))
        else:
            obj[int(how["index"]) % len(obj)] = extra
        return list(obj)
    raise ValueError(attr)


def _build_with(kind, P, pool, current):
    if kind in ("spectrometer", "survey"):
        return _S["Spectrometer"](current, P["min_bins_per_pixel"], P["name"])
    if kind == "czerny":
        return _S["CzernyTurnerSpectrometer"](P["diffraction_order"], P["grating"], P["focal_length"], P["pixel_spacing"],
                                              P["diffraction_angle"], current, P["min_bins_per_pixel"], P["name"])
    return _S["Polychromator"](current, P["min_bins_per_window"], P["name"])


def alias_phase(ctx, case, kind, inst, cname, P, pool, owned, obs_names):
    """After the history: the caller changes, in place, the container it handed to the instrument (or writes into the
    arrays a getter returned).  No setter is called, so the instrument's observables must still describe ONE
    instrument: either the one built from the values as they were when set (the instrument copied its input) or --
    at most -- the one built from the container's current contents (it kept a reference and follows it completely).
    A mixture (stale caches next to new values, range not covering the reported pixels / filters) is the violation."""
    al = case["alias"]
    attr = ARRAY_ATTR[kind]
    obj, form = owned
    if form == "getter-object" and al["kind"] != "getter":
        ctx.skip("alias:container-is-the-instrument's-own-getter-object")
        return
    _S["where"] = "inplace-mutation-of-" + attr
    if al["kind"] == "getter":
        if kind == "polychromator":
            ctx.skip("alias:getter-arrays-not-applicable")
            return
        wrote = False
        for nm in ("wavelength_to_pixel", "wavelengths"):
            for a in getattr(inst, nm):
                ctx.mon("getter_write")
                try:
                    a[int(al["how"]["index"]) % a.size] += float(al["how"]["shift"])
                    wrote = True
                except ValueError:
                    ctx.cls("getter-array-read-only")
        label = "getter-array-written"
        current = None
        if not wrote:
            label = "getter-array-write-refused"
    else:
        current = _mutate_owned(ctx, kind, obj, al["how"], pool, cname)
        if current is None:
            ctx.skip("alias:immutable-container:%s" % (form or "tuple"))
            return
        label = "caller-%s-mutated" % (form or "tuple")
    ctx.cls("alias:%s:%s" % (attr, label))
    names = list(case["final_order"])
    try:
        O = [observe(inst, nm, pool) for nm in names]
    except InvariantBroken as e:
        ctx.mon("alias_judged")
        ctx.viol("alias:%s.%s:%s-changes-instrument" % (cname, attr, label),
                 "after an in-place change of the %s (no setter called) the instrument violates '%s'" % (
                     "array returned by a getter" if al["kind"] == "getter" else "container the caller had handed to it", e.clause),
                 clause=e.clause, **e.detail)
        return
    A = [observe(build(kind, P, pool), nm, pool) for nm in names]
    ctx.mon("alias_judged")
    ctx.nontrivial()
    same = lambda X, Y: all(x[0] == y[0] and _eq(x[1], y[1]) for x, y in zip(X, Y))
    if same(O, A):
        ctx.cls("alias-outcome:unaffected")
        return
    follows = []
    if current is not None:
        try:
            fb = _build_with(kind, P, pool, current)
        except ValueError:
            fb = None
        if fb is not None:
            B = [observe(fb, nm, pool) for nm in names]
            if same(O, B):
                ctx.cls("alias-outcome:follows-container-consistently")
                ctx.skip("alias:instrument-follows-caller-container-consistently:%s.%s" % (cname, attr))
                return
            follows = [nm for nm, o, a, b in zip(names, O, A, B) if not (o[0] == a[0] and _eq(o[1], a[1]))
                       and (o[0] == b[0] and _eq(o[1], b[1]))]
    changed = [nm for nm, o, a in zip(names, O, A) if not (o[0] == a[0] and _eq(o[1], a[1]))]
    ctx.viol("alias:%s.%s:%s-changes-instrument" % (cname, attr, label),
             "after an in-place change of the %s (no setter called) the instrument's observables are those of neither the "
             "instrument built from the values as set nor of one built from the container's current contents" % (
                 "array returned by a getter" if al["kind"] == "getter" else "container the caller had handed to it"),
             changed=changed, follow_current_contents=follows, form=form,
             mutated={nm: _brief(o) for nm, o in zip(names, O) if nm in changed},
             as_set={nm: _brief(a) for nm, a in zip(names, A) if nm in changed})


# ----------------------------------------------------------------------------------------------
# generators
# ----------------------------------------------------------------------------------------------

def _f(x):
    return float(x)


def _gen_layout(rng, start, big):
    u = rng.random()
    if big:
        n = int(rng.integers(100, 601))
    else:
        n = int(min(600, 2 + np.floor(10 ** rng.uniform(0, 2.2))))
        if rng.random() < 0.1:
            n = 2
    w = _f(10 ** rng.uniform(-3, 0.7))
    if u < 0.25:
        return {"kind": "uniform", "start": start, "width": w, "n": n}
    if u < 0.45:
        ratio = _f(1.0 + w / start * rng.uniform(0.5, 1.5))
        if start * ratio ** (n - 1) > 4 * start:
            ratio = _f(4.0 ** (1.0 / max(n - 1, 1)))
        return {"kind": "geometric", "start": start, "ratio": ratio, "n": n}
    if u < 0.75:
        return {"kind": "random", "start": start, "mean_width": w, "sigma": _f(rng.uniform(0.05, 1.2)), "n": n,
                "seed": int(rng.integers(2 ** 31))}
    if u < 0.9:
        # quadratic dispersion, increments b + c(2i+1) stay >= 0.3 b
        c = _f(rng.uniform(-0.35, 0.8) * w / max(n, 2))
        return {"kind": "quadratic", "start": start, "b": w, "c": c, "n": n}
    m = int(min(n, 12))
    inc = 10 ** rng.uniform(-2, 0.5, size=m - 1)
    edges = np.round(start + np.concatenate(([0.0], np.cumsum(inc))), 3)
    if rng.random() < 0.5:
        edges = np.round(start) + np.concatenate(([0], np.cumsum(rng.integers(1, 9, size=m - 1))))   # integer-valued
    edges = np.unique(edges)
    if edges.size < 2:
        edges = np.array([start, start + 1.0])
    return {"kind": "explicit", "edges": [float(e) for e in edges]}


def _valid_layout(rec):
    a = expand_layout(rec)
    return a.ndim == 1 and a.size >= 2 and bool(np.all(np.isfinite(a))) and bool(np.all(np.diff(a) > 0)) and a[0] > 0


def _gen_wl2pix(rng, survey=False):
    out = []
    if survey:
        k = int(rng.integers(2, 6))
        start = _f(np.round(rng.uniform(180, 400), 1))
        for _ in range(k):
            n = int(rng.integers(64, 601))
            b = _f(rng.uniform(0.08, 0.6))
            c = _f(rng.uniform(-0.3, 0.3) * b / n)
            rec = {"kind": "quadratic", "start": start, "b": b, "c": c, "n": n}
            out.append(rec)
            end = float(expand_layout(rec)[-1])
            mode = rng.random()
            start = end if mode < 0.4 else _f(end - rng.uniform(0.02, 0.3) * (end - start)) if mode < 0.8 else _f(end + rng.uniform(1, 30))
        if rng.random() < 0.3:
            perm = rng.permutation(len(out))
            out = [out[int(i)] for i in perm]
        return out
    k = int(rng.integers(1, 6))
    if rng.random() < 0.35:
        k = 1
    big = rng.random() < 0.08
    start = _f(np.round(rng.uniform(200, 1000), int(rng.integers(0, 4))))
    for _ in range(k):
        for _try in range(20):
            rec = _gen_layout(rng, start, big)
            if _valid_layout(rec):
                break
        else:
            rec = {"kind": "explicit", "edges": [start, start + 1.0]}
        out.append(rec)
        a = expand_layout(rec)
        mode = rng.random()
        if mode < 0.25:
            start = float(a[-1])                                   # adjacent, shared edge
        elif mode < 0.5:
            start = float(a[int(rng.integers(a.size))])            # overlapping, starts on an edge of the previous
        elif mode < 0.65:
            start = _f(a[0] + rng.random() * (a[-1] - a[0]))        # overlapping / nested
        elif mode < 0.8:
            start = _f(max(50.0, a[0] - rng.uniform(1, 100)))      # below
        else:
            start = _f(a[-1] + rng.uniform(0.5, 200))              # disjoint above
    return out


def _gen_name(rng):
    names = ["", "spec", "MySpectrometer", "instrument A", "näme ✓", "x" * 40, "poly: 1", 7, 3.5, None, "a", "b"]
    return names[int(rng.integers(len(names)))]


def _gen_bins_per(rng):
    vals = [1, 1, 2, 3, 5, 10, 20, 2.7, 1.0, 7, 64, True]
    return vals[int(rng.integers(len(vals)))]


def _gen_bad_bins_per(rng):
    vals = [0, -1, -7, 0.5, 0.0, -0.2]
    return vals[int(rng.integers(len(vals)))]


def _gen_spectrum(rng, small=False):
    bins = int(np.floor(10 ** rng.uniform(0, 2.5 if small else 3.7)))
    bins = max(1, min(bins, 5000))
    u = rng.random()
    if u < 0.35:
        r = {"mode": "exact"}
    elif u < 0.7:
        r = {"mode": "loose", "lo": _f(10 ** rng.uniform(-6, 1.7)), "hi": _f(10 ** rng.uniform(-6, 1.7))}
    else:
        r = {"mode": "aligned", "a": int(rng.integers(0, 4)), "b": int(rng.integers(0, 4)),
             "j": int([1, 1, 2, 3, 5, -2, -3, -7][int(rng.integers(8))])}
    kinds = ["random", "random", "smooth", "smooth", "spike", "const", "ramp", "signed", "zero"]
    k = kinds[int(rng.integers(len(kinds)))]
    s = {"kind": k, "seed": int(rng.integers(2 ** 31)), "amp": _f(10 ** rng.uniform(-3, 3))}
    if k == "spike":
        s["nspikes"] = int(rng.integers(1, 4))
    if k == "smooth":
        s["nlines"] = int(rng.integers(1, 6))
    return {"bins": bins, "range": r, "samples": s}


# -- Czerny-Turner domain (used by the generator only; never by an oracle) ----------------------

def _ct_in_domain(P):
    """Generator-side only (never an oracle): every pixel width of the scheme is real and positive.  The edge
    recurrence is followed pixel by pixel because the width falls with wavelength for acute diffraction angles and
    GROWS for obtuse ones."""
    m = int(P["diffraction_order"])
    g, fl, dx = P["grating"], P["focal_length"], P["pixel_spacing"]
    th = math.radians(P["diffraction_angle"])
    c2, tn, pre = math.cos(th) ** 2, math.tan(th), dx / (m * fl * g)
    for wl0, pixels in P["accommodated_spectra"]:
        wl = float(wl0)
        rmin, rmax = float("inf"), 0.0
        for _ in range(int(pixels)):
            pp = 0.5 * m * g * wl
            d = c2 - pp * pp
            if d <= 1e-4:
                return False
            r = pre * (math.sqrt(d) - pp * tn)
            if not (r > 1e-7 * wl) or r > 50.0:
                return False
            rmin, rmax = min(rmin, r), max(rmax, r)
            wl += r
        if rmin < 0.02 * rmax or wl > 5000.0:
            return False
    return True


def _gen_ct_value(rng, attr):
    if attr == "diffraction_order":
        return [1, 1, 2, 3, 2.0, 1.9, 4, 5][int(rng.integers(8))]
    if attr == "grating":
        return _f(10 ** rng.uniform(np.log10(1e-4), np.log10(3.6e-3)))           # 100 .. 3600 lines / mm
    if attr == "focal_length":
        return _f(10 ** rng.uniform(np.log10(1e8), np.log10(4e9)))
    if attr == "pixel_spacing":
        return _f(10 ** rng.uniform(np.log10(2e3), np.log10(6e4)))
    if attr == "diffraction_angle":
        # whole legal domain: acute AND obtuse angles between the incident and the diffracted beam
        return _f(rng.uniform(1, 85) if rng.random() < 0.5 else rng.uniform(95, 179))
    if attr == "accommodated_spectra":
        k = int(rng.integers(1, 6))
        if rng.random() < 0.3:
            k = 1
        out = []
        for _ in range(k):
            px = int(min(600, 1 + np.floor(10 ** rng.uniform(0, 2.5))))
            if rng.random() < 0.03:
                px = int(rng.integers(300, 601))
            pxv = float(px) if rng.random() < 0.1 else px
            out.append([_f(np.round(rng.uniform(150, 1100), int(rng.integers(0, 3)))), pxv])
        return out
    if attr == "min_bins_per_pixel":
        return _gen_bins_per(rng)
    if attr == "name":
        return _gen_name(rng)
    raise ValueError(attr)


CT_ATTRS = ["diffraction_order", "grating", "focal_length", "pixel_spacing", "diffraction_angle", "accommodated_spectra",
            "min_bins_per_pixel", "name"]


def _gen_filter_spec(rng, i):
    if rng.random() < 0.65:
        window = _f(np.round(10 ** rng.uniform(-0.5, 1.3), int(rng.integers(1, 4))))
        if rng.random() < 0.15:
            window = _f(np.round(10 ** rng.uniform(1.3, 2.6), 1))      # broad-band filter enclosing narrower ones
        u = rng.random()
        ft = None if u < 0.3 else window if u < 0.45 else _f(window * rng.uniform(0.05, 0.95))
        return {"type": "trapezoid", "c": _f(np.round(rng.uniform(250, 1000), int(rng.integers(0, 3)))), "window": window,
                "flat_top": ft, "name": "filter %d" % i}
    n = int(rng.integers(3, 13))
    c = rng.uniform(250, 1000)
    span = 10 ** rng.uniform(-0.3, 1.5)
    dtype = "int" if rng.random() < 0.3 else "float"
    if dtype == "int":
        half = max(int(np.ceil(span)), n)
        wl = np.sort(rng.choice(np.arange(int(c) - half, int(c) + half + 1), size=n, replace=False)).astype(float)
    else:
        wl = np.sort(c + span * (rng.random(n) - 0.5))           # irregular spacing
        if np.any(np.diff(wl) <= 1e-6):
            wl = c + span * np.linspace(-0.5, 0.5, n) ** 3 * 4    # irregular but duplicate-free
    s = rng.random(n)
    if dtype == "int" and rng.random() < 0.5:
        s = rng.integers(0, 4, size=n).astype(float)
        s[int(rng.integers(n))] = 1.0
    if rng.random() < 0.5:
        s[0] = 0.0
    if rng.random() < 0.5:
        s[-1] = 0.0
    u = rng.random()
    if u < 0.3:
        wl, s = wl[::-1], s[::-1]                                # descending table
    elif u < 0.65:
        perm = rng.permutation(n)                                 # shuffled table
        wl, s = wl[perm], s[perm]
    if dtype == "int":
        wlv = [int(x) for x in wl]
        sv = [int(x) for x in s] if np.all(s == np.round(s)) else [float(x) for x in s]
    else:
        wlv, sv = [float(x) for x in wl], [float(x) for x in s]
    return {"type": "tabulated", "wavelengths": wlv, "samples": sv, "dtype": dtype,
            "container": ["list", "tuple", "ndarray"][int(rng.integers(3))],
            "normalise": bool(rng.random() < 0.3), "name": ["tab %d" % i, "", "H-alpha"][int(rng.integers(3))]}


def _gen_filter_idx(rng, npool):
    k = int(rng.integers(1, min(8, npool) + 1))
    if rng.random() < 0.15:
        return [int(i) for i in rng.integers(0, npool, size=k)]          # duplicates allowed
    return [int(i) for i in rng.permutation(npool)[:k]]


WL2PIX_FORMS = ["list", "tuple", "tuple-of-lists", "list-of-tuples", "int-arrays", "ndarray-2d", "slices"]
SEQ_FORMS = ["list", "tuple", "ndarray"]


STRUCT_FORMS = {"wavelength_to_pixel": ("list", "int-arrays", "slices", "list-of-tuples", None),
                "accommodated_spectra": ("list",), "filters": ("list", None)}
VALUE_FORMS = {"wavelength_to_pixel": ("tuple", "tuple-of-lists", "ndarray-2d"), "accommodated_spectra": ("ndarray",),
               "filters": ("ndarray",)}


def _edit_model(attr, value, edit):
    """The container's contents (model representation) after the in-place edit; None when the edit does not apply."""
    v = copy.deepcopy(value)
    k = edit["kind"]
    if k == "none":
        return v
    if k == "shift":
        d = int(edit["delta"])
        if attr == "wavelength_to_pixel":
            return [{"kind": "explicit", "edges": [float(x) for x in expand_layout(l) + d]} for l in v]
        if attr == "accommodated_spectra":
            return [[a + d, b] for a, b in v]
        return None
    if k == "append":
        return v + [copy.deepcopy(edit["item"])]
    if k == "delete":
        if len(v) < 2:
            return None
        del v[int(edit["index"]) % len(v)]
        return v
    if k == "replace":
        v[int(edit["index"]) % len(v)] = copy.deepcopy(edit["item"])
        return v
    raise ValueError(k)


def _write_in_place(ctx, obj, new, cname, attr):
    """Give the existing container `obj` the contents of `new` (same form) without creating a new top-level object."""
    if isinstance(obj, list):
        obj[:] = list(new)
        return True
    if isinstance(obj, np.ndarray):
        new = np.asarray(new)
        if obj.shape != new.shape or not _unlock(ctx, obj, cname, attr):
            return False
        obj[...] = new
        return True
    if isinstance(obj, tuple) and len(obj) == len(new):
        for item, n in zip(obj, new):
            if isinstance(item, np.ndarray):
                n = np.asarray(n)
                if item.shape != n.shape or not _unlock(ctx, item, cname, attr):
                    return False
                item[...] = n
            elif isinstance(item, list):
                item[:] = list(n)
            else:
                return False
        return True
    return False


def _insert_reassigns(rng, case):
    """History step 'edit the container in place, then assign THE SAME OBJECT again' (also the object read back from the
    getter) for the container-valued parameter; the model value after the step is the container's final contents."""
    kind = case["kind"]
    attr = ARRAY_ATTR[kind]
    P = copy.deepcopy(case["init"])
    form = case.get("init_form")
    ops, out, n = case["ops"], [], 0
    for pos in range(len(ops) + 1):
        if n < 2 and rng.random() < 0.09:
            source = "getter" if rng.random() < 0.3 else "owned"
            editable_struct = form in STRUCT_FORMS[attr]
            editable_value = form in VALUE_FORMS[attr]
            if source == "getter" and not (kind == "czerny" and form in ("list", "ndarray")):
                editable_struct = editable_value = False          # read-only arrays / tuples come back from the getters
            kinds = ["none"]
            if editable_struct:
                kinds = ["append", "delete", "replace", "shift"] if attr != "filters" else ["append", "delete", "replace"]
            elif editable_value:
                kinds = ["shift"] if attr != "filters" else ["replace"]
            edit = {"kind": kinds[int(rng.integers(len(kinds)))], "index": int(rng.integers(0, 1000)),
                    "delta": [1, 2, 5, 17][int(rng.integers(4))]}
            if edit["kind"] in ("append", "replace"):
                if attr == "wavelength_to_pixel":
                    edit["item"] = _gen_wl2pix(rng, False)[0]
                    if edit["kind"] == "replace" and form == "ndarray-2d":
                        edit["kind"] = "shift"
                elif attr == "accommodated_spectra":
                    edit["item"] = _gen_ct_value(rng, attr)[0]
                else:
                    edit["item"] = int(rng.integers(len(case["filters_pool"])))
            new = _edit_model(attr, P[attr], edit)
            ok = new is not None
            if ok and kind == "czerny":
                Q = dict(P)
                Q[attr] = new
                ok = _ct_in_domain(Q)
                for later in ops[pos:]:
                    if not ok or (later["op"] == "set" and later["attr"] == attr and not later.get("invalid")):
                        break
                    if later["op"] == "set" and not later.get("invalid"):
                        Q[later["attr"]] = later["value"]
                        ok = _ct_in_domain(Q)
            if ok:
                out.append({"op": "reassign", "attr": attr, "source": source, "edit": edit, "value": new, "form": form})
                P[attr] = new
                n += 1
        if pos < len(ops):
            op = ops[pos]
            out.append(op)
            if op["op"] == "set" and not op.get("invalid"):
                P[op["attr"]] = op["value"]
                if op["attr"] == attr:
                    form = op.get("form")
    case["ops"] = out


def _gen_reads(rng, obs_names):
    k = int(rng.integers(1, 5))
    if rng.random() < 0.15:
        k = len(obs_names)
    idx = rng.permutation(len(obs_names))[:k]
    return {"op": "read", "what": [obs_names[int(i)] for i in idx]}


def gen_case(rng, tier):
    u = rng.random()
    kind = "spectrometer" if u < 0.30 else "survey" if u < 0.42 else "czerny" if u < 0.70 else "polychromator"
    nops = int(rng.integers(1, 16))
    case = {"kind": kind, "order_seed": int(rng.integers(2 ** 31))}
    ops = []
    if kind in ("spectrometer", "survey"):
        obs = SPEC_OBS
        survey = kind == "survey"
        case["init"] = {"wavelength_to_pixel": _gen_wl2pix(rng, survey), "min_bins_per_pixel": _gen_bins_per(rng),
                        "name": _gen_name(rng)}
        case["init_form"] = WL2PIX_FORMS[int(rng.integers(len(WL2PIX_FORMS)))]
        for _ in range(nops):
            v = rng.random()
            if v < 0.55:
                a = rng.random()
                if a < 0.4:
                    bad = rng.random() < 0.15
                    ops.append({"op": "set", "attr": "min_bins_per_pixel",
                                "value": _gen_bad_bins_per(rng) if bad else _gen_bins_per(rng), **({"invalid": "ValueError"} if bad else {})})
                elif a < 0.75:
                    if rng.random() < 0.06:
                        ops.append({"op": "set", "attr": "wavelength_to_pixel", "value": _gen_wl2pix(rng, False),
                                    "form": "reversed", "invalid": "ValueError"})
                    elif rng.random() < 0.08:
                        raws = [[[400.0, 401.0, 401.0, 402.0]], [[500.0]], [[400.0, 399.0]], [[[1.0, 2.0], [3.0, 4.0]]],
                                [[400.0, 401.0], [600.0, 599.0, 601.0]]]
                        ops.append({"op": "set", "attr": "wavelength_to_pixel", "value": None,
                                    "raw": raws[int(rng.integers(len(raws)))], "invalid": "ValueError"})
                    else:
                        ops.append({"op": "set", "attr": "wavelength_to_pixel", "value": _gen_wl2pix(rng, survey and rng.random() < 0.7),
                                    "form": WL2PIX_FORMS[int(rng.integers(len(WL2PIX_FORMS)))]})
                else:
                    ops.append({"op": "set", "attr": "name", "value": _gen_name(rng)})
            elif v < 0.9:
                ops.append(_gen_reads(rng, obs))
            else:
                ops.append({"op": "calibrate", "spectrum": _gen_spectrum(rng, small=True)})
        case["spectrum"] = _gen_spectrum(rng)
        case["spectra_extra"] = [_gen_spectrum(rng, small=True), _gen_spectrum(rng, small=True)]
    elif kind == "czerny":
        obs = SPEC_OBS
        for _try in range(400):
            P = {a: _gen_ct_value(rng, a) for a in CT_ATTRS}
            if _ct_in_domain(P):
                break
        else:
            P = {"diffraction_order": 1, "grating": 2e-3, "focal_length": 1e9, "pixel_spacing": 2e4, "diffraction_angle": 10.0,
                 "accommodated_spectra": [[400.0, 64], [500.0, 32]], "min_bins_per_pixel": 2, "name": "ct"}
        case["init"] = copy.deepcopy(P)
        case["init_form"] = SEQ_FORMS[int(rng.integers(3))]
        for _ in range(nops):
            v = rng.random()
            if v < 0.6:
                if rng.random() < 0.12:
                    attr = ["diffraction_order", "grating", "focal_length", "pixel_spacing", "diffraction_angle",
                            "accommodated_spectra", "min_bins_per_pixel"][int(rng.integers(7))]
                    if attr == "accommodated_spectra":
                        val = [[[400.0, 10], [-1.0, 5]], [[0.0, 4]], [[500.0, 0]], [[450.0, 12], [600.0, -3]]][int(rng.integers(4))]
                    elif attr == "min_bins_per_pixel":
                        val = _gen_bad_bins_per(rng)
                    elif attr == "diffraction_order":
                        val = [0, -1, 0.4][int(rng.integers(3))]
                    else:
                        val = [0.0, -1.0, -1e-3, 0][int(rng.integers(4))]
                    ops.append({"op": "set", "attr": attr, "value": val, "invalid": "ValueError"})
                    continue
                for _try in range(30):
                    attr = CT_ATTRS[int(rng.integers(len(CT_ATTRS)))]
                    val = _gen_ct_value(rng, attr)
                    Q = dict(P)
                    Q[attr] = val
                    if _ct_in_domain(Q):
                        P = Q
                        op = {"op": "set", "attr": attr, "value": val}
                        if attr == "accommodated_spectra":
                            op["form"] = SEQ_FORMS[int(rng.integers(3))]
                        ops.append(op)
                        break
            elif v < 0.9:
                ops.append(_gen_reads(rng, obs))
            else:
                ops.append({"op": "calibrate", "spectrum": _gen_spectrum(rng, small=True)})
        case["spectrum"] = _gen_spectrum(rng)
        case["spectra_extra"] = [_gen_spectrum(rng, small=True), _gen_spectrum(rng, small=True)]
    else:
        obs = POLY_OBS
        npool = int(rng.integers(2, 11))
        case["filters_pool"] = [_gen_filter_spec(rng, i) for i in range(npool)]
        if rng.random() < 0.25:
            # one broad-band channel enclosing (most of) the narrow filters, at a random position of the pool
            case["filters_pool"][int(rng.integers(npool))] = {
                "type": "trapezoid", "c": _f(np.round(rng.uniform(600, 700), 1)), "window": _f(np.round(rng.uniform(500, 1000), 0)),
                "flat_top": _f(np.round(rng.uniform(100, 450), 0)), "name": "broad band"}
        case["init"] = {"filters": _gen_filter_idx(rng, npool), "min_bins_per_window": _gen_bins_per(rng), "name": _gen_name(rng)}
        case["init_form"] = SEQ_FORMS[int(rng.integers(3))]
        for _ in range(nops):
            v = rng.random()
            if v < 0.62:
                a = rng.random()
                if a < 0.45:
                    if rng.random() < 0.12:
                        idx = _gen_filter_idx(rng, npool)
                        idx.insert(int(rng.integers(len(idx) + 1)), ["bad-str", "bad-sf"][int(rng.integers(2))])
                        ops.append({"op": "set", "attr": "filters", "value": idx, "invalid": "TypeError"})
                    else:
                        ops.append({"op": "set", "attr": "filters", "value": _gen_filter_idx(rng, npool),
                                    "form": SEQ_FORMS[int(rng.integers(3))]})
                elif a < 0.75:
                    bad = rng.random() < 0.15
                    ops.append({"op": "set", "attr": "min_bins_per_window",
                                "value": _gen_bad_bins_per(rng) if bad else _gen_bins_per(rng), **({"invalid": "ValueError"} if bad else {})})
                else:
                    ops.append({"op": "set", "attr": "name", "value": _gen_name(rng)})
            else:
                ops.append(_gen_reads(rng, obs))
    if rng.random() < 0.3:
        how = {"shift": [1.0, 3.0, 0.5, 12.0, 100.0][int(rng.integers(5))], "index": int(rng.integers(0, 1000)),
               "filter": int(rng.integers(0, 1000)), "action": ["append", "pop", "replace"][int(rng.integers(3))]}
        case["alias"] = {"kind": "getter" if (kind != "polychromator" and rng.random() < 0.25) else "caller", "how": how}
    case["ops"] = ops
    _insert_reassigns(rng, case)
    case["final_order"] = [obs[int(i)] for i in rng.permutation(len(obs))]
    return case


def fixed_cases(tier):
    """Deterministic regression / hostile histories (documented examples, warm-cache setters of every kind)."""
    sp_init = {"wavelength_to_pixel": [{"kind": "explicit", "edges": [400., 400.5, 401.5, 402., 404.]},
                                       {"kind": "explicit", "edges": [600., 600.5, 601.5, 602., 604., 607.]}],
               "min_bins_per_pixel": 5, "name": "MySpectrometer"}
    allr = {"op": "read", "what": list(SPEC_OBS)}
    spectrum = {"bins": 12, "range": {"mode": "loose", "lo": 1.0, "hi": 1.0}, "samples": {"kind": "ramp", "seed": 0, "amp": 6.0}}
    cases = []
    cases.append({"kind": "spectrometer", "order_seed": 1, "init": sp_init, "spectrum": spectrum, "final_order": list(SPEC_OBS),
                  "ops": [allr, {"op": "set", "attr": "min_bins_per_pixel", "value": 2}, allr,
                          {"op": "set", "attr": "name", "value": "renamed"}, allr,
                          {"op": "set", "attr": "wavelength_to_pixel", "value": [{"kind": "uniform", "start": 500.0, "width": 0.25, "n": 41}]},
                          {"op": "calibrate", "spectrum": spectrum},
                          {"op": "set", "attr": "min_bins_per_pixel", "value": 0, "invalid": "ValueError"},
                          {"op": "set", "attr": "min_bins_per_pixel", "value": 7}]})
    cases.append({"kind": "spectrometer", "order_seed": 2, "init": sp_init, "final_order": list(reversed(SPEC_OBS)),
                  "spectrum": {"bins": 1, "range": {"mode": "exact"}, "samples": {"kind": "const", "seed": 0, "amp": 2.0}},
                  "ops": [{"op": "read", "what": ["spectral_bins"]}, {"op": "set", "attr": "min_bins_per_pixel", "value": 1},
                          {"op": "read", "what": ["pipeline_kwargs"]}, {"op": "set", "attr": "name", "value": 7},
                          {"op": "read", "what": ["max_wavelength"]},
                          {"op": "set", "attr": "wavelength_to_pixel", "value": [{"kind": "explicit", "edges": [300.0, 300.001]}]}]})
    ct_init = {"diffraction_order": 1, "grating": 2.e-3, "focal_length": 1.e9, "pixel_spacing": 2.e4, "diffraction_angle": 10.,
               "accommodated_spectra": [[400., 64], [500., 32]], "min_bins_per_pixel": 2, "name": "test spectrometer"}
    ct_ops = []
    for attr, val in (("grating", 1.2e-3), ("diffraction_order", 2), ("focal_length", 5e8), ("pixel_spacing", 1.3e4),
                      ("diffraction_angle", 25.0), ("accommodated_spectra", [[350., 512], [450., 128]]),
                      ("min_bins_per_pixel", 3), ("name", "other")):
        ct_ops += [allr, {"op": "set", "attr": attr, "value": val}]
    cases.append({"kind": "czerny", "order_seed": 3, "init": ct_init, "ops": ct_ops, "final_order": list(SPEC_OBS),
                  "spectrum": {"bins": 4000, "range": {"mode": "loose", "lo": 0.5, "hi": 2.0},
                               "samples": {"kind": "smooth", "seed": 5, "amp": 1.0, "nlines": 4}}})
    pool = [{"type": "trapezoid", "c": 400., "window": 6., "flat_top": 2., "name": "filter 1"},
            {"type": "trapezoid", "c": 700., "window": 8., "flat_top": 4., "name": "filter 2"},
            {"type": "trapezoid", "c": 656.1, "window": 3., "flat_top": None, "name": "H-alpha filter"},
            {"type": "tabulated", "wavelengths": [658., 654., 656.], "samples": [0.5, 0.5, 1.], "normalise": False, "name": "test_filter"},
            {"type": "trapezoid", "c": 464.8, "window": 3., "flat_top": 3., "name": "CIII 465 nm filter"}]
    allp = {"op": "read", "what": list(POLY_OBS)}
    cases.append({"kind": "polychromator", "order_seed": 4, "filters_pool": pool, "final_order": list(POLY_OBS),
                  "init": {"filters": [0, 1], "min_bins_per_window": 10, "name": "test polychromator"},
                  "ops": [allp, {"op": "set", "attr": "min_bins_per_window", "value": 20}, allp,
                          {"op": "set", "attr": "filters", "value": [2, 3, 4]}, allp,
                          {"op": "set", "attr": "name", "value": "MyPolychromator"}, allp,
                          {"op": "set", "attr": "filters", "value": [4]}, allp,
                          {"op": "set", "attr": "filters", "value": [1, "bad-str"], "invalid": "TypeError"},
                          {"op": "set", "attr": "filters", "value": [3, 0, 1, 2], "form": "tuple"}]})
    pool2 = [{"type": "tabulated", "wavelengths": [700, 650, 640, 600], "samples": [0, 1, 1, 0], "dtype": "int",
              "container": "tuple", "normalise": False, "name": "descending"},
             {"type": "tabulated", "wavelengths": [500.5, 497.0, 503.25, 499.0, 501.0], "samples": [0.8, 0.0, 0.0, 0.6, 1.0],
              "dtype": "float", "container": "ndarray", "normalise": True, "name": "shuffled"},
             {"type": "tabulated", "wavelengths": [420.0, 421.5, 422.0, 426.0], "samples": [0.2, 1.0, 0.9, 0.1], "dtype": "float",
              "container": "list", "normalise": False, "name": "ascending"},
             {"type": "trapezoid", "c": 656.1, "window": 3., "flat_top": 1., "name": "H-alpha filter"}]
    cases.append({"kind": "polychromator", "order_seed": 5, "filters_pool": pool2, "final_order": list(POLY_OBS),
                  "init": {"filters": [1, 3], "min_bins_per_window": 10, "name": "unsorted tables"}, "init_form": "tuple",
                  "ops": [allp, {"op": "set", "attr": "filters", "value": [0], "form": "ndarray"}, allp,
                          {"op": "set", "attr": "filters", "value": [2, 0, 1], "form": "list"},
                          {"op": "set", "attr": "min_bins_per_window", "value": 3}, allp]})
    for c in cases:
        if c["kind"] != "polychromator":
            c["spectra_extra"] = [{"bins": 9, "range": {"mode": "loose", "lo": 0.3, "hi": 0.1},
                                   "samples": {"kind": "random", "seed": 11, "amp": 3.0}},
                                  {"bins": 140, "range": {"mode": "exact"}, "samples": {"kind": "smooth", "seed": 12, "amp": 0.5, "nlines": 2}}]
    cases.append({"kind": "spectrometer", "order_seed": 6, "init_form": "ndarray-2d", "final_order": list(SPEC_OBS),
                  "init": {"wavelength_to_pixel": [{"kind": "explicit", "edges": [400, 401, 403, 404]},
                                                   {"kind": "explicit", "edges": [600, 602, 603, 607]}],
                           "min_bins_per_pixel": 2, "name": "int edges"},
                  "spectrum": {"bins": 37, "range": {"mode": "exact"}, "samples": {"kind": "random", "seed": 3, "amp": 1.0}},
                  "ops": [allr, {"op": "set", "attr": "wavelength_to_pixel", "form": "int-arrays",
                                 "value": [{"kind": "explicit", "edges": [500, 501, 505]}]},
                          {"op": "set", "attr": "wavelength_to_pixel", "form": "reversed", "invalid": "ValueError",
                           "value": [{"kind": "explicit", "edges": [300, 301, 305]}]},
                          {"op": "set", "attr": "wavelength_to_pixel", "form": "tuple-of-lists",
                           "value": [{"kind": "explicit", "edges": [500, 501, 505]}, {"kind": "uniform", "start": 450.0, "width": 0.5, "n": 9}]}]})
    return cases
