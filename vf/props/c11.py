"""C11 — inversion solvers: SART follows its update rule, NNLS/LSQ return true minimisers.

Monitors (all on the real cherab.tools.inversions functions):
  sart / csart : an independent NumPy SART written from the docstring formula (vf/refmath_c11.SartRef) is run in lock-step
                 from the same initial guess: final iterate, convergence list (element-wise) and the stopping decision are
                 compared.  The tolerance of every comparison is the propagated rounding-error bound of the iteration
                 itself (S-norm contraction argument, see SartRef); a stopping decision closer to conv_tol than that bound
                 is followed, counted and not judged; an iteration that amplifies rounding errors beyond 1e-6 of the
                 solution scale (beta_laplace * |L| too large, overflow) is counted and only checked for non-negativity.
                 Fixed point: b = W x*, x0 = x* (and beta L x* = 0) => returned x = x*.  Non-negativity of every result.
  nnls         : x >= 0, g = C^T(Cx-d) >= -tau, x_j g_j <= tau |x|_inf with C = [W; alpha L], d = [b; 0],
                 tau = 1e-8 (|C|_2^2 |x|_2 + |C|_2 |d|_2); reported norm = |Cx-d|.  A recorder on scipy.optimize.nnls is
                 used only to name the mechanism of a failed certificate: if the wrapper handed over the documented stacked
                 system and returned scipy's output unchanged and scipy's output fails the same certificate on its own
                 input, the key is nnls:scipy-nnls-* (third-party defect passed through), otherwise nnls:kkt-* /
                 nnls:residual-norm-inconsistent (wrapper).
  lstsq        : |g|_inf <= tau; residuals[0] = |Cx-d|^2 when non-empty.
  svd          : |W^T(Wx-b)|_inf <= tau and x orthogonal to null(W) (minimum norm), skipped when the numerical rank is ambiguous.
  objective    : (nnls / lstsq / svd) the minimiser of a rank-deficient system is a subspace, so the minimiser property is also
                 judged on the objective: |Cx-d|^2 of the returned x (extended precision) must not exceed the objective of an
                 independent reference (own truncated SVD of the stacked system; for NNLS feasible candidates: clipped SVD
                 solution, bounded-variable LS, x = 0) by more than the second-order term of a 1e-8 gradient plus the noise of
                 evaluating f at a float64 vector of legitimate size -- a blown-up x buys no tolerance.  Rank-deficiency class:
                 duplicated / proportional / linearly dependent columns and rows, low-rank products, N_d >= N_s, alpha in
                 {0, 1e-300, 1e-12, 1e-9, 1e-6} as well as ordinary values.  (Emptiness of the lstsq residual array is not
                 documented by the wrapper and is not judged.)
  zero_b       : b = 0 driven as its own class for all five entry points (x = 0 is the exact solution / minimiser).
  signs        : measurement vectors without a positive entry (zeros and negatives), all-negative and mixed-sign vectors for all
                 five entry points; SART accepts them (the rule and the convergence measure are defined, the iterates are clipped
                 at zero) and is judged by the same lock-step reference, NNLS/LSQ/SVD by the same certificates; keys get the
                 suffix :non-positive-measurements when b has no positive but a negative entry.
  sequence     : 2-5 consecutive calls on the SAME W / b / Laplacian / Tikhonov / initial-guess objects, modified in place between
                 calls (rows / columns rescaled or zeroed, entries perturbed, shapes kept; array initial guesses are warm starts),
                 optionally interleaved with calls on other systems.  Every call is judged by its own oracle on the values the
                 objects hold at call time; a twin call on fresh copies (40 % of the calls, and whenever the oracle objected)
                 must give the same result: sequence:<solver>:result-depends-on-previous-call.
"""
import warnings

import numpy as np

from vf import refmath_c11 as rm

ID = "C11"
LEVEL = "exploration"
RULE = ("random systems: grids nx,ny in 1..8 (n = nx*ny cells), m in 1..40 observations (under-/over-determined), geometry "
        "matrices of kinds dense / sparse / chord line-integrals over the grid / low rank / identity / all-zero with "
        "modifiers (duplicated rows or columns, zero rows or columns, row/column scaling over decades, Fortran order, "
        "overall scale 1e-6..1e3), measurements consistent / noisy / slightly negative / random / single channel / "
        "all-zero (own class), emissivity scale 1e-3..1e8; SART: initial guess None / float / int / array / zeros / exact "
        "solution / partly negative, relaxation 0.1..1.9, max_iterations 1..300, conv_tol 0..1e-2, beta_laplace 0..0.5 with "
        "4-/8-neighbour grid Laplacians, identity, zero; NNLS/LSQ: alpha 0..10 and 1e-11, Tikhonov None / identity / "
        "Laplacian / demo idiom with 1e10 columns / dense / singular diagonal / zero.  Every argument is additionally "
        "handed over in the representations a NumPy user passes (same values, quantised where needed): W as int64 / int32 / "
        "uint8 / bool / float32 / Fortran / non-contiguous view / nested list, b as int64 / float32 / list / view, Tikhonov "
        "and Laplacian as int / float32 / list / strided, alpha as int / numpy scalars, initial guesses as bool / numpy "
        "scalars / int / float32 / list / view; what the unchanged code refuses with a clean TypeError/ValueError is a "
        "counted skip class.  Measurements also without any positive entry / all negative / mixed sign.  12 % of the cases "
        "are call sequences (2-5 calls reusing the same objects modified in place, see module docstring); 30 % of the LSQ-type "
        "(10 % of the SART) cases are forced rank deficient (duplicated / proportional / dependent columns or rows, low rank, "
        "often N_d >= N_s) with alpha in {0, 1e-300, 1e-12, 1e-9, 1e-6} or ordinary.  A case is non-trivial when a "
        "deciding comparison (iterate, KKT / normal-equation certificate) was evaluated on a system with W != 0, b != 0; "
        "distinct = distinct system recipes")
LEVEL_TEXT = ("Exploration by runtime reference-model monitoring: every generated system is solved by the real functions and "
              "the observed result is judged by an independent executable model (SART) or by an optimality certificate that "
              "needs no second solver (KKT / normal equations in extended precision); right level because the property "
              "quantifies over continuous inputs of deterministic numerical code")
LEVEL_NOTE = ("trusted: the NumPy transcription of the docstring formula (terms with zero ray length contribute nothing, cells "
              "without rays get no data update — the docstring formula is 0/0 there), the rounding-error model used for the "
              "tolerances; 'minimiser' is judged to 1e-8 relative gradient accuracy")
TECHNIQUE = ("runtime monitoring: executable reference model in lock-step (SART iterates, convergence list, stopping rule) + "
             "postcondition certificates (non-negativity, KKT, normal equations, residual-norm consistency) on every call")
ASSUMPTIONS = ["geometry matrices have non-negative entries; all oracles work in float64 on the float64-converted input values",
               "input representations refused by the unchanged code with a clean TypeError/ValueError (non-float64 buffers in "
               "sart.pyx, numpy-scalar / list initial guesses, list Tikhonov matrices) are outside the statement: counted, not judged",
               "matrices given in single precision (float32; for the SVD wrapper also bool/uint8, which LAPACK maps to 's') may "
               "be processed in single precision: certificates are then judged to 1e-3 instead of 1e-8",
               "max_iterations >= 1; 0 < relaxation < 2",
               "a call must not depend on earlier calls: same values => same result (iterates within twice the propagated "
               "rounding bound; LSQ-type solvers compared in data space C x to 1e-7 of |C||x|+|d|)",
               "for zero-length rays / unseen cells the docstring formula is read as 'no contribution'",
               "a minimiser is certified to relative gradient accuracy 1e-8 (scale |C|^2|x| + |C||d|)",
               "for b = 0 the SART stopping measure is 0/0: only 'returns some iterate of the rule / stays at 0' is judged",
               "scipy.optimize.nnls' documented RuntimeError (3n iteration budget exhausted) is a refusal, not a result: "
               "counted, retried through **kwargs with maxiter=50n, and that result is judged",
               "a recorder on scipy.optimize.nnls only attributes failed certificates (wrapper vs third-party solver); "
               "verdicts are always taken on what the cherab function returned"]
ASAN_MODULES = ['cherab.tools.inversions.sart']
ASAN = dict(cases=3000, workers=8, timecap=240)
QUICK = dict(cases=3000, workers=2, timecap=38)
THOROUGH = dict(cases=100000, workers=16, timecap=600)
REQUIRED = {"lstsq_objective": 150, "nnls_objective": 200, "svd_objective": 100, "seq_calls": 150, "seq_twin": 200, "nonpos_b": 40, "sart_iterate": 1000, "csart_iterate": 800, "sart_conv": 500, "csart_conv": 500, "sart_stop": 50,
            "csart_stop": 50, "sart_nonneg": 80, "csart_nonneg": 80, "fixed_point": 100, "nnls_kkt": 50,
            "nnls_rnorm": 50, "lstsq_normal": 30, "lstsq_residual": 10, "svd_normal": 20, "svd_min_norm": 10,
            "zero_b": 10}

AMPLIFY_LIMIT = 1e-6     # lock-step comparison is skipped when the propagated rounding bound exceeds this x scale
GRAD_RTOL = 1e-8
GRAD_RTOL32 = 1e-3      # certificates when a matrix is given in single precision (pinv / alpha*L then run in float32: ~ n * cond * eps32)


# ------------------------------------------------------------------------------------------------
# generation
# ------------------------------------------------------------------------------------------------

def _pick(rng, items, probs):
    p = np.asarray(probs, dtype=float)
    return items[int(rng.choice(len(items), p=p / p.sum()))]


def gen_case(rng, tier):
    solver = _pick(rng, ["sart", "csart", "nnls", "lstsq", "svd"], [0.30, 0.27, 0.20, 0.14, 0.09])
    nx = int(rng.integers(1, 9))
    ny = int(rng.integers(1, 9))
    if rng.random() < 0.08:
        nx, ny = 1, int(rng.integers(1, 4))
    n = nx * ny
    rel = _pick(rng, ["any", "under", "over", "square"], [0.4, 0.25, 0.25, 0.1])
    if rel == "any":
        m = int(rng.integers(1, 41))
    elif rel == "under":
        m = int(rng.integers(1, max(2, n)))
    elif rel == "over":
        m = int(rng.integers(n, 2 * n + 2))
    else:
        m = n
    m = max(1, min(m, 60))
    case = dict(solver=solver, nx=nx, ny=ny, m=m, wseed=int(rng.integers(2 ** 31)), bseed=int(rng.integers(2 ** 31)))
    case["wkind"] = _pick(rng, ["dense", "sparse", "chords", "lowrank", "identity", "zeros"], [0.25, 0.22, 0.32, 0.15, 0.04, 0.02])
    if case["wkind"] == "sparse":
        case["density"] = float(rng.uniform(0.05, 0.6))
    if case["wkind"] == "lowrank":
        case["rank"] = int(rng.integers(1, max(2, min(m, n))))
    mods = {}
    if rng.random() < 0.15:
        mods["dup_cols"] = int(rng.integers(1, 4))
    if rng.random() < 0.15:
        mods["dup_rows"] = int(rng.integers(1, 4))
    if rng.random() < 0.2:
        mods["zero_rows"] = int(rng.integers(1, 4))
    if rng.random() < 0.2:
        mods["zero_cols"] = int(rng.integers(1, 4))
    if rng.random() < 0.15:
        mods["colscale_dec"] = float(rng.uniform(0.5, 3.0))
    if rng.random() < 0.1:
        mods["rowscale_dec"] = float(rng.uniform(0.5, 3.0))
    if rng.random() < 0.2:
        mods["order"] = "F"
    case["mods"] = mods
    case["wscale"] = float(10 ** rng.uniform(-6, 3)) if rng.random() < 0.5 else 1.0
    case["xscale"] = float(10 ** rng.uniform(-3, 8)) if rng.random() < 0.5 else 1.0
    case["xkind"] = _pick(rng, ["random", "sparse", "blob", "const"], [0.4, 0.25, 0.25, 0.1])
    case["bkind"] = _pick(rng, ["consistent", "noisy", "noisy_signed", "random", "single", "zero", "nonpositive", "all_negative",
                                "mixed"], [0.27, 0.27, 0.09, 0.10, 0.05, 0.10, 0.05, 0.03, 0.04])
    case["noise"] = float(10 ** rng.uniform(-3, -0.5))
    if solver in ("sart", "csart"):
        case["relaxation"] = 1.0 if rng.random() < 0.3 else float(rng.uniform(0.1, 1.9))
        r = rng.random()
        case["max_iterations"] = 1 if r < 0.1 else 2 if r < 0.15 else int(round(10 ** rng.uniform(0, np.log10(300))))
        r = rng.random()
        case["conv_tol"] = 0.0 if r < 0.2 else 1e-4 if r < 0.5 else float(10 ** rng.uniform(-8, -2))
        case["x0kind"] = _pick(rng, ["none", "float", "int", "npfloat", "array", "zeros", "exact", "array_neg"],
                               [0.22, 0.12, 0.08, 0.05, 0.2, 0.08, 0.2, 0.05])
        case["x0val"] = float(case["xscale"] * rng.uniform(0, 2)) if case["x0kind"] != "int" else int(rng.integers(0, 4))
        if case["x0kind"] == "exact" and case["bkind"] != "zero":
            case["bkind"] = "consistent"
        if solver == "csart":
            case["beta"] = _pick(rng, [0.0, 0.01, float(rng.uniform(0, 0.12)), float(rng.uniform(0.12, 0.5))],
                                 [0.15, 0.3, 0.4, 0.15])
            case["lapkind"] = _pick(rng, ["lap4", "lap8", "lap4c", "lap8c", "identity", "zero"],
                                    [0.3, 0.3, 0.1, 0.1, 0.15, 0.05])
            if case["x0kind"] == "exact" and rng.random() < 0.6:
                case["xkind"] = "const"
                case["lapkind"] = _pick(rng, ["lap4", "lap8"], [0.5, 0.5])
    elif solver in ("nnls", "lstsq"):
        case["tikkind"] = _pick(rng, ["none", "identity", "lap4", "lap8", "lap_unseen", "dense", "singular_diag", "zero"],
                                [0.2, 0.1, 0.15, 0.15, 0.1, 0.1, 0.15, 0.05])
        r = rng.random()
        case["alpha"] = 0.0 if r < 0.15 else 0.01 if r < 0.35 else float(10 ** rng.uniform(-4, 1))
        if case["tikkind"] == "lap_unseen" and rng.random() < 0.7:
            case["alpha"] = 1e-11
    _gen_reps(rng, case)
    if rng.random() < 0.12:
        # call sequence: the same argument objects reused and modified in place between 2-5 calls
        case["reps"] = {a: r for a, r in case["reps"].items() if r not in REJECTED.get((solver, a), ())}
        case["seq"] = dict(n=int(rng.integers(2, 6)), interleave=bool(rng.random() < 0.5), seed=int(rng.integers(2 ** 31)))
        if "max_iterations" in case:
            case["max_iterations"] = min(case["max_iterations"], 80)
    if rng.random() < (0.3 if solver in ("nnls", "lstsq", "svd") else 0.1):
        # rank-deficiency class: linearly dependent columns / rows without zero rows or columns being needed, often with
        # N_d >= N_s, and (for the regularised solvers) with the regularisation switched off or far below the matrix scale
        kind = _pick(rng, ["dup_cols", "prop_cols", "lincomb_cols", "lowrank", "dup_rows", "prop_rows", "lincomb_rows"],
                     [0.2, 0.2, 0.15, 0.2, 0.1, 0.08, 0.07])
        if rng.random() < 0.6:
            case["m"] = m = min(68, max(m, n + int(rng.integers(0, 5))))
        if kind == "lowrank":
            case["wkind"] = "lowrank"
            case["rank"] = int(rng.integers(1, max(2, min(m, n))))
        else:
            if case["wkind"] in ("zeros", "identity", "lowrank"):
                case["wkind"] = "dense"
            case["mods"][kind] = int(rng.integers(1, 3))
        case["rankdef"] = kind
        if solver in ("nnls", "lstsq"):
            if rng.random() < 0.5:
                case["alpha"] = float(_pick(rng, [0.0, 1e-300, 1e-12, 1e-9, 1e-6], [0.4, 0.15, 0.15, 0.15, 0.15]))
            if rng.random() < 0.5:
                case["tikkind"] = "none"
                case["reps"].pop("T", None)
    return case


# Representations of the same values a NumPy user would pass.  REJECTED lists what the *unchanged* code refuses with a
# clean TypeError / ValueError (typed memoryviews in sart.pyx want float64 buffers, `alpha * list` is not defined):
# the statement is silent there, such cases are driven at a low rate, counted as skip classes and not judged (if a
# changed tree accepts them, the result is judged by the same oracles on the float64-converted values).
REJECTED = {
    ("sart", "W"): {"int64", "int32", "uint8", "bool", "float32"}, ("sart", "b"): {"int64", "float32", "list"},
    ("sart", "x0"): {"int64", "float32", "list", "npfloat32", "npint64"},
    ("csart", "W"): {"int64", "int32", "uint8", "bool", "float32"}, ("csart", "b"): {"int64", "float32", "list"},
    ("csart", "x0"): {"int64", "float32", "list", "npfloat32", "npint64"},
    ("nnls", "T"): {"list"}, ("lstsq", "T"): {"list"},
}
ARGNAME = {"W": "geometry-matrix", "b": "measurement", "T": "tikhonov", "x0": "initial-guess", "alpha": "alpha"}


def _gen_reps(rng, case):
    solver = case["solver"]
    reps = {}
    if solver in ("sart", "csart"):
        reps["W"] = _pick(rng, ["f64", "view", "T", "int64", "float32", "bool"], [0.78, 0.12, 0.06, 0.02, 0.015, 0.005])
        reps["b"] = _pick(rng, ["f64", "view", "int64", "float32", "list"], [0.87, 0.10, 0.01, 0.01, 0.01])
        if solver == "csart":
            reps["T"] = _pick(rng, ["f64", "int64", "int32", "float32", "list", "F", "view"],
                              [0.50, 0.15, 0.05, 0.12, 0.08, 0.05, 0.05])
        k = case["x0kind"]
        if k in ("array", "zeros", "exact", "array_neg"):
            reps["x0"] = _pick(rng, ["f64", "view", "int64", "float32", "list"], [0.84, 0.10, 0.02, 0.02, 0.02])
        elif k == "float":
            reps["x0"] = _pick(rng, ["f64", "npfloat32"], [0.95, 0.05])
        elif k == "int":
            reps["x0"] = _pick(rng, ["f64", "bool", "npint64"], [0.80, 0.15, 0.05])
    elif solver in ("nnls", "lstsq"):
        reps["W"] = _pick(rng, ["f64", "int64", "int32", "float32", "bool", "uint8", "view", "T"],
                          [0.46, 0.13, 0.07, 0.10, 0.06, 0.03, 0.10, 0.05])
        reps["b"] = _pick(rng, ["f64", "int64", "float32", "list", "view"], [0.60, 0.12, 0.10, 0.10, 0.08])
        if case["tikkind"] != "none":
            reps["T"] = _pick(rng, ["f64", "int64", "int32", "float32", "F", "view", "list"],
                              [0.50, 0.17, 0.05, 0.12, 0.06, 0.06, 0.04])
        reps["alpha"] = _pick(rng, ["f64", "pyint", "npfloat32", "npint64"], [0.80, 0.08, 0.08, 0.04])
    else:
        reps["W"] = _pick(rng, ["f64", "int64", "int32", "float32", "bool", "uint8", "view", "T", "list"],
                          [0.38, 0.14, 0.06, 0.10, 0.05, 0.03, 0.10, 0.06, 0.08])
        reps["b"] = _pick(rng, ["f64", "int64", "float32", "view"], [0.64, 0.14, 0.12, 0.10])
    case["reps"] = {k: v for k, v in reps.items() if v != "f64"}
    case["q"] = int(_pick(rng, [1, 3, 20, 1000], [0.25, 0.2, 0.35, 0.2]))


def fixed_cases(tier):
    base = dict(nx=3, ny=4, m=9, wseed=7, bseed=9, wkind="chords", mods={}, wscale=1.0, xscale=1.0, xkind="blob",
                bkind="noisy", noise=0.02)
    sart = dict(relaxation=1.0, max_iterations=40, conv_tol=1e-4, x0kind="none", x0val=0.0)
    out = []
    for solver in ("sart", "csart"):
        s = dict(base, solver=solver, **sart)
        if solver == "csart":
            s.update(beta=0.01, lapkind="lap8")
        out.append(dict(s))
        out.append(dict(s, bkind="zero"))                                  # zero measurement, default start
        out.append(dict(s, bkind="zero", x0kind="zeros"))                  # exact solution x = 0 is a fixed point
        out.append(dict(s, bkind="zero", x0kind="array", max_iterations=1))
        out.append(dict(s, bkind="consistent", x0kind="exact", xkind="const", lapkind="lap4") if solver == "csart"
                   else dict(s, bkind="consistent", x0kind="exact"))
        out.append(dict(s, nx=1, ny=1, m=1, wkind="dense"))
        out.append(dict(s, wkind="zeros"))
        out.append(dict(s, x0kind="array_neg", max_iterations=1))
        out.append(dict(s, conv_tol=0.0, max_iterations=300, relaxation=1.9))
        out.append(dict(s, mods={"zero_rows": 2, "zero_cols": 2, "dup_rows": 1, "dup_cols": 1}, x0kind="int", x0val=1))
        out.append(dict(s, wscale=1e-6, xscale=1e8, x0kind="float", x0val=5e7))
    for solver in ("nnls", "lstsq"):
        s = dict(base, solver=solver, alpha=0.01, tikkind="none")
        out.append(dict(s))
        out.append(dict(s, bkind="zero"))
        out.append(dict(s, bkind="zero", alpha=0.0))
        out.append(dict(s, alpha=0.0, mods={"dup_cols": 2}))
        out.append(dict(s, alpha=1e-11, tikkind="lap_unseen", mods={"zero_cols": 2}))
        out.append(dict(s, alpha=1.0, tikkind="singular_diag", m=4))
        out.append(dict(s, wkind="zeros"))
        out.append(dict(s, wkind="zeros", alpha=0.0))
        out.append(dict(s, nx=1, ny=1, m=1, wkind="dense"))
        out.append(dict(s, wscale=1e-6, xscale=1e8))
        out.append(dict(s, bkind="noisy_signed", noise=0.3, tikkind="lap4", alpha=0.5))
    for solver in ("sart", "csart", "nnls", "lstsq", "svd"):
        s = dict(base, solver=solver, seq=dict(n=3, interleave=True, seed=5))
        if solver in ("sart", "csart"):
            s.update(sart, x0kind="array")
        if solver == "csart":
            s.update(beta=0.01, lapkind="lap8")
        if solver in ("nnls", "lstsq"):
            s.update(alpha=0.05, tikkind="lap4")
        out.append(dict(s))
        out.append(dict(s, seq=dict(n=4, interleave=False, seed=6), reps={"W": "T"}))
        for bk in ("nonpositive", "all_negative", "mixed"):
            t = {k: v for k, v in s.items() if k != "seq"}
            out.append(dict(t, bkind=bk))
    for solver in ("nnls", "lstsq", "svd"):
        for md in ({"dup_cols": 1}, {"prop_cols": 1}, {"lincomb_cols": 1}, {"prop_rows": 2}):
            for al in (0.0, 1e-300, 1e-12, 0.01):
                t = dict(base, solver=solver, wkind="dense", m=14, mods=dict(md), bkind="noisy")
                if solver != "svd":
                    t.update(alpha=al, tikkind="none")
                elif al != 0.0:
                    continue
                out.append(t)
        t = dict(base, solver=solver, wkind="lowrank", rank=3, m=14, bkind="noisy")
        if solver != "svd":
            t.update(alpha=0.0, tikkind="none")
        out.append(t)
    # regression witness of the scipy.optimize.nnls pass-through finding (one chord seeing 3 of 5 cells, identity Tikhonov)
    out.append(dict(base, solver="nnls", nx=1, ny=5, m=1, wkind="explicit", W=[[0.0, 0.0, 0.804, 0.475, 0.583]],
                    bkind="explicit", b=[0.001], alpha=0.102, tikkind="none"))
    s = dict(base, solver="svd")
    out += [dict(s), dict(s, bkind="zero"), dict(s, mods={"dup_cols": 2, "zero_rows": 1}), dict(s, wkind="zeros"),
            dict(s, nx=1, ny=1, m=1, wkind="dense"), dict(s, m=3), dict(s, m=30, wkind="lowrank", rank=2)]
    return out


# ------------------------------------------------------------------------------------------------
# execution
# ------------------------------------------------------------------------------------------------

def _classes(case, ctx, W, b):
    m, n = W.shape
    ctx.cls("solver:" + case["solver"])
    ctx.cls("shape:" + ("under" if m < n else "over" if m > n else "square"))
    ctx.cls("w:" + case["wkind"])
    for k in case.get("mods", {}):
        ctx.cls("mod:" + k)
    if "rankdef" in case:
        ctx.cls("rankdef:%s:%s" % (case["solver"], case["rankdef"]))
    ctx.cls("b:" + case["bkind"])
    if (W.sum(axis=0) == 0).any():
        ctx.cls("has_zero_col")
    if (W.sum(axis=1) == 0).any():
        ctx.cls("has_zero_row")
    if W.size and np.linalg.matrix_rank(W) < min(m, n):
        ctx.cls("rank_deficient")


class _Keyed:
    """ctx proxy that appends the input-representation tag to every violation key (mechanism = clause + representation)."""

    def __init__(self, ctx, suffix):
        self._c, self._s = ctx, suffix

    def __getattr__(self, name):
        return getattr(self._c, name)

    def check(self, ok, key, what, monitor=None, **detail):
        return self._c.check(ok, key + self._s, what, monitor=monitor or key.split(":")[0], **detail)

    def close(self, got, want, key, what, monitor=None, **kw):
        return self._c.close(got, want, key + self._s, what, monitor=monitor or key.split(":")[0], **kw)

    def viol(self, key, what, plain=False, **detail):
        return self._c.viol(key if plain else key + self._s, what, **detail)


def _rep_tag(case):
    reps = case.get("reps", {})
    parts = []
    for arg in ("W", "b", "T", "x0", "alpha"):
        if arg in reps:
            name = ARGNAME[arg] if not (arg == "T" and case["solver"] == "csart") else "laplacian"
            parts.append("%s-%s" % (rm.rep_family(reps[arg]), name))
    return (":" + "+".join(parts)) if parts else ""


def _rejected(case):
    """(arg, rep) pairs of this case that the unchanged code refuses with a clean TypeError / ValueError."""
    reps = case.get("reps", {})
    return [(a, r) for a, r in reps.items() if r in REJECTED.get((case["solver"], a), ())]


def _f32(case, *args):
    """single-precision data among the named arguments: the computation may legitimately run in single precision"""
    reps = case.get("reps", {})
    return any(reps.get(a) in ("float32",) for a in args)


def _build_objects(case):
    """Values (float64, what the oracles use) and the argument objects (what the real code gets) of one case."""
    reps = case.get("reps", {})
    q = int(case.get("q", 20))
    solver = case["solver"]
    o = {}
    o["W"] = rm.rep_values(rm.build_w(case), reps.get("W"), q)
    b0, o["xt"] = rm.build_b(case, o["W"])
    o["b"] = rm.rep_values(b0, reps.get("b"), 100)
    o["Wa"], o["ba"] = rm.represent(o["W"], reps.get("W")), rm.represent(o["b"], reps.get("b"))
    if solver in ("sart", "csart"):
        o["L"] = o["La"] = None
        if solver == "csart":
            o["L"] = rm.rep_values(rm.grid_laplacian(case["nx"], case["ny"], case["lapkind"]), reps.get("T"), q)
            o["La"] = rm.represent(o["L"], reps.get("T"))
        o["arg0"], o["x0"] = _initial_guess(case, o["W"].shape[1], o["xt"])
        o["x_exact"] = (case["x0kind"] == "exact" and bool(np.array_equal(o["x0"], o["xt"]))
                        and bool(np.array_equal(o["b"], b0)))
    elif solver in ("nnls", "lstsq"):
        o["T"], o["Ta"], o["alpha"], o["alpha_arg"] = _tik_alpha(case, o["W"])
    return o


def _b_tag(b):
    """measurement class that gets its own key suffix: no positive entry but at least one negative one"""
    return ":non-positive-measurements" if (b.size and b.max() <= 0 and b.min() < 0) else ""


def _judge(case, ctx, o):
    """One call of the real solver on the objects in `o`, judged by the oracles on the values in `o`.  Returns the raw
    result (None when nothing was returned / judged)."""
    solver = case["solver"]
    kctx = _Keyed(ctx, _rep_tag(case) + _b_tag(o["b"]))
    if _b_tag(o["b"]):
        ctx.cls("b_values:non-positive")
        ctx.mon("nonpos_b")
    elif o["b"].size and o["b"].min() < 0:
        ctx.cls("b_values:mixed-sign")
    rej = _rejected(case)
    try:
        if solver in ("sart", "csart"):
            return _run_sart(case, kctx, o)
        if solver == "nnls":
            return _run_nnls(case, kctx, o)
        if solver == "lstsq":
            return _run_lstsq(case, kctx, o)
        if solver == "svd":
            return _run_svd(case, kctx, o)
        raise ValueError(solver)
    except _Refused:
        ctx.skip("input representation refused by %s with a clean TypeError/ValueError (statement silent, not judged)" % solver)
        for ar in rej:
            ctx.cls("refused:%s:%s=%s" % ((solver,) + ar))
        return None


def run_case(case, ctx):
    o = _build_objects(case)
    _classes(case, ctx, o["W"], o["b"])
    for a, r in case.get("reps", {}).items():
        ctx.cls("rep:%s=%s" % (a, r))
    if "seq" in case:
        _run_sequence(case, ctx, o)
    else:
        _judge(case, ctx, o)


# ---- call sequences: the same argument objects reused and modified in place between calls -------------------------

def _invoke(case, Wa, ba, aux):
    """The bare call of the real solver (used for the fresh-copy twin of a sequence step)."""
    from cherab.tools.inversions import (invert_sart, invert_constrained_sart, invert_regularised_nnls,
                                         invert_regularised_lstsq, invert_svd)
    s = case["solver"]
    with warnings.catch_warnings(), np.errstate(all="ignore"):
        warnings.simplefilter("ignore")
        if s == "sart":
            return invert_sart(Wa, ba, initial_guess=aux["arg0"], max_iterations=int(case["max_iterations"]),
                               relaxation=float(case["relaxation"]), conv_tol=float(case["conv_tol"]))
        if s == "csart":
            return invert_constrained_sart(Wa, aux["La"], ba, initial_guess=aux["arg0"], max_iterations=int(case["max_iterations"]),
                                           relaxation=float(case["relaxation"]), beta_laplace=float(case.get("beta", 0.0)),
                                           conv_tol=float(case["conv_tol"]))
        if s == "nnls":
            return invert_regularised_nnls(Wa, ba, alpha=aux["alpha_arg"], tikhonov_matrix=aux["Ta"], **aux.get("kw", {}))
        if s == "lstsq":
            return invert_regularised_lstsq(Wa, ba, alpha=aux["alpha_arg"], tikhonov_matrix=aux["Ta"])
        return invert_svd(Wa, ba)


def _mutate(arr, rng, nonneg):
    """Modify an ndarray in place (object, shape and dtype kept): rescale / zero a row or column, perturb entries,
    rescale everything.  Returns the name of the operation."""
    kind = arr.dtype.kind
    op = ["scale_row", "zero_row", "zero_col", "perturb", "scale_all"][int(rng.integers(5))]
    i = int(rng.integers(arr.shape[0]))
    sl = (i,) if arr.ndim == 1 else (i, slice(None))
    if op == "zero_row":
        arr[sl] = 0
    elif op == "zero_col":
        if arr.ndim == 2:
            arr[:, int(rng.integers(arr.shape[1]))] = 0
        else:
            arr[sl] = 0
    elif kind == "b":
        arr[sl] = rng.random(arr[sl].shape) < 0.5 if arr.ndim == 2 else bool(rng.random() < 0.5)
        op = "perturb"
    elif op == "scale_row":
        arr[sl] = arr[sl] * (float(rng.uniform(0.3, 3.0)) if kind == "f" else int(rng.integers(2, 4)))
    elif op == "scale_all":
        arr[...] = arr * (float(rng.uniform(0.3, 3.0)) if kind == "f" else 2)
    else:
        if kind == "f":
            f = 1.0 + 0.5 * rng.uniform(-1, 1, arr.shape)
            arr[...] = arr * f.astype(arr.dtype)
            if not nonneg and arr.size:
                j = tuple(int(rng.integers(s)) for s in arr.shape)
                arr[j] = -arr[j] if arr[j] != 0 else arr.dtype.type(1.0)
        else:
            arr[...] = arr + (rng.random(arr.shape) < 0.3).astype(arr.dtype)
    return op


def _run_sequence(case, ctx, o):
    """2-5 consecutive calls with the SAME objects, modified in place in between (optionally interleaved with a call on
    another system).  Every call is judged by its own oracle on the values the objects hold at call time, and must agree
    with a twin call that gets fresh copies of the same values."""
    solver = case["solver"]
    seq = case["seq"]
    rng = np.random.default_rng([int(seq["seed"]), 1105])
    single = _f32(case, "W", "T") or (solver == "svd" and case.get("reps", {}).get("W") in ("bool", "uint8"))
    ctx.cls("sequence:" + solver)
    mutable = [k for k in ("Wa", "ba", "La", "Ta") if isinstance(o.get(k), np.ndarray)]
    for step in range(int(seq["n"])):
        if step > 0:
            for _ in range(int(rng.integers(1, 4))):
                k = mutable[int(rng.integers(len(mutable)))]
                ctx.cls("seq_op:%s:%s" % (k, _mutate(o[k], rng, nonneg=(k == "Wa"))))
            if isinstance(o.get("arg0"), np.ndarray) and rng.random() < 0.5:
                o["arg0"][...] = (np.abs(o["x0"]) * rng.uniform(0, 2, o["x0"].shape)).astype(o["arg0"].dtype)
                ctx.cls("seq_op:x0:refill")
            if seq.get("interleave") and rng.random() < 0.6:
                other = {k: v for k, v in case.items() if k != "seq"}
                other.update(wseed=int(rng.integers(2 ** 31)), bseed=int(rng.integers(2 ** 31)),
                             m=int(rng.integers(1, 30)))
                ctx.cls("seq_op:interleaved-call")
                _judge(other, ctx, _build_objects(other))
            # the values the oracles use are what the objects hold NOW
            o["W"] = np.array(o["Wa"], dtype=float)
            o["b"] = np.array(o["ba"], dtype=float)
            if o.get("La") is not None:
                o["L"] = np.array(o["La"], dtype=float)
            if o.get("Ta") is not None:
                o["T"] = np.array(o["Ta"], dtype=float)
            if isinstance(o.get("arg0"), np.ndarray):
                o["x0"] = np.array(o["arg0"], dtype=float)      # warm start: previous solution or the refill
            o["x_exact"] = False
        # twin arguments: fresh objects, same values / dtypes
        cp = lambda v: v.copy() if isinstance(v, np.ndarray) else (list(map(list, v)) if isinstance(v, list) and v and isinstance(v[0], list) else (list(v) if isinstance(v, list) else v))  # noqa
        twin = dict(Wa=cp(o["Wa"]), ba=cp(o["ba"]), aux={k: cp(o[k]) for k in ("arg0", "La", "Ta", "alpha_arg") if k in o})
        o["_tol"] = None
        o.pop("_kw", None)
        nviol = sum(ctx.viol_counts.values())
        res = _judge(case, ctx, o)
        ctx.mon("seq_calls")
        if res is None:
            continue
        # The twin call is itself a call on other objects, i.e. it breaks the "same object again" adjacency that a
        # remembered-state defect needs: it is made for a random 40 % of the calls, and always when the oracle objected
        # to the reused call (then it tells whether the fault is history dependence or the rule itself).
        if sum(ctx.viol_counts.values()) == nviol and rng.random() >= 0.4:
            continue
        twin["aux"]["kw"] = o.get("_kw", {})
        res_f = _invoke(case, twin["Wa"], twin["ba"], twin["aux"])
        key = "sequence:%s:result-depends-on-previous-call" % solver
        what = ("call %d of a sequence that reuses the same argument objects (modified in place between calls) returns a "
                "different result than the same call on fresh copies of the same values" % (step + 1))
        if solver in ("sart", "csart"):
            x, xf = np.asarray(res[0], dtype=float), np.asarray(res_f[0], dtype=float)
            if len(res[1]) != len(res_f[1]):
                if o.get("_certain_stop"):
                    ctx.mon("seq_twin")
                    ctx.viol(key, what + " (different number of iterations)", step=step, got=len(res[1]), fresh=len(res_f[1]))
                else:
                    ctx.skip("sequence twin: borderline stopping decision, iterates not compared")
            elif o["_tol"] is None:
                ctx.skip("sequence twin: amplifying iteration, iterates not compared")
            else:
                ctx.close(x, xf, key, what, atol=2 * o["_tol"], monitor="seq_twin", step=step)
        else:
            x, xf = np.asarray(res[0] if solver != "svd" else res, dtype=float), np.asarray(res_f[0] if solver != "svd" else res_f, dtype=float)
            if solver == "svd":
                C, d = o["W"], o["b"]
            else:
                C, d = rm.stacked(o["W"], o["b"], o["alpha"], o["T"])
            nC = float(np.linalg.norm(C, 2)) if C.size else 0.0
            scale = nC * max(float(np.linalg.norm(x)), float(np.linalg.norm(xf))) + float(np.linalg.norm(d))
            tol = (1e-3 if single else 1e-7) * scale
            # compared in data space (well conditioned): the fitted values, and the reported norm
            ctx.close(C @ x, C @ xf, key, what, atol=tol if tol > 0 else 0.0, monitor="seq_twin", step=step)
            if solver == "nnls":
                ctx.close(float(res[1]), float(res_f[1]), key, what + " (reported residual norm)", atol=tol if tol > 0 else 0.0,
                          monitor="seq_twin", step=step)


class _Refused(Exception):
    pass


def _call(case, f):
    """Run the real function; a clean TypeError / ValueError for a representation the unchanged code refuses is not judged."""
    rej = _rejected(case)
    with warnings.catch_warnings(), np.errstate(all="ignore"):
        warnings.simplefilter("ignore")
        if not rej:
            return f()
        try:
            return f()
        except (TypeError, ValueError) as e:
            raise _Refused(type(e).__name__) from None


def _unchanged(arg, vals):
    """the object handed over still holds the same values"""
    try:
        a = np.asarray(arg, dtype=float)
    except (TypeError, ValueError):
        return False
    return a.shape == vals.shape and bool(np.array_equal(a, vals))


# ---- SART --------------------------------------------------------------------------------------

def _initial_guess(case, n, xt):
    """Returns (argument passed to the real function, start vector of the documented rule)."""
    k = case["x0kind"]
    rep = case.get("reps", {}).get("x0")
    if k == "none":
        return None, np.full(n, np.exp(-1))
    if k == "float":
        v = float(case["x0val"])
        if rep == "npfloat32":
            a = np.float32(v)
            return a, np.full(n, float(a))
        return v, np.full(n, v)
    if k == "int":
        v = int(case["x0val"])
        if rep == "bool":
            a = bool(v)
            return a, np.full(n, float(a))
        if rep == "npint64":
            return np.int64(v), np.full(n, float(v))
        return v, np.full(n, float(v))
    if k == "npfloat":
        v = np.float64(case["x0val"])
        return v, np.full(n, float(v))
    if k == "zeros":
        a = np.zeros(n)
    elif k == "exact":
        a = xt.copy()
    else:
        rng = np.random.default_rng([int(case["bseed"]), 1104])
        if k == "array":
            a = rng.random(n) * 2 * float(case.get("xscale", 1.0))
        elif k == "array_neg":
            a = rng.normal(size=n) * float(case.get("xscale", 1.0))
        else:
            raise ValueError(k)
    vals = rm.rep_values(a, rep, 100)
    arg = rm.represent(vals, rep)
    if rep in (None, "f64"):
        arg = vals.copy()
    return arg, vals.copy()


def _run_sart(case, ctx, o):
    from cherab.tools.inversions import invert_sart, invert_constrained_sart
    fn = case["solver"]
    W, b, xt, Wa, ba = o["W"], o["b"], o["xt"], o["Wa"], o["ba"]
    L, La, arg0, x0, x_exact = o["L"], o["La"], o["arg0"], o["x0"], o["x_exact"]
    m, n = W.shape
    K = int(case["max_iterations"])
    omega = float(case["relaxation"])
    ctol = float(case["conv_tol"])
    beta = float(case.get("beta", 0.0))
    bzero = not b.any()
    ctx.cls("x0:" + case["x0kind"])
    if fn == "csart":
        ctx.cls("lap:" + case["lapkind"])
    try:
        if fn == "sart":
            res = _call(case, lambda: invert_sart(Wa, ba, initial_guess=arg0, max_iterations=K, relaxation=omega, conv_tol=ctol))
        else:
            res = _call(case, lambda: invert_constrained_sart(Wa, La, ba, initial_guess=arg0, max_iterations=K,
                                                              relaxation=omega, beta_laplace=beta, conv_tol=ctol))
    except ZeroDivisionError as e:
        if not bzero:
            raise
        ctx.mon("zero_b")
        ctx.viol("%s:zero-measurement-raises" % fn,
                 "%s raises ZeroDivisionError for an all-zero measurement vector (x = 0 is an exact non-negative solution; "
                 "the update rule is well defined)" % ("invert_sart" if fn == "sart" else "invert_constrained_sart"),
                 plain=True, error=str(e))
        return
    ok = (isinstance(res, tuple) and len(res) == 2 and isinstance(res[0], np.ndarray) and res[0].shape == (n,)
          and isinstance(res[1], list) and 1 <= len(res[1]) <= K)
    if not ctx.check(ok, "%s:malformed-result" % fn, "result is not (ndarray of shape (N_s,), list of 1..max_iterations floats)",
                     monitor="%s_shape" % fn):
        return
    sol = np.array(res[0], dtype=float)
    conv = [float(c) for c in res[1]]
    ctx.check(_unchanged(Wa, W) and _unchanged(ba, b) and (La is None or _unchanged(La, L)), "%s:inputs-modified" % fn,
              "geometry matrix, Laplacian or measurement vector modified by the solver", monitor="%s_inputs" % fn)
    # non-negativity (at least one clipped update was made)
    ctx.check(not bool((sol < 0).any()), "%s:negative-component" % fn, "returned solution has a negative component",
              monitor="%s_nonneg" % fn, minimum=float(np.nanmin(sol)) if sol.size else 0.0)

    ref = rm.SartRef(W, b, omega, beta, L)
    out = ref.run(x0, K, ctol, real_len=len(conv), zero_b=bzero)
    with np.errstate(all="ignore"):
        xnat = float(np.max(np.where(ref.R > 0, np.abs(b) / np.where(ref.R > 0, ref.R, 1.0), 0.0))) if m else 0.0
        itmax = max(float(np.max(np.abs(it))) if np.all(np.isfinite(it)) else np.inf for it in out["iterates"])
    scale = max(xnat, float(np.max(np.abs(x0))), itmax)

    def tol_at(k):   # component-wise tolerance for iterate k (0-based)
        return out["E"][k] / ref.s + max(1e-280, 1e-150 * scale)     # floor: subnormal range carries no relative accuracy

    if bzero:
        ctx.mon("zero_b")
        if not x0.any():
            ctx.check(not sol.any(), "%s:zero-measurement-fixed-point" % fn,
                      "b = 0 and x0 = 0 (exact non-negative solution) but the returned solution is not 0", monitor="fixed_point")
            ctx.mon("fixed_point", n - 1)
            return sol, conv
        # the stopping measure is 0/0 for b = 0 (statement silent): the result must be *some* iterate of the rule
        best, unjudged, matched = None, 0, False
        for k in (range(K) if K > 1 else [0]):
            t = tol_at(k)
            it = out["iterates"][k]
            if not np.all(np.isfinite(t)) or not np.all(np.isfinite(it)):
                unjudged += 1
                continue
            with np.errstate(all="ignore"):
                r = float(np.max(np.nan_to_num(np.abs(sol - it) / t, nan=np.inf)))
            if t.max() > AMPLIFY_LIMIT * scale:      # amplified: a match counts, a mismatch proves nothing
                unjudged += 1
                matched = matched or r <= 1.0
                continue
            best = r if best is None else min(best, r)
        if matched or (best is not None and best <= 1.0) or (best is not None and unjudged == 0):
            ctx.mon("zero_b_iterate")
            if best is not None and np.isfinite(best) and best <= 1.0:
                ctx.margin("zero_b_iterate", best)
            if not matched and best > 1.0:
                ctx.viol("%s:zero-measurement-iterate" % fn,
                         "b = 0: returned solution is none of the iterates x^(1..max_iterations) of the documented rule", ratio=best)
        else:
            ctx.skip("b = 0: iteration amplifies rounding errors, iterate not judged")
        return sol, conv

    # stopping rule
    o["_certain_stop"] = not out["borderline"]
    if out["borderline"]:
        ctx.skip("stopping decision numerically borderline (followed, counted, not judged)")
        ctx.mon("stop_borderline", len(out["borderline"]))
    nref = len(out["conv"])
    same_len = ctx.check(len(conv) == nref, "%s:stopping-rule" % fn,
                         "number of iterations performed differs from the documented stopping rule "
                         "(stop after iteration k > 0 when |conv_k - conv_(k-1)| < conv_tol, else run max_iterations)",
                         monitor="%s_stop" % fn, got=len(conv), want=nref, conv_tol=ctol, max_iterations=K,
                         ref_tail=out["conv"][-3:], real_tail=conv[-3:])
    # convergence list, element-wise on the common prefix
    npre = min(len(conv), nref)
    cref = np.array(out["conv"][:npre])
    ctolv = np.array(out["convtol"][:npre])
    with np.errstate(all="ignore"):
        judge = np.isfinite(cref) & np.isfinite(ctolv) & (ctolv <= AMPLIFY_LIMIT * np.maximum(1.0, np.abs(cref)))
    if judge.any():
        ctx.close(np.array(conv[:npre])[judge], cref[judge], "%s:convergence-list-mismatch" % fn,
                  "convergence list differs from (b.b - yhat.yhat)/b.b of the documented iterates",
                  atol=ctolv[judge], monitor="%s_conv" % fn)
    if (~judge).any():
        ctx.skip("convergence entries with overflowed / amplified iterates not judged")
    if not same_len:
        return sol, conv
    # final iterate
    t = tol_at(nref - 1)
    if (not np.all(np.isfinite(t))) or (not np.all(np.isfinite(out["x"]))) or t.max() > AMPLIFY_LIMIT * scale:
        ctx.skip("iteration amplifies rounding errors beyond 1e-6 of the solution scale (iterate not judged)")
        ctx.cls("amplifying")
        return sol, conv
    o["_tol"] = t
    ctx.close(sol, out["x"], "%s:iterate-mismatch" % fn,
              "returned solution differs from the iterate of the documented update rule after the same number of iterations",
              atol=t, monitor="%s_iterate" % fn, iterations=nref, g=ref.g)
    ctx.nontrivial(bool(W.any()))
    # fixed point clause
    if x_exact:
        applies = (fn == "sart") or beta == 0.0 or (case["xkind"] == "const" and case["lapkind"] in ("lap4", "lap8", "zero"))
        if applies:
            ctx.close(sol, xt, "%s:fixed-point-moved" % fn,
                      "exact non-negative solution given as initial guess is not returned (not a fixed point)",
                      atol=3 * t, monitor="fixed_point", iterations=nref)
            if ctol > 0 and K >= 2 and not out["borderline"]:
                ctx.check(len(conv) == 2, "%s:fixed-point-not-converged" % fn,
                          "started at an exact solution with conv_tol > 0 but did not stop after the second iteration",
                          monitor="fixed_point_stop", got=len(conv))
    return sol, conv


# ---- regularised least squares ----------------------------------------------------------------

def _objective_check(ctx, key, monitor, C, d, x, eps, rtol, extra_candidates=(), plain=False, prefix="", constrained=False):
    """Minimiser property judged on the OBJECTIVE (the minimiser of a rank-deficient system is not unique): the returned
    vector must not do worse than an independent reference solution by more than the computed tolerance."""
    ref = rm.ls_reference(C, d, eps)
    # unconstrained: the truncated-SVD solution; constrained (x >= 0): only feasible candidate vectors bound the minimum
    f_ref = ref["f_ref"] if not constrained else ref["nd"] ** 2          # x = 0 is always feasible
    for xc in extra_candidates:          # any feasible vector is a valid upper bound of the minimum
        f_ref = min(f_ref, rm.objective(C, d, xc))
    nx = float(np.linalg.norm(x))
    tol = rm.objective_tolerance(ref, f_ref, nx, eps, rtol)
    f = rm.objective(C, d, x)
    ctx.mon(monitor)
    if f <= f_ref + tol or not np.isfinite(tol):
        if tol > 0 and f > f_ref:
            ctx.margin(monitor, (f - f_ref) / tol)
        return True
    ctx.viol(key, prefix + "objective |Cx-d|^2 of the returned vector exceeds the objective of an independent reference solution "
             "(truncated SVD of the stacked system): x is not a minimiser", plain=plain,
             f=f, f_ref=f_ref, tol=tol, x_norm=nx, x_ref_norm=ref["nx_lo"])
    return False


def _tau(nC, nx, nd, rtol=GRAD_RTOL):
    # (nC * nx first: nC * nC may underflow to 0 while nx is huge, and 0 * inf-like products must not produce NaN)
    return rtol * (nC * (nC * nx) + nC * nd)


def _tik_alpha(case, W):
    """(Tikhonov values, Tikhonov argument, alpha value, alpha argument) in the case's representations."""
    reps = case.get("reps", {})
    T0 = rm.build_tikhonov(case, W)
    T = Ta = None
    if T0 is not None:
        T = rm.rep_values(T0, reps.get("T"), int(case.get("q", 20)))
        Ta = rm.represent(T, reps.get("T"))
    a = float(case["alpha"])
    ar = reps.get("alpha")
    aa = int(round(a)) if ar == "pyint" else np.int64(round(a)) if ar == "npint64" else np.float32(a) if ar == "npfloat32" else a
    return T, Ta, float(aa), aa


def _run_nnls(case, ctx, o):
    from cherab.tools.inversions import invert_regularised_nnls
    W, b, Wa, ba = o["W"], o["b"], o["Wa"], o["ba"]
    T, Ta, alpha, alpha_arg = o["T"], o["Ta"], o["alpha"], o["alpha_arg"]
    # single-precision matrices may legitimately be processed in single precision (alpha * float32 array is float32)
    single = _f32(case, "W", "T")
    rtol = GRAD_RTOL32 if single else GRAD_RTOL
    relax = rtol / GRAD_RTOL
    ctx.cls("tik:" + case["tikkind"])
    ctx.cls("alpha:" + ("0" if alpha == 0 else "tiny" if alpha < 1e-6 else "pos"))
    bzero = not b.any()
    # argument recorder on the third-party solver the wrapper documents to call: used ONLY to attribute a failed
    # certificate to its mechanism (wrapper built the wrong system / scaled the norm wrongly, or scipy.optimize.nnls
    # itself returned a non-minimiser for the system it was given); the verdict is always taken on the wrapper's result
    import scipy.optimize as so
    rec = []
    orig = so.nnls

    def spy(A, y, *a, **k):
        out = orig(A, y, *a, **k)
        rec.append((np.array(A, dtype=float), np.array(y, dtype=float), np.array(out[0], dtype=float), float(out[1])))
        return out
    so.nnls = spy
    try:
        if True:
            try:
                res = _call(case, lambda: invert_regularised_nnls(Wa, ba, alpha=alpha_arg, tikhonov_matrix=Ta))
            except RuntimeError as e:
                # scipy's documented, loud refusal: default budget of 3 n active-set iterations exhausted (seen on badly
                # scaled systems).  Nothing was returned, so nothing is judged; the documented **kwargs route is used to
                # retry with a larger budget and that result is judged.
                if "Maximum number of iterations" not in str(e):
                    raise
                ctx.skip("scipy.optimize.nnls exhausted its default 3n iterations (documented RuntimeError); retried with maxiter=50n")
                ctx.mon("nnls_maxiter_retry")
                del rec[:]
                o["_kw"] = dict(maxiter=50 * W.shape[1])
                try:
                    res = _call(case, lambda: invert_regularised_nnls(Wa, ba, alpha=alpha_arg, tikhonov_matrix=Ta,
                                                                      maxiter=50 * W.shape[1]))
                except RuntimeError as e2:
                    if "Maximum number of iterations" not in str(e2):
                        raise
                    ctx.skip("scipy.optimize.nnls did not converge within 50n iterations (documented RuntimeError): not judged")
                    return
    except ValueError as e:
        if not (b.max() <= 0):
            raise
        ctx.mon("zero_b")
        ctx.viol("nnls:zero-measurement-raises",
                 "invert_regularised_nnls raises ValueError when no measurement is positive (normalisation divides by "
                 "max(d) = 0); the minimiser x = 0 exists", plain=True, error=str(e)[:200])
        return
    finally:
        so.nnls = orig
    if bzero:
        ctx.mon("zero_b")
    ok = isinstance(res, tuple) and len(res) == 2 and isinstance(res[0], np.ndarray) and res[0].shape == (W.shape[1],)
    if not ctx.check(ok, "nnls:malformed-result", "result is not (ndarray (N_s,), float)", monitor="nnls_shape"):
        return
    x, rnorm = np.array(res[0], dtype=float), float(res[1])
    ctx.check(_unchanged(Wa, W) and _unchanged(ba, b) and (T is None or _unchanged(Ta, T)),
              "nnls:inputs-modified", "inputs modified by the solver", monitor="nnls_inputs")
    C, d = rm.stacked(W, b, alpha, T)
    g, rn, nC, nx, nd = rm.certificate(C, d, x)
    tau = _tau(nC, nx, nd, rtol)
    ctx.check(bool(np.all(np.isfinite(x))) and not bool((x < 0).any()), "nnls:negative-component",
              "NNLS solution has a negative or non-finite component", monitor="nnls_nonneg")
    xinf = float(np.max(np.abs(x))) if x.size else 0.0
    ctx.mon("nnls_kkt")
    if tau > 0:
        dual = float(max(0.0, -g.min())) / tau
        comp = float(np.max(np.abs(x * g))) / (tau * xinf) if xinf > 0 else 0.0
    else:
        dual = 0.0 if g.min() >= 0 else np.inf
        comp = 0.0 if not np.any(x * g) else np.inf
    # mechanism attribution for failed certificates
    upstream_kkt = upstream_rn = faithful = False
    up_ratio = 0.0      # how inaccurate the third-party solver was on its own system (fraction of the tolerances)
    if len(rec) == 1:
        A_s, y_s, x_s, rn_s = rec[0]
        if A_s.ndim == 2 and A_s.shape[1] == x_s.shape[0] and A_s.shape[0] == y_s.shape[0] and np.all(np.isfinite(A_s)):
            g_s, rnn_s, nC_s, nx_s, nd_s = rm.certificate(A_s, y_s, x_s)
            tau_s = _tau(nC_s, nx_s, nd_s, rtol)
            xinf_s = float(np.max(np.abs(x_s))) if x_s.size else 0.0
            vmax = float(d.max())
            if vmax <= 0:
                vmax = 1.0          # documented: nothing to normalise by when no measurement is positive
            # the wrapper did its documented job: handed over [W; alpha L]/max(d), [b; 0]/max(d) and returned scipy's x and
            # rnorm * max(d) unchanged -- only then can a failure be attributed to the third-party solver
            frt = 1e-12 if not single else 1e-5
            faithful = (vmax > 0 and A_s.shape == C.shape and np.allclose(A_s * vmax, C, rtol=frt, atol=0.0)
                        and np.allclose(y_s * vmax, d, rtol=frt, atol=0.0) and np.array_equal(x_s, x))
            faithful_rn = faithful and abs(rn_s * vmax - rnorm) <= 1e-12 * abs(rnorm)
            if tau_s > 0 and faithful:
                upstream_kkt = bool(-g_s.min() > tau_s or (xinf_s > 0 and np.max(np.abs(x_s * g_s)) > tau_s * xinf_s))
                upstream_rn = faithful_rn and bool(abs(rn_s - rnn_s) > relax * (1e-8 * nd_s + 1e-10 * nC_s * nx_s))
                up_ratio = max(float(-g_s.min()) / tau_s, float(np.max(np.abs(x_s * g_s))) / (tau_s * xinf_s) if xinf_s > 0 else 0.0,
                               abs(rn_s - rnn_s) / (relax * (1e-8 * nd_s + 1e-10 * nC_s * nx_s)))
    if 1e-3 < up_ratio <= 1.0:
        ctx.mon("nnls_upstream_degraded")   # within tolerance, but scipy itself far less accurate than usual (defect tail)
    if tau > 0 and max(dual, comp) <= 1.0 and up_ratio <= 1e-3:
        ctx.margin("nnls_kkt", max(dual, comp))
    src = ("scipy.optimize.nnls itself returned a non-minimiser for the stacked system the wrapper handed to it "
           "(third-party solver defect passed through by the thin wrapper): ")
    if dual > 1.0:
        j = int(np.argmin(g))
        ctx.viol("nnls:scipy-nnls-non-minimiser" if upstream_kkt else "nnls:kkt-dual-infeasible",
                 (src if upstream_kkt else "") + "gradient of |Cx-d|^2 has a negative component: increasing x_j lowers the "
                 "objective, x is not the constrained minimiser", plain=upstream_kkt, j=j, g_j=float(g[j]), tau=tau, x_j=float(x[j]))
    if comp > 1.0:
        j = int(np.argmax(np.abs(x * g)))
        ctx.viol("nnls:scipy-nnls-non-minimiser" if upstream_kkt else "nnls:kkt-stationarity",
                 (src if upstream_kkt else "") + "a strictly positive component has a non-vanishing gradient: x is not the "
                 "constrained minimiser", plain=upstream_kkt, j=j, g_j=float(g[j]), x_j=float(x[j]), tau=tau)
    # objective against feasible reference vectors: clipped truncated-SVD solution and a bounded-variable LS solve
    cands = []
    try:
        from scipy.optimize import lsq_linear
        with warnings.catch_warnings(), np.errstate(all="ignore"):
            warnings.simplefilter("ignore")
            cands.append(np.maximum(np.asarray(lsq_linear(C, d, bounds=(0, np.inf), method="bvls").x, dtype=float), 0.0))
    except Exception:  # noqa  (reference helper only: fewer candidates = weaker, never wrong)
        pass
    refx = rm.ls_reference(C, d).get("x_hi")
    if refx is not None:
        cands.append(np.maximum(refx, 0.0))
    cands = [c for c in cands if c.shape == x.shape and np.all(np.isfinite(c))]
    _objective_check(ctx, "nnls:scipy-nnls-non-minimiser" if faithful else "nnls:objective-above-minimum", "nnls_objective",
                     C, d, x, rm.EPS, rtol, extra_candidates=cands, plain=faithful, prefix=src if faithful else "",
                     constrained=True)
    t = relax * (1e-8 * nd + 1e-10 * nC * nx)
    ctx.mon("nnls_rnorm")
    err = abs(rnorm - rn)
    if err <= t:
        if t > 0 and up_ratio <= 1e-3:
            ctx.margin("nnls_rnorm", err / t)
    else:
        ctx.viol("nnls:scipy-nnls-rnorm-inconsistent" if upstream_rn else "nnls:residual-norm-inconsistent",
                 ("scipy.optimize.nnls itself reported a residual norm inconsistent with its own solution (passed through): "
                  if upstream_rn else "") + "reported residual norm differs from |Cx-d| of the returned x",
                 plain=upstream_rn, got=rnorm, want=rn, tol=t)
    ctx.nontrivial(bool(W.any()) and not bzero)
    return x, rnorm


def _run_lstsq(case, ctx, o):
    from cherab.tools.inversions import invert_regularised_lstsq
    W, b, Wa, ba = o["W"], o["b"], o["Wa"], o["ba"]
    T, Ta, alpha, alpha_arg = o["T"], o["Ta"], o["alpha"], o["alpha_arg"]
    single = _f32(case, "W", "T")
    rtol = GRAD_RTOL32 if single else GRAD_RTOL
    relax = rtol / GRAD_RTOL
    ctx.cls("tik:" + case["tikkind"])
    ctx.cls("alpha:" + ("0" if alpha == 0 else "tiny" if alpha < 1e-6 else "pos"))
    bzero = not b.any()
    res = _call(case, lambda: invert_regularised_lstsq(Wa, ba, alpha=alpha_arg, tikhonov_matrix=Ta))
    if bzero:
        ctx.mon("zero_b")
    ok = (isinstance(res, tuple) and len(res) == 2 and isinstance(res[0], np.ndarray) and res[0].shape == (W.shape[1],)
          and np.ndim(res[1]) == 1 and np.size(res[1]) in (0, 1))
    if not ctx.check(ok, "lstsq:malformed-result", "result is not (ndarray (N_s,), residual array of size 0 or 1)",
                     monitor="lstsq_shape"):
        return
    x = np.array(res[0], dtype=float)
    if not ctx.check(bool(np.all(np.isfinite(x))), "lstsq:non-finite", "solution has a non-finite component", monitor="lstsq_finite"):
        return
    ctx.check(_unchanged(Wa, W) and _unchanged(ba, b) and (T is None or _unchanged(Ta, T)),
              "lstsq:inputs-modified", "inputs modified by the solver", monitor="lstsq_inputs")
    C, d = rm.stacked(W, b, alpha, T)
    g, rn, nC, nx, nd = rm.certificate(C, d, x)
    tau = _tau(nC, nx, nd, rtol)
    ctx.close(g, np.zeros_like(g), "lstsq:normal-equations", "C^T(Cx-d) != 0: x is not a minimiser of |Wx-b|^2 + alpha^2|Lx|^2",
              atol=tau, monitor="lstsq_normal")
    _objective_check(ctx, "lstsq:objective-above-minimum", "lstsq_objective", C, d, x, rm.EPS, rtol)
    if np.size(res[1]) == 1:
        t = relax * (1e-9 * nd + 1e-10 * nC * nx)
        ctx.close(float(res[1][0]), rn * rn, "lstsq:residual-inconsistent",
                  "reported sum of squared residuals differs from |Cx-d|^2 of the returned x",
                  atol=(2 * rn + t) * t, monitor="lstsq_residual")
    else:
        ctx.skip("lstsq returned empty residuals (rank-deficient stacked system): nothing reported to judge")
    ctx.nontrivial(bool(W.any()) and not bzero)
    return x, res[1]


def _run_svd(case, ctx, o):
    from cherab.tools.inversions import invert_svd
    W, b, Wa, ba = o["W"], o["b"], o["Wa"], o["ba"]
    bzero = not b.any()
    m, n = W.shape
    # scipy.linalg.pinv works in single precision for float32 and for the small dtypes LAPACK maps to 's' (bool, uint8)
    single = case.get("reps", {}).get("W") in ("float32", "bool", "uint8")
    rtol = GRAD_RTOL32 if single else GRAD_RTOL
    eps = rm.EPS32 if single else rm.EPS
    x = _call(case, lambda: invert_svd(Wa, ba))
    if bzero:
        ctx.mon("zero_b")
    ok = isinstance(x, np.ndarray) and x.shape == (n,)
    if not ctx.check(ok, "svd:malformed-result", "result is not an ndarray of shape (N_s,)", monitor="svd_shape",
                     shape=getattr(x, "shape", None)):
        return
    x = np.array(x, dtype=float)
    ctx.check(_unchanged(Wa, W) and _unchanged(ba, b), "svd:inputs-modified", "geometry matrix or measurement vector modified "
              "(values or shape)", monitor="svd_inputs")
    if not ctx.check(bool(np.all(np.isfinite(x))), "svd:non-finite", "solution has a non-finite component", monitor="svd_finite"):
        return
    g, rn, nC, nx, nd = rm.certificate(W, b, x)
    tau = _tau(nC, nx, nd, rtol)
    ctx.close(g, np.zeros_like(g), "svd:normal-equations", "W^T(Wx-b) != 0: x is not a least-squares solution",
              atol=tau, monitor="svd_normal")
    _objective_check(ctx, "svd:objective-above-minimum", "svd_objective", W, b, x, eps, rtol)
    # minimum norm: x orthogonal to null(W); judged only when the numerical rank is unambiguous
    U, sv, Vt = np.linalg.svd(W, full_matrices=True)
    smax = float(sv[0]) if sv.size else 0.0
    cut = max(m, n) * eps * smax
    svn = np.concatenate([sv, np.zeros(n - sv.size)])
    if smax > 0 and np.any((svn > 0.05 * cut) & (svn < 20 * cut)):
        ctx.skip("svd: numerical rank ambiguous (singular value within 20x of the pinv cut-off); minimum norm not judged")
    else:
        null = Vt[svn <= 0.05 * cut] if smax > 0 else Vt
        kept = svn[svn >= 20 * cut] if smax > 0 else np.array([])
        if null.shape[0]:
            gap = (smax / float(kept.min())) if kept.size else 1.0
            tol = (0.1 * rtol + 1e3 * eps * gap) * nx
            ctx.close(null @ x, np.zeros(null.shape[0]), "svd:not-minimum-norm",
                      "solution has a component in the null space of W (not the Moore-Penrose solution)",
                      atol=tol, monitor="svd_min_norm")
    ctx.nontrivial(bool(W.any()) and not bzero)
    return x
