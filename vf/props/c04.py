"""C04 — beam density conserves particles, decays monotonically, follows its envelope.

A real `Beam` with a real `SingleRayAttenuator` is placed (translation + rotation, nested parents) next to a real
`Plasma` whose species profiles are Python callables and whose stopping rates come from the recording mock provider
vf/mock_c04.py.  Everything is built in its final placement *before* the first density evaluation (the stale-cache
defect of Beam._modified belongs to C01).  Monitors, all on Beam.density / SingleRayAttenuator.density / Beam.direction:

  flux_source : cross-section integral at z = 0 equals P/(E m e)/v (CODATA-limited rtol 1e-7; own constants).
  flux_nostop : all rates null / no ions / zero ion density: flux(z)/flux(0) = 1 at 12 z (atol 1e-11), any divergence.
  flux_atten  : flux(z)/flux(0) = exp(-int_0^z S/v), S from the documented composite formula evaluated by this module
                (own transform algebra, own constants, Gauss-Legendre panels, two orders must agree); tolerance =
                TOL_FACTOR (10) x a rigorous bound of the documented discretisation (trapezoid on a grid of spacing
                <= step + linear interpolation of the line density) + 1e-7.  The documented scheme attains the bound,
                so the margin of this monitor sits just below 1/TOL_FACTOR by construction.  Comparisons whose tolerance
                exceeds a tenth of the attenuation reached at that z are judged too but counted as flux_atten_loose.
  flux_atten_gapped : same comparison for the "gapped" class: ion densities that are EXACTLY zero on parts of the axis
                between non-zero regions (2-3 oblique slabs with vacuum gaps, a hollow spherical shell crossed twice,
                a cosine clipped to zero; shared by all ions or carried by one species while the others stay smooth;
                vacuum or plasma at z = 0).  The kinks on the axis are computed analytically, the Gauss-Legendre panels
                never straddle one (graded towards them), derivatives for the tolerance are taken piecewise, and every
                grid cell holding a kink gets the first-order allowance step*|jump|/2 + step^2 max|a'| (x KINK_FACTOR 4;
                + step*|jump|/4 interpolation term near a kink) - no alignment of kinks with grid nodes is assumed.
                The jump term is attained when a discontinuity sits next to a node: margin < 1/KINK_FACTOR.
  configuration routes : every case reaches its final configuration (before the first density evaluation) either the
                canonical way (attenuator parameters through the constructor, Beam attributes set once) or with one
                parameter - or all of them - through the other route: clamp_sigma / step / clamp_to_zero constructed
                with a decoy and assigned through the attribute before or after the attenuator is attached (clamp_to_zero
                is constructor-only: counted as a skip), Beam sigma / divergences / length / energy / power /
                temperature / element assigned a decoy first or assigned early (before atomic data, plasma and
                attenuator are attached).  The same oracles judge every route; keys of non-canonical cases end in
                "@<parameter>:<route>".  clamp_sigma covers 0.5..8 incl. non-integers.
  clamp_radius: with clamping on, the zero / non-zero transition is located by bisection along 4 azimuths at 3 z and
                must sit at normalised radius clamp_sigma (rtol 1e-10).
  envelope    : normalised second moments of the cross-section = sigma_x(z)^2, sigma_y(z)^2 (documented envelope,
                truncated-Gaussian factor when clamping is on).  Judged first: the quadrature nodes follow the documented
                envelope, so when it fails the z-dependence of the flux is skipped for that case (not attributable).
  monotone    : on-axis density never increases along >= 65 sorted z.
  zero_z / zero_clamp : exact 0.0 before the source, beyond the length, outside the clamp ellipse.
  dir_unit / dir_stream : |d| = 1 and d_x/d_z = x sigma_x'/sigma_x, d_y/d_z = y sigma_y'/sigma_y (pointwise form of
                "streamlines keep x/sigma_x constant") for 0 < z <= length.
The cross-section quadrature is a tensor trapezoid (+-8.5 sigma, h = sigma/2: spectrally exact for Gaussians) or, with
clamping on, Gauss-Legendre in the normalised radius on [0, c] x trapezoid in angle, whose exact value for a correct
implementation is (1 - exp(-c^2/2)) * line density.
"""
import math

import numpy as np

from vf import mock_c04

ID = "C04"
LEVEL = "exploration"
RULE = ("random beam (energy 1e3..1e6 eV/amu, power, H/D/T/He, sigma 1 mm..0.3 m, divergences 0..5 deg in five classes, "
        "length 0.1..5 m, step 1 mm..0.2 m incl. step > length, clamp on/off with clamp_sigma 1..6), random rigid placement "
        "of beam and plasma (identity / translated / rotated / nested parents), 0..4 ion species (Z 1..10) plus optional "
        "neutrals with null rates, uniform / linear / exponential / Gaussian-bump density, temperature and flow profiles, "
        "piecewise densities exactly zero between plasma regions (slabs / hollow shell / clipped cosine), "
        "per-key power-law stopping rates scaled to an optical depth 0.03..10 (or all-null = no stopping); a case is "
        "non-trivial when a flux comparison ran with non-zero beam density and (stopping classes) optical depth >= 0.01 "
        "with a tolerance below a tenth of the attenuation; distinct = distinct parameter dictionaries")
LEVEL_TEXT = ("Exploration by runtime monitoring of conservation / monotonicity / zero-region / streamline invariants on the "
              "real Beam + SingleRayAttenuator + Plasma objects over generated configurations; the quantifier ranges over "
              "continuous parameters and arbitrary profiles, so sampling with an independent oracle is the reachable level")
LEVEL_NOTE = ("trusted: Raysect scene graph and interpolator, the Element table (atomic_weight read from the real Element), "
              "this module's quadrature and transform algebra; 'follows its envelope' is read as: second moments of the "
              "cross-section equal the documented sigma_x(z)^2, sigma_y(z)^2")
TECHNIQUE = ("runtime monitoring: conservation + monotonicity monitor over a sampled field with a reference-model oracle "
             "(independent stopping integral, recording mock atomic data, recording profile callables)")
ASSUMPTIONS = ["beam and plasma share one scene-graph root and are related by a rigid transform (rotation + translation)",
               "stopping rates and ion densities are non-negative; neutrals (Z=0, documented n_eq undefined) have null rates",
               "profiles are piecewise smooth on the scale of the attenuator step with analytically known kinks on the beam axis "
               "(tolerance is computed from their piecewise derivatives and jumps)",
               "every scene is built in its final placement before the first density evaluation (history effects: C01)"]
ASAN_MODULES = ["cherab.core.model.attenuator.singleray", "cherab.core.beam.node"]
ASAN = dict(cases=300, workers=8, timecap=240)
QUICK = dict(cases=220, workers=2, timecap=40)
THOROUGH = dict(cases=22000, workers=16, timecap=600)
TOL_FACTOR = 10.0   # safety factor on the rigorous smooth-profile discretisation bound (attained by the documented scheme)
KINK_FACTOR = 4.0   # safety factor on the first-order terms of cells that contain a kink of a piecewise profile
REQUIRED = {"clamp_radius": 300, "flux_source": 70, "flux_nostop": 40, "flux_atten": 330, "flux_atten_gapped": 100, "axis_kinks": 50, "envelope": 1500, "monotone": 5000, "zero_z": 2500,
            "zero_clamp": 5000, "dir_unit": 2000, "dir_stream": 3000, "rate_evaluations": 10000}

# own constants (CODATA 2018; cherab mixes 2018 and 2022 => never compare physics below 1e-7)
E_CH = 1.602176634e-19
AMU = 1.66053906660e-27

BEAM_ELEMENTS = ["hydrogen", "deuterium", "tritium", "helium"]
# name -> (atomic number, approximate mass) — used by the generator only (charge range, scaling); the oracle reads the
# beam mass from the real Element object.
PLASMA_ELEMENTS = {"hydrogen": (1, 1.008), "deuterium": (1, 2.014), "tritium": (1, 3.016), "helium": (2, 4.003),
                   "lithium": (3, 6.97), "beryllium": (4, 9.012), "boron": (5, 10.81), "carbon": (6, 12.011),
                   "nitrogen": (7, 14.007), "oxygen": (8, 15.999), "neon": (10, 20.18), "argon": (18, 39.88)}
BEAM_MASS = {"hydrogen": 1.008, "deuterium": 2.014, "tritium": 3.016, "helium": 4.003}


# ----------------------------------------------------------------------------------------------------------------
# transform algebra (own; matrices are handed to Raysect as plain 4x4 arrays)
# ----------------------------------------------------------------------------------------------------------------

def op_matrix(op):
    M = np.eye(4)
    if op[0] == "t":
        M[:3, 3] = op[1:4]
    elif op[0] == "r":
        a = np.asarray(op[1:4], dtype=float)
        a = a / np.linalg.norm(a)
        th = math.radians(op[4])
        K = np.array([[0, -a[2], a[1]], [a[2], 0, -a[0]], [-a[1], a[0], 0]])
        M[:3, :3] = np.eye(3) + math.sin(th) * K + (1 - math.cos(th)) * (K @ K)
    else:
        raise ValueError("unknown op %r" % (op,))
    return M


def ops_matrix(ops):
    M = np.eye(4)
    for op in ops:
        M = M @ op_matrix(op)
    return M


def root_matrix(nodes):
    M = np.eye(4)
    for ops in nodes:
        M = M @ ops_matrix(ops)
    return M


def rigid_inverse(M):
    R = M[:3, :3]
    t = M[:3, 3]
    Mi = np.eye(4)
    Mi[:3, :3] = R.T
    Mi[:3, 3] = -R.T @ t
    return Mi


def beam_to_plasma(case):
    if case.get("beam_parent") == "plasma":          # beam nodes hang below the plasma node itself
        return root_matrix(case["beam_nodes"])
    return rigid_inverse(root_matrix(case["plasma_nodes"])) @ root_matrix(case["beam_nodes"])


# ----------------------------------------------------------------------------------------------------------------
# profiles: one dict, a scalar callable for cherab and a vectorised evaluator for the oracle
# ----------------------------------------------------------------------------------------------------------------

def vec_scalar(p, pts):
    k = p["k"]
    if k == "u":
        return np.full(len(pts), float(p["v"]))
    if k == "lin":
        return p["v"] * (1.0 + (pts - np.asarray(p["r0"])) @ np.asarray(p["g"]))
    if k == "exp":
        return p["v"] * np.exp((pts - np.asarray(p["r0"])) @ np.asarray(p["g"]))
    if k == "gau":
        d2 = ((pts - np.asarray(p["c"])) ** 2).sum(axis=1)
        return p["b"] + p["a"] * np.exp(-d2 / (2.0 * p["w"] ** 2))
    if k == "slabs":          # v * f_j for a_j <= s <= b_j, s = (r - r0).e ; exactly 0 elsewhere
        sc = (pts - np.asarray(p["r0"])) @ np.asarray(p["e"])
        out = np.zeros(len(pts))
        for a_, b_, f_ in p["iv"]:
            out = np.where((sc >= a_) & (sc <= b_), p["v"] * f_, out)
        return out
    if k == "shell":          # hollow sphere: v (1 + g t), t = (rho - ri)/(ro - ri) in [0, 1]; exactly 0 elsewhere
        rho = np.sqrt(((pts - np.asarray(p["c"])) ** 2).sum(axis=1))
        t = (rho - p["ri"]) / (p["ro"] - p["ri"])
        return np.where((rho >= p["ri"]) & (rho <= p["ro"]), p["v"] * (1.0 + p["g"] * t), 0.0)
    if k == "clip":           # v max(0, cos(kk s + ph) - off): continuous, clipped to exactly 0
        sc = (pts - np.asarray(p["r0"])) @ np.asarray(p["e"])
        return p["v"] * np.maximum(0.0, np.cos(p["kk"] * sc + p["ph"]) - p["off"])
    raise ValueError(k)


GAP_KINDS = ("slabs", "shell", "clip")


def profile_kinks(p, p0, d, L):
    """z in (0, L) where the profile p, restricted to the beam axis r = p0 + z d, is not smooth."""
    k = p["k"]
    out = []
    if k == "slabs":
        e = np.asarray(p["e"])
        s0 = float((p0 - np.asarray(p["r0"])) @ e)
        c = float(d @ e)
        if abs(c) > 1e-12:
            for a_, b_, f_ in p["iv"]:
                out += [(a_ - s0) / c, (b_ - s0) / c]
    elif k == "shell":
        q = p0 - np.asarray(p["c"])
        bq = float(d @ q)
        for R in (p["ri"], p["ro"]):
            disc = bq * bq - (float(q @ q) - R * R)
            if disc >= 0:
                out += [-bq - math.sqrt(disc), -bq + math.sqrt(disc)]
    elif k == "clip":
        e = np.asarray(p["e"])
        s0 = float((p0 - np.asarray(p["r0"])) @ e)
        c = float(d @ e)
        if abs(p["off"]) < 1 and abs(c * p["kk"]) > 1e-12:
            al = math.acos(p["off"])
            w0 = p["kk"] * s0 + p["ph"]
            w1 = w0 + p["kk"] * c * L
            lo, hi = min(w0, w1), max(w0, w1)
            for sign in (1.0, -1.0):
                m0_ = int(math.floor((lo - sign * al) / (2 * math.pi))) - 1
                m1_ = int(math.ceil((hi - sign * al) / (2 * math.pi))) + 1
                for m in range(m0_, m1_ + 1):
                    w = sign * al + 2 * math.pi * m
                    out.append((w - w0) / (p["kk"] * c))
    return [z for z in out if 0.0 < z < L]


def axis_kinks(case, M):
    L = case["beam"]["length"]
    p0 = M[:3, 3]
    d = M[:3, 2] / np.linalg.norm(M[:3, 2])
    zs = []
    for s_ in case["species"]:
        if s_["n"]["k"] in GAP_KINDS:
            zs += profile_kinks(s_["n"], p0, d, L)
    zs = sorted(zs)
    out = []
    for z in zs:
        if not out or z - out[-1] > 1e-12 * L:
            out.append(float(z))
    return out


def vec_vector(p, pts):
    k = p["k"]
    v = np.asarray(p["v"], dtype=float)
    if k == "u":
        return np.tile(v, (len(pts), 1))
    if k == "gau":
        d2 = ((pts - np.asarray(p["c"])) ** 2).sum(axis=1)
        return v[None, :] * (1.0 + p["a"] * np.exp(-d2 / (2.0 * p["w"] ** 2)))[:, None]
    raise ValueError(k)


def scalar_fn(p, counter):
    k = p["k"]
    if k == "u":
        return float(p["v"])          # constant: autowrapped by cherab
    if k in ("lin", "exp"):
        v0 = float(p["v"])
        gx, gy, gz = [float(c) for c in p["g"]]
        x0, y0, z0 = [float(c) for c in p["r0"]]
        if k == "lin":
            def f(x, y, z):
                counter[0] += 1
                return v0 * (1.0 + (gx * (x - x0) + gy * (y - y0) + gz * (z - z0)))
        else:
            def f(x, y, z):
                counter[0] += 1
                return v0 * math.exp(gx * (x - x0) + gy * (y - y0) + gz * (z - z0))
        return f
    if k == "gau":
        b, a, w = float(p["b"]), float(p["a"]), float(p["w"])
        cx, cy, cz = [float(c) for c in p["c"]]
        inv = 1.0 / (2.0 * w * w)

        def f(x, y, z):
            counter[0] += 1
            return b + a * math.exp(-((x - cx) ** 2 + (y - cy) ** 2 + (z - cz) ** 2) * inv)
        return f
    if k == "slabs":
        v0 = float(p["v"])
        ex, ey, ez = [float(c) for c in p["e"]]
        x0, y0, z0 = [float(c) for c in p["r0"]]
        iv = [(float(a_), float(b_), v0 * float(f_)) for a_, b_, f_ in p["iv"]]

        def f(x, y, z):
            counter[0] += 1
            sc = (x - x0) * ex + (y - y0) * ey + (z - z0) * ez
            val = 0.0
            for a_, b_, vf in iv:
                if a_ <= sc <= b_:
                    val = vf
            return val
        return f
    if k == "shell":
        v0, g, ri, ro = float(p["v"]), float(p["g"]), float(p["ri"]), float(p["ro"])
        cx, cy, cz = [float(c) for c in p["c"]]

        def f(x, y, z):
            counter[0] += 1
            rho = math.sqrt((x - cx) ** 2 + (y - cy) ** 2 + (z - cz) ** 2)
            if ri <= rho <= ro:
                return v0 * (1.0 + g * (rho - ri) / (ro - ri))
            return 0.0
        return f
    if k == "clip":
        v0, kk, ph, off = float(p["v"]), float(p["kk"]), float(p["ph"]), float(p["off"])
        ex, ey, ez = [float(c) for c in p["e"]]
        x0, y0, z0 = [float(c) for c in p["r0"]]

        def f(x, y, z):
            counter[0] += 1
            sc = (x - x0) * ex + (y - y0) * ey + (z - z0) * ez
            return v0 * max(0.0, math.cos(kk * sc + ph) - off)
        return f
    raise ValueError(k)


def vector_fn(p, counter, Vector3D):
    k = p["k"]
    vx, vy, vz = [float(c) for c in p["v"]]
    if k == "u":
        return Vector3D(vx, vy, vz)
    if k == "gau":
        a, w = float(p["a"]), float(p["w"])
        cx, cy, cz = [float(c) for c in p["c"]]
        inv = 1.0 / (2.0 * w * w)

        def f(x, y, z):
            counter[0] += 1
            s = 1.0 + a * math.exp(-((x - cx) ** 2 + (y - cy) ** 2 + (z - cz) ** 2) * inv)
            return Vector3D(vx * s, vy * s, vz * s)
        return f
    raise ValueError(k)


# ----------------------------------------------------------------------------------------------------------------
# oracle: documented composite stopping coefficient and its integral
# ----------------------------------------------------------------------------------------------------------------

def beam_speed(energy):
    return math.sqrt(2.0 * E_CH * energy / AMU)


def is_null(case, sp):
    return sp["Z"] == 0 or [sp["el"], sp["Z"]] in [list(k) for k in case["null_keys"]]


def stopping(case, zs, M=None, scale=None):
    """S(z) [1/s] on the beam axis, documented formula:  S = sum_i Z_i n_i S_i(E_int,i, (1/Z_i) sum_j Z_j^2 n_j, T_i)."""
    if M is None:
        M = beam_to_plasma(case)
    if scale is None:
        scale = case["rate_scale"]
    zs = np.atleast_1d(np.asarray(zs, dtype=float))
    d = M[:3, 2] / np.linalg.norm(M[:3, 2])
    pts = M[:3, 3][None, :] + zs[:, None] * M[:3, 2][None, :]
    v = beam_speed(case["beam"]["energy"])
    sp = case["species"]
    dens = [vec_scalar(s["n"], pts) for s in sp]
    dsum = np.zeros(len(zs))
    for s, n in zip(sp, dens):
        dsum = dsum + s["Z"] ** 2 * n
    S = np.zeros(len(zs))
    for s, n in zip(sp, dens):
        if is_null(case, s):
            continue
        Z = s["Z"]
        T = vec_scalar(s["T"], pts)
        u = vec_vector(s["u"], pts)
        vrel = v * d[None, :] - u
        eint = (vrel ** 2).sum(axis=1) * AMU / (2.0 * E_CH)
        par = mock_c04.rate_params(case["beam"]["element"], s["el"], Z, case["rate_variant"])
        S = S + Z * n * mock_c04.rate_value(par, scale, eint, dsum / Z, T)
    return S


_GL = {}


def _gl(n):
    if n not in _GL:
        _GL[n] = np.polynomial.legendre.leggauss(n)
    return _GL[n]


def optical_depth(case, zs, panel, order, M=None, scale=None, kinks=()):
    """tau(z_k) = int_0^{z_k} S/v dz for sorted zs, Gauss-Legendre panels no longer than `panel`; panels never straddle
    a kink of a piecewise profile (all nodes are interior, so a discontinuity is never sampled)."""
    v = beam_speed(case["beam"]["energy"])
    x, w = _gl(order)
    res = {}
    prev = 0.0
    acc = 0.0
    zmax = max(zs) if len(zs) else 0.0
    kset = set(float(q) for q in kinks)
    marks = sorted(set([float(z) for z in zs] + [q for q in kset if q < zmax]))
    for z in marks:
        if z > prev:
            npan = max(1, int(math.ceil((z - prev) / panel)))
            edges = np.linspace(prev, z, npan + 1)
            # geometric grading towards an end that is a kink (a clipped profile leaves a thin layer there in which
            # the power-law rates vary quickly)
            if prev in kset:
                edges = np.concatenate([[prev], prev + (edges[1] - prev) * 0.5 ** np.arange(40, 0, -1), edges[1:]])
            if z in kset:
                edges = np.concatenate([edges[:-1], z - (z - edges[-2]) * 0.5 ** np.arange(1, 41), [z]])
            npan = len(edges) - 1
            half = 0.5 * (edges[1:] - edges[:-1])
            mid = 0.5 * (edges[1:] + edges[:-1])
            zz = (mid[:, None] + half[:, None] * x[None, :]).ravel()
            S = stopping(case, zz, M=M, scale=scale).reshape(npan, order)
            acc += float(((S * w[None, :]).sum(axis=1) * half).sum()) / v
            prev = z
        res[z] = acc
    return np.array([res[float(z)] for z in zs])


def flux_tolerance(case, zs, M, kinks=()):
    """Relative tolerance on lambda(z)/lambda(0) for ANY scheme "trapezoid of a = S/v on a grid of spacing <= h, then
    linear interpolation of the line density", h = min(step, length).  a is piecewise smooth with kinks (jumps J_k of a,
    or of a') at the known positions `kinks`.  Rigorous error budget (maxima over [0, zz], zz = right node of the cell
    holding z; derivatives taken piecewise, never across a kink):
      cells without kink : trapezoid error <= h^3/12 max|a''| each            -> E_s = zz h^2/12 max|a''|
      a cell with kink k : a = Lipschitz part + J_k * step function            -> E_k = h J_k/2 + h^2 max|a'|
      interpolation      : h^2/8 max|a^2 - a'|  (+ h J_k/4 for every kink within h of z: derivative jump of lambda)
    tol = [expm1(TOL_FACTOR E_s + KINK_FACTOR sum_k E_k) + TOL_FACTOR h^2/8 max|a^2-a'| + KINK_FACTOR sum h J_k/4]
          * exp(h max a) + 1e-7.
    The first-order kink terms are attained only when a discontinuity sits next to a grid node, hence the smaller
    safety factor on them."""
    b = case["beam"]
    L = b["length"]
    h = min(case["attenuator"]["step"], L)
    v = beam_speed(b["energy"])
    nf = int(min(max(20 * math.ceil(L / h), 400), 40000))
    edges = [0.0] + [float(q) for q in kinks] + [L]
    Zs, A, A1, A2 = [], [], [], []
    jumps = []
    prev_end = None
    for i in range(len(edges) - 1):
        lo, hi = edges[i], edges[i + 1]
        dl = min(1e-9 * L, 0.01 * (hi - lo))
        lo_ = lo + (dl if i > 0 else 0.0)
        hi_ = hi - (dl if i < len(edges) - 2 else 0.0)
        n = max(9, int(math.ceil(nf * (hi - lo) / L)) + 1)
        zf = np.linspace(lo_, hi_, n)
        a = stopping(case, zf, M=M) / v
        a1 = np.gradient(a, zf, edge_order=2)
        a2 = np.gradient(a1, zf, edge_order=2)
        if i > 0:
            jumps.append(abs(float(a[0]) - prev_end))
        prev_end = float(a[-1])
        Zs.append(zf), A.append(a), A1.append(a1), A2.append(a2)
    Zf, a, a1, a2 = np.concatenate(Zs), np.concatenate(A), np.concatenate(A1), np.concatenate(A2)
    cm_a = np.maximum.accumulate(np.abs(a))
    cm_c = np.maximum.accumulate(np.abs(a * a - a1))
    cm_2 = np.maximum.accumulate(np.abs(a2))
    a1max = float(np.abs(a1).max())
    z_ = np.asarray(zs, dtype=float)
    zz = np.minimum(z_ + h, L)                                        # right node of the grid interval containing z
    idx = np.minimum(np.searchsorted(Zf, zz, side="left") + 1, len(Zf) - 1)
    amax, cmax, a2max = cm_a[idx], cm_c[idx], cm_2[idx]
    e_s = zz * h * h / 12.0 * a2max
    e_k = np.zeros(len(z_))
    i_k = np.zeros(len(z_))
    for xi, J in zip(kinks, jumps):
        e_k += np.where(xi <= zz, 0.5 * h * J + h * h * a1max, 0.0)
        i_k += np.where(np.abs(xi - z_) <= h, 0.25 * h * J, 0.0)
    return (np.expm1(TOL_FACTOR * e_s + KINK_FACTOR * e_k) + TOL_FACTOR * h * h / 8.0 * cmax + KINK_FACTOR * i_k) * np.exp(h * amax) + 1e-7


# ----------------------------------------------------------------------------------------------------------------
# case generation
# ----------------------------------------------------------------------------------------------------------------

def _unit(rng):
    v = rng.normal(size=3)
    return v / np.linalg.norm(v)


def _rand_ops(rng, kind, span):
    ops = []
    if kind in ("t", "tr"):
        ops.append(["t"] + [float(c) for c in rng.uniform(-span, span, size=3)])
    if kind in ("r", "tr"):
        if rng.random() < 0.3:
            ax = [[1, 0, 0], [0, 1, 0], [0, 0, 1]][int(rng.integers(3))]
            ang = float([90, -90, 180, 45][int(rng.integers(4))])
        else:
            ax = [float(c) for c in _unit(rng)]
            ang = float(rng.uniform(-180, 180))
        ops.append(["r"] + [float(c) for c in ax] + [ang])
    return ops


def _scalar_profile(rng, kind, v0, p0, d, L, h, positive_floor):
    """Profile in plasma space; p0 = axis start, d = axis direction (unit), L = beam length."""
    mid = p0 + 0.5 * L * d
    if kind == "u":
        return {"k": "u", "v": float(v0)}
    if kind == "lin":
        e = _unit(rng)
        e = e - (e @ d) * d
        e = e / np.linalg.norm(e)
        gpar = rng.uniform(-1.6, 1.6) / L            # 1 + g.(r-r0) stays in [0.2, 1.8] on the axis
        gper = rng.uniform(-1.6, 1.6) / L
        return {"k": "lin", "v": float(v0), "g": [float(c) for c in gpar * d + gper * e], "r0": [float(c) for c in mid]}
    if kind == "exp":
        e = _unit(rng)
        g = (rng.uniform(-4, 4) / L) * d + (rng.uniform(-4, 4) / L) * (e - (e @ d) * d)
        return {"k": "exp", "v": float(v0), "g": [float(c) for c in g], "r0": [float(c) for c in mid]}
    if kind == "gau":
        w = max(25.0 * h, float(rng.uniform(0.05, 2.0)) * L)
        e = _unit(rng)
        e = e - (e @ d) * d
        c = p0 + rng.uniform(-0.2, 1.2) * L * d + rng.uniform(0, 1) * w * e
        base = 0.0 if (not positive_floor and rng.random() < 0.3) else float(v0 * rng.uniform(0.02, 1.0))
        return {"k": "gau", "b": float(base), "a": float(v0), "c": [float(x) for x in c], "w": float(w)}
    raise ValueError(kind)


def _gap_geometry(rng, gkind, p0, d, L):
    """Region shape (plasma space) whose trace on the beam axis has vacuum gaps BETWEEN plasma regions."""
    e = _unit(rng)
    e = e - (e @ d) * d
    e = d + rng.uniform(0.0, 0.7) * e / np.linalg.norm(e)
    e = e / np.linalg.norm(e)                       # oblique to the beam, d.e >= 0.8
    c = float(d @ e)
    if gkind == "slabs":
        ns = int(rng.integers(2, 4))                # two or three slabs
        fr = rng.uniform(0.08, 1.0, size=2 * ns + 1)
        # alternate gap / slab / gap ... ; the first boundary may lie before the source (plasma at z = 0) or after it
        lo = -0.25 * L if rng.random() < 0.45 else rng.uniform(0.02, 0.2) * L
        hi = rng.uniform(0.85, 1.25) * L
        if lo < 0:
            fr[0] = 0.0
        cuts = lo + (hi - lo) * np.cumsum(fr) / fr.sum()
        cuts = np.concatenate([[lo], cuts])
        iv = [[float(cuts[2 * j + 1] * c), float(cuts[2 * j + 2] * c)] for j in range(ns)]
        return {"k": "slabs", "e": [float(x) for x in e], "r0": [float(x) for x in p0], "iv": iv}
    if gkind == "shell":
        ro = float(rng.uniform(0.25, 0.6) * L)
        ri = float(rng.uniform(0.3, 0.8) * ro)
        perp = _unit(rng)
        perp = perp - (perp @ d) * d
        perp = perp / np.linalg.norm(perp)
        cen = p0 + rng.uniform(0.3, 0.7) * L * d + rng.uniform(0.0, 0.6) * ri * perp     # axis passes through the hollow
        return {"k": "shell", "c": [float(x) for x in cen], "ri": ri, "ro": ro}
    if gkind == "clip":
        kk = float(2 * math.pi * rng.uniform(1.0, 3.0) / (L * c))
        return {"k": "clip", "e": [float(x) for x in e], "r0": [float(x) for x in p0], "kk": kk,
                "ph": float(rng.uniform(0, 2 * math.pi)), "off": float(rng.uniform(0.0, 0.6))}
    raise ValueError(gkind)


def _gap_profile(rng, geom, v0):
    p = dict(geom)
    p["v"] = float(v0)
    if p["k"] == "slabs":
        p["iv"] = [[a_, b_, float(rng.uniform(0.3, 1.5))] for a_, b_ in geom["iv"]]
    elif p["k"] == "shell":
        p["g"] = float(rng.uniform(-0.5, 0.5))
    return p


def gen_case(rng, tier, overrides=None):
    ov = overrides or {}
    thorough = tier == "thorough"
    # ---- beam ----
    energy = float(10 ** rng.uniform(3, 6))
    power = float(10 ** rng.uniform(3, 7))
    bel = BEAM_ELEMENTS[int(rng.integers(4))]
    sigma = float(10 ** rng.uniform(-3, math.log10(0.3)))
    divc = ov.get("div_class") or ["zero", "equal", "unequal", "unequal", "x-zero", "y-zero"][int(rng.integers(6))]
    a1 = float(rng.uniform(0.0, 5.0)) if rng.random() > 0.15 else float(10 ** rng.uniform(-3, -1))
    a2 = float(rng.uniform(0.0, 5.0))
    divx, divy = {"zero": (0.0, 0.0), "equal": (a1, a1), "unequal": (a1, a2), "x-zero": (0.0, a2), "y-zero": (a1, 0.0)}[divc]
    length = float(10 ** rng.uniform(-1, math.log10(5)))
    max_nodes = 6000 if thorough else 3000
    if rng.random() < 0.08:
        step = float(length * rng.uniform(1.01, 5.0))
        stepc = "step>length"
    else:
        step = float(10 ** rng.uniform(-3, math.log10(0.2)))
        step = max(step, length / max_nodes)
        stepc = "step>length" if step > length else "step<=length"
    clamp = bool(rng.random() < 0.5)
    clamp_sigma = float(rng.uniform(0.5, 8)) if rng.random() > 0.2 else float([0.5, 1, 2.5, 3, 6][int(rng.integers(5))])
    beam = dict(energy=energy, power=power, element=bel, sigma=sigma, divergence_x=divx, divergence_y=divy, length=length,
                temperature=float(rng.uniform(0, 100)))
    att = dict(step=step, clamp_to_zero=clamp, clamp_sigma=clamp_sigma)
    if "beam" in ov:
        beam = dict(ov["beam"])
        energy, length = beam["energy"], beam["length"]
    if "attenuator" in ov:
        att = dict(ov["attenuator"])
    step = att["step"]
    stepc = "step>length" if step > length else "step<=length"
    # ---- placement ----
    place = ov.get("place") or ["identity", "translated", "rotated", "moved", "nested", "nested", "child-of-plasma"][int(rng.integers(7))]
    span = 3.0
    if place == "identity":
        pn, bn = [[]], [[]]
    elif place == "translated":
        pn, bn = [[]], [_rand_ops(rng, "t", span)]
    elif place == "rotated":
        pn, bn = [[]], [_rand_ops(rng, "r", span)]
    elif place == "moved":
        pn, bn = [_rand_ops(rng, "tr", span)], [_rand_ops(rng, "tr", span)]
    elif place == "child-of-plasma":
        pn = [_rand_ops(rng, "tr", span) for _ in range(int(rng.integers(1, 3)))]
        bn = [_rand_ops(rng, "tr", span) for _ in range(int(rng.integers(1, 3)))]
    else:
        pn = [_rand_ops(rng, "tr", span) for _ in range(int(rng.integers(1, 4)))]
        bn = [_rand_ops(rng, "tr", span) for _ in range(int(rng.integers(2, 4)))]
    case = dict(beam=beam, attenuator=att, plasma_nodes=pn, beam_nodes=bn, place=place,
                beam_parent="plasma" if place == "child-of-plasma" else "world", div_class=divc, step_class=stepc)
    M = beam_to_plasma(case)
    p0 = M[:3, 3].copy()
    d = M[:3, 2] / np.linalg.norm(M[:3, 2])
    h = min(step, length)
    # ---- plasma ----
    stop = ov.get("stop_class") or ["none", "uniform", "uniform", "linear", "exp", "gauss", "gauss", "mixed", "mixed", "mixed", "gapped", "gapped", "gapped"][int(rng.integers(13))]
    sub = ""
    nion = int(rng.integers(1, 5))
    if stop == "none":
        sub = ["null-rates", "null-rates", "no-species", "neutrals-only", "zero-density"][int(rng.integers(5))]
        if sub == "no-species":
            nion = 0
        elif sub == "neutrals-only":
            nion = 0
    geom = None
    gap_common, gap_ion = True, 0
    if stop == "gapped":
        # piecewise density: exactly zero on parts of the axis between non-zero regions.  Mostly a fine attenuator grid,
        # so that the first-order kink allowance (|jump| x step) stays well below the attenuation behind a gap.
        if "attenuator" not in ov and rng.random() < 0.8:
            att["step"] = step = float(length / rng.uniform(200, max_nodes))
            h = min(step, length)
            case["step_class"] = "step<=length"
        gk = ov.get("gap_kind") or ["slabs", "slabs", "shell", "clip"][int(rng.integers(4))]
        geom = _gap_geometry(rng, gk, p0, d, length)
        gap_common = bool(nion == 1 or rng.random() < 0.65)      # all ions share the region shape / one species only
        gap_ion = int(rng.integers(nion))
        sub = gk + (":common" if gap_common else ":one-species")
    species = []
    used = set()
    names = list(PLASMA_ELEMENTS)
    v = beam_speed(energy)
    flows = bool(rng.random() < 0.45)
    for i in range(nion):
        for _ in range(50):
            el = names[int(rng.integers(len(names)))] if i > 0 or rng.random() < 0.3 else names[int(rng.integers(3))]
            zmax = min(PLASMA_ELEMENTS[el][0], 10)
            Z = zmax if rng.random() < 0.5 else int(rng.integers(1, zmax + 1))
            if (el, Z) not in used:
                break
        else:
            continue
        used.add((el, Z))
        n0 = float(10 ** rng.uniform(17, 20.5)) / (1 if i == 0 else Z * rng.uniform(1, 30))
        T0 = float(10 ** rng.uniform(0, 4.3))
        kinds = {"none": ["u", "lin", "exp", "gau"], "uniform": ["u"], "linear": ["lin"], "exp": ["exp"], "gauss": ["gau"],
                 "mixed": ["u", "lin", "exp", "gau"], "gapped": ["u", "lin", "exp", "gau"]}[stop]
        kn = kinds[int(rng.integers(len(kinds)))]
        kT = kinds[int(rng.integers(len(kinds)))]
        npro = _scalar_profile(rng, kn, n0, p0, d, length, h, positive_floor=False)
        if sub == "zero-density":
            npro = {"k": "u", "v": 0.0}
        if geom is not None and (gap_common or i == gap_ion):
            npro = _gap_profile(rng, geom, n0)
        Tpro = _scalar_profile(rng, kT, T0, p0, d, length, h, positive_floor=True)
        if flows and rng.random() < 0.8:
            u0 = _unit(rng) * rng.uniform(0.0, 0.4) * v
            if stop in ("gauss", "mixed", "none", "gapped") and rng.random() < 0.5:
                w = max(25.0 * h, float(rng.uniform(0.05, 2.0)) * length)
                c = p0 + rng.uniform(-0.2, 1.2) * length * d
                upro = {"k": "gau", "v": [float(x) for x in u0], "a": float(rng.uniform(-0.8, 2.0)), "c": [float(x) for x in c], "w": float(w)}
            else:
                upro = {"k": "u", "v": [float(x) for x in u0]}
        else:
            upro = {"k": "u", "v": [0.0, 0.0, 0.0]}
        species.append(dict(el=el, Z=int(Z), n=npro, T=Tpro, u=upro))
    # neutrals (null rates by construction of the provider)
    nneut = int(rng.integers(1, 3)) if sub == "neutrals-only" else (1 if rng.random() < 0.3 else 0)
    if sub == "no-species":
        nneut = 0
    for i in range(nneut):
        for _ in range(50):
            el = names[int(rng.integers(len(names)))]
            if (el, 0) not in used:
                break
        else:
            continue
        used.add((el, 0))
        species.append(dict(el=el, Z=0, n=_scalar_profile(rng, "gau" if rng.random() < 0.5 else "u", 10 ** rng.uniform(15, 19), p0, d, length, h, False),
                            T=_scalar_profile(rng, "u", 10 ** rng.uniform(-1, 1), p0, d, length, h, True),
                            u={"k": "u", "v": [float(x) for x in _unit(rng) * rng.uniform(0, 1e4)]}))
    order = rng.permutation(len(species))
    species = [species[int(i)] for i in order]
    null_keys = []
    if stop == "none" and sub != "zero-density":
        null_keys = [[s["el"], s["Z"]] for s in species]
    elif len([s for s in species if s["Z"] > 0]) > 1 and rng.random() < 0.2:
        ions = [s for s in species if s["Z"] > 0]
        k = ions[int(rng.integers(len(ions)))]
        null_keys = [[k["el"], k["Z"]]]
    case.update(species=species, null_keys=null_keys, rate_variant=int(rng.integers(0, 1000)), rate_scale=1.0,
                stop_class=stop, stop_sub=sub, flows=bool(any(any(s["u"]["v"]) for s in species if s["Z"] > 0)))
    # ---- scale the rates to a target optical depth over the beam length ----
    tau_target = float(10 ** rng.uniform(-1.5, 1.0))
    if rng.random() < 0.03:
        tau_target = float(rng.uniform(20, 60))
    if stop != "none":
        tau1 = optical_depth(case, [case["beam"]["length"]], panel=case["beam"]["length"] / 64, order=8, M=M, scale=1.0,
                             kinks=axis_kinks(case, M))[0]
        if tau1 > 0 and np.isfinite(tau1):
            case["rate_scale"] = float(tau_target / tau1)
        else:
            case["stop_class"] = "none"
            case["stop_sub"] = "zero-density"
    # ---- observation points ----
    L = case["beam"]["length"]
    zs = [0.0, L, L * 1e-6, L * (1 - 1e-12)] + [float(z) for z in rng.uniform(0, L, size=8)]
    case["z"] = sorted(zs)
    case["via"] = "beam" if rng.random() < 0.6 else "attenuator"
    dirs = []
    for i in range(20):
        fz = float(rng.uniform(0, 1)) if i % 4 else float(10 ** rng.uniform(-6, 0))
        ux = 0.0 if i % 7 == 3 else float(rng.uniform(-6, 6))
        uy = 0.0 if i % 7 == 5 else float(rng.uniform(-6, 6))
        dirs.append([ux, uy, fz])
    dirs.append([1.5, -2.5, 1.0])
    case["dir_points"] = dirs
    case["angles"] = [float(a) for a in rng.uniform(0, 2 * math.pi, size=6)]
    case["path"] = ov.get("path") or _draw_path(rng, case)
    return case


ATT_PARAMS = ("clamp_sigma", "clamp_to_zero", "step")
BEAM_PARAMS = ("sigma", "divergence_x", "divergence_y", "length", "energy", "power", "temperature", "element")


def _decoy(rng, case, prm):
    """A valid value different from the final one (what the object holds before the final value arrives)."""
    a, b = case["attenuator"], case["beam"]
    if prm == "clamp_sigma":
        while True:
            dv = float(rng.uniform(0.5, 8))
            if abs(dv - a["clamp_sigma"]) > 0.3:
                return dv
    if prm == "clamp_to_zero":
        return not a["clamp_to_zero"]
    if prm == "step":
        return float(a["step"] * rng.uniform(2.0, 7.0))
    if prm == "element":
        return [e for e in BEAM_ELEMENTS if e != b["element"]][int(rng.integers(3))]
    if prm in ("divergence_x", "divergence_y"):
        return float(b[prm] + rng.uniform(0.7, 3.0))
    if prm == "temperature":
        return float(b[prm] + rng.uniform(1.0, 50.0))
    return float(b[prm] * rng.uniform(1.6, 4.0))      # sigma, length, energy, power


def _draw_path(rng, case):
    """How the final configuration is reached before the first density evaluation.
    canonical: attenuator parameters through the constructor, every Beam attribute set once.
    one parameter (or all of them: '*') through the alternative route:
      attenuator: 'setter-before-attach' (constructed with a decoy, attribute assigned, then attached to the beam) or
                  'setter-after-attach' (attached with the decoy, attribute assigned afterwards);
      beam      : 'decoy-first' (attribute assigned a decoy, then the final value) or 'early' (final value assigned
                  right after Beam() and before atomic data / plasma / attenuator are attached)."""
    u = rng.random()
    if u < 0.35:
        return {"param": None, "how": "canonical", "decoy": {}}
    if u < 0.45:
        prm = "*"
        names = list(ATT_PARAMS) + list(BEAM_PARAMS)
    elif u < 0.80:
        # attenuator parameters; the clamp parameters only matter with clamping on
        prm = ["clamp_sigma", "clamp_sigma", "step", "clamp_to_zero"][int(rng.integers(4))]
        names = [prm]
    else:
        prm = BEAM_PARAMS[int(rng.integers(len(BEAM_PARAMS)))]
        names = [prm]
    how_att = ["setter-before-attach", "setter-after-attach"][int(rng.integers(2))]
    how_beam = ["decoy-first", "early"][int(rng.integers(2))]
    how = how_att if prm in ATT_PARAMS else (how_beam if prm != "*" else how_att + "+" + how_beam)
    return {"param": prm, "how": how, "decoy": {n: _decoy(rng, case, n) for n in names}}


def fixed_cases(tier):
    out = []

    def mk(k, **ov):
        rng = np.random.default_rng([4, k])
        return gen_case(rng, tier, overrides=ov)
    # the suite's configuration (test_beam.py), uniform D+ plasma, clamp on
    c = mk(0, stop_class="uniform", place="translated", div_class="unequal",
           beam=dict(energy=50000.0, power=1e6, element="deuterium", sigma=0.2, divergence_x=1.0, divergence_y=2.0, length=10.0, temperature=10.0),
           attenuator=dict(step=0.01, clamp_to_zero=True, clamp_sigma=5.0))
    out.append(c)
    # zero power: everything must be exactly zero and nothing may divide by it
    c = mk(1, stop_class="gauss", place="moved")
    c["beam"]["power"] = 0.0
    out.append(c)
    # step > length, parallel beam, tight clamp
    out.append(mk(2, stop_class="exp", place="rotated", div_class="zero",
                  beam=dict(energy=2e4, power=5e5, element="hydrogen", sigma=0.004, divergence_x=0.0, divergence_y=0.0, length=0.35, temperature=1.0),
                  attenuator=dict(step=2.0, clamp_to_zero=True, clamp_sigma=1.0)))
    # documentation example placement, nested plasma, no stopping at all, strongly diverging
    out.append(mk(3, stop_class="none", place="nested", div_class="unequal",
                  beam=dict(energy=6e4, power=1e4, element="deuterium", sigma=0.025, divergence_x=5.0, divergence_y=0.5, length=3.0, temperature=0.0),
                  attenuator=dict(step=0.01, clamp_to_zero=False, clamp_sigma=5.0)))
    out.append(mk(4, stop_class="mixed", place="nested", div_class="x-zero"))
    out.append(mk(5, stop_class="linear", place="identity", div_class="y-zero"))
    out.append(mk(6, stop_class="none", place="identity", div_class="equal"))
    out.append(mk(7, stop_class="uniform", place="rotated", div_class="equal",
                  beam=dict(energy=1e6, power=1e7, element="helium", sigma=0.3, divergence_x=0.001, divergence_y=0.001, length=5.0, temperature=0.0),
                  attenuator=dict(step=0.2, clamp_to_zero=False, clamp_sigma=6.0)))
    # piecewise profiles with vacuum gaps between plasma regions (slabs, hollow shell crossed twice, clipped lobes)
    out.append(mk(8, stop_class="gapped", gap_kind="slabs", place="moved"))
    out.append(mk(9, stop_class="gapped", gap_kind="shell", place="nested"))
    out.append(mk(10, stop_class="gapped", gap_kind="clip", place="identity"))
    out.append(mk(11, stop_class="gapped", gap_kind="slabs", place="rotated", div_class="zero"))
    return out


# ----------------------------------------------------------------------------------------------------------------
# scene construction (real objects)
# ----------------------------------------------------------------------------------------------------------------

def build_scene(case, log, counter):
    from raysect.core import World, Node, AffineMatrix3D, Vector3D
    from cherab.core import Beam, Plasma, Species, Maxwellian
    import cherab.core.atomic as atomic
    from cherab.core.model import SingleRayAttenuator

    world = World()
    parent = world
    for ops in case["plasma_nodes"][:-1]:
        parent = Node(parent=parent, transform=AffineMatrix3D(ops_matrix(ops)))
    plasma = Plasma(parent=parent, transform=AffineMatrix3D(ops_matrix(case["plasma_nodes"][-1])))
    plasma.b_field = Vector3D(0, 0, 0)
    plasma.electron_distribution = Maxwellian(1e19, 1e3, Vector3D(0, 0, 0), 9.1093837015e-31)
    sp = []
    for s in case["species"]:
        el = getattr(atomic, s["el"])
        dist = Maxwellian(scalar_fn(s["n"], counter), scalar_fn(s["T"], counter), vector_fn(s["u"], counter, Vector3D),
                          el.atomic_weight * AMU)
        sp.append(Species(el, s["Z"], dist))
    plasma.composition = sp
    provider = mock_c04.build_provider(case["rate_scale"], case["rate_variant"], case["null_keys"], log)
    plasma.atomic_data = provider

    parent = plasma if case.get("beam_parent") == "plasma" else world
    for ops in case["beam_nodes"][:-1]:
        parent = Node(parent=parent, transform=AffineMatrix3D(ops_matrix(ops)))
    b = case["beam"]
    a = case["attenuator"]
    bel = getattr(atomic, b["element"])
    beam = Beam(parent=parent, transform=AffineMatrix3D(ops_matrix(case["beam_nodes"][-1])))
    path = case.get("path") or {"param": None, "how": "canonical", "decoy": {}}
    decoy = path["decoy"]
    how = path["how"]
    notes = []

    def beam_value(name, v_):
        return getattr(atomic, v_) if name == "element" else v_

    order = ("energy", "power", "temperature", "element", "sigma", "divergence_x", "divergence_y", "length")
    early = [n for n in order if n in decoy and "early" in how]
    for n in early:                                   # final value before anything else is attached
        setattr(beam, n, beam_value(n, b[n]))
    beam.atomic_data = provider
    beam.plasma = plasma
    # attenuator: constructor arguments are the decoys for the parameters routed through their setters
    ctor = {k_: (decoy[k_] if k_ in decoy else a[k_]) for k_ in ATT_PARAMS}
    att = SingleRayAttenuator(step=ctor["step"], clamp_to_zero=ctor["clamp_to_zero"], clamp_sigma=ctor["clamp_sigma"])
    via_setter = [k_ for k_ in ATT_PARAMS if k_ in decoy]

    def apply_setters(att_):
        for k_ in via_setter:
            try:
                setattr(att_, k_, a[k_])
            except AttributeError:
                # attribute is constructor-only (no public setter): the only route is the constructor
                notes.append("%s has no setter" % k_)
                return False
        return True
    ok_set = True
    if "setter-before-attach" in how:
        ok_set = apply_setters(att)
    if ok_set:
        beam.attenuator = att
        if "setter-after-attach" in how:
            ok_set = apply_setters(att)
    if not ok_set:
        ctor.update({k_: a[k_] for k_ in ATT_PARAMS if ("%s has no setter" % k_) in notes})
        att = SingleRayAttenuator(step=ctor["step"], clamp_to_zero=ctor["clamp_to_zero"], clamp_sigma=ctor["clamp_sigma"])
        via_setter = [k_ for k_ in via_setter if ("%s has no setter" % k_) not in notes]
        if "setter-before-attach" in how:
            apply_setters(att)
        beam.attenuator = att
        if "setter-after-attach" in how:
            apply_setters(att)
    for n in order:
        if n in early:
            continue
        if n in decoy and "decoy-first" in how:
            setattr(beam, n, beam_value(n, decoy[n]))
        setattr(beam, n, beam_value(n, b[n]))
    return world, plasma, beam, bel, notes


# ----------------------------------------------------------------------------------------------------------------
# the monitor
# ----------------------------------------------------------------------------------------------------------------

def _flags(case):
    f = [{"uniform": "uniform", "none": "none", "gapped": "gapped-profile"}.get(case["stop_class"], "varying")]
    ions = [s for s in case["species"] if s["Z"] > 0]
    if any(s["Z"] >= 2 for s in ions):
        f.append("highZ")
    if case["flows"]:
        f.append("flow")
    if case["place"] != "identity":
        f.append("placed")
    return "+".join(f)


class _KeyCtx:
    """Forwards to the framework context, appending the configuration-route tag to every violation key."""

    def __init__(self, ctx, sfx):
        self._c = ctx
        self._s = sfx

    def __getattr__(self, name):
        return getattr(self._c, name)

    def check(self, ok, key, what, **kw):
        return self._c.check(ok, key + self._s, what, **dict(kw, monitor=kw.get("monitor") or key.split(":")[0]))

    def close(self, got, want, key, what, **kw):
        return self._c.close(got, want, key + self._s, what, **dict(kw, monitor=kw.get("monitor") or key.split(":")[0]))

    def viol(self, key, what, **kw):
        return self._c.viol(key + self._s, what, **kw)


def run_case(case, ctx):
    b = case["beam"]
    a = case["attenuator"]
    L, sig = b["length"], b["sigma"]
    tx = math.tan(math.radians(b["divergence_x"]))
    ty = math.tan(math.radians(b["divergence_y"]))
    clamp, cs = a["clamp_to_zero"], a["clamp_sigma"]
    stopc = case["stop_class"]
    for c in ("stop:" + stopc + (":" + case["stop_sub"] if case["stop_sub"] else ""), "div:" + case["div_class"],
              "place:" + case["place"], "clamp:" + ("on" if clamp else "off"), case["step_class"],
              "flow:" + ("yes" if case["flows"] else "no"), "via:" + case["via"], "beam:" + b["element"]):
        ctx.cls(c)

    log = mock_c04.new_log()
    counter = [0]
    world, plasma, beam, bel, notes = build_scene(case, log, counter)
    for n_ in notes:
        ctx.skip("path: " + n_)
    path = case.get("path") or {"param": None, "how": "canonical"}
    ctx.cls("path:" + (("%s:%s" % (path["param"], path["how"])) if path["param"] else "canonical"))
    if path["param"]:
        # same oracles on every path; the key names the route so that a defect of one setter is attributed to it
        ctx = _KeyCtx(ctx, "@%s:%s" % (path["param"], path["how"]))
    dens = beam.density if case["via"] == "beam" else beam.attenuator.density

    def sx(z):
        return math.sqrt(sig * sig + (z * tx) ** 2)

    def sy(z):
        return math.sqrt(sig * sig + (z * ty) ** 2)

    # ---------------- oracle line density ----------------
    M = beam_to_plasma(case)
    zs = np.asarray(case["z"], dtype=float)
    v = beam_speed(b["energy"])
    mass = float(bel.atomic_weight)                       # input data: the real Element's mass in amu
    lam0 = b["power"] / (b["energy"] * mass * E_CH) / v   # particle rate / speed  [1/m]
    if stopc == "none":
        tau = np.zeros(len(zs))
        tol_rel = np.full(len(zs), 1e-7)
    else:
        h = min(a["step"], L)
        panel = min(h, L / 64.0)
        kinks = axis_kinks(case, M)
        tau = optical_depth(case, zs, panel, 8, M=M, kinks=kinks)
        tau_hi = optical_depth(case, zs, panel, 12, M=M, kinks=kinks)
        if not np.all(np.isfinite(tau)) or np.max(np.abs(tau - tau_hi)) > 1e-10 * max(1.0, tau[-1]):
            ctx.skip("oracle stopping integral not converged")
            return
        tol_rel = flux_tolerance(case, zs, M, kinks)
        ctx.mon("axis_kinks", len(kinks))
    lam = lam0 * np.exp(-tau)

    # ---------------- cross-section moments of the real density ----------------
    m0 = np.zeros(len(zs))
    mxx = np.zeros(len(zs))
    myy = np.zeros(len(zs))
    finite = True
    if clamp:
        xr, wr = _gl(40)
        r = 0.5 * cs * (xr + 1.0)
        wr = 0.5 * cs * wr
        nth = 32
        th = (np.arange(nth) + 0.37) * (2 * math.pi / nth)
        ct, st = np.cos(th), np.sin(th)
    else:
        g = np.arange(-17, 18) * 0.5           # +-8.5 sigma, h = sigma/2
    for k, z in enumerate(zs):
        sgx, sgy = sx(z), sy(z)
        if clamp:
            acc0 = accx = accy = 0.0
            for ri, wi in zip(r, wr):
                for c_, s_ in zip(ct, st):
                    x = sgx * ri * c_
                    y = sgy * ri * s_
                    n = dens(x, y, z)
                    wgt = wi * ri
                    acc0 += wgt * n
                    accx += wgt * n * x * x
                    accy += wgt * n * y * y
            f = sgx * sgy * (2 * math.pi / nth)
            m0[k], mxx[k], myy[k] = acc0 * f, accx * f, accy * f
        else:
            acc0 = accx = accy = 0.0
            for gx in g:
                x = gx * sgx
                for gy in g:
                    y = gy * sgy
                    n = dens(x, y, z)
                    acc0 += n
                    accx += n * x * x
                    accy += n * y * y
            f = 0.25 * sgx * sgy
            m0[k], mxx[k], myy[k] = acc0 * f, accx * f, accy * f
    if not np.all(np.isfinite(m0)) or np.any(m0 < 0):
        finite = False
        ctx.viol("density:non-finite-or-negative", "cross-section integral of the beam density is NaN/inf/negative",
                 z=[float(z) for z in zs], m0=[float(x) for x in m0])
    cf = (1.0 - math.exp(-0.5 * cs * cs)) if clamp else 1.0
    flags = _flags(case)
    ctag = "clamp" if clamp else "noclamp"
    env_ok = True
    if finite:
        # ---- envelope: normalised second moments ----
        if clamp:
            e = math.exp(-0.5 * cs * cs)
            fac = (1.0 - (1.0 + 0.5 * cs * cs) * e) / (1.0 - e)
        else:
            fac = 1.0
        ok = m0 > 0
        if ok.any():
            wx = np.array([sx(z) ** 2 for z in zs]) * fac
            wy = np.array([sy(z) ** 2 for z in zs]) * fac
            env_ok = ctx.close((mxx[ok] / m0[ok]), wx[ok], "envelope:second-moment-x:" + ("clamp" if clamp else "noclamp"),
                      "second moment <x^2> of the cross-section differs from the documented sigma_x(z)^2 = sigma^2 + (z tan a_x)^2",
                      rtol=1e-9, monitor="envelope", z=[float(z) for z in zs[ok]])
            env_ok = ctx.close((myy[ok] / m0[ok]), wy[ok], "envelope:second-moment-y:" + ("clamp" if clamp else "noclamp"),
                      "second moment <y^2> of the cross-section differs from the documented sigma_y(z)^2 = sigma^2 + (z tan a_y)^2",
                      rtol=1e-9, monitor="envelope", z=[float(z) for z in zs[ok]]) and env_ok
        else:
            ctx.skip("zero beam density: envelope moments undefined")

    if finite:
        # (1) source level: flux at z = 0 is P/(E m e)/v (times the truncated-Gaussian factor when clamping is on)
        ctx.close(m0[0], lam0 * cf, "flux:source-level:" + ctag,
                  "cross-section integral of the density at z = 0 differs from P/(E m e)/v" + (" x (1-exp(-c^2/2))" if clamp else ""),
                  rtol=1e-7, monitor="flux_source", sigma=sig, element=b["element"], energy=b["energy"], power=b["power"])
        if lam0 == 0.0:
            ctx.check(bool(np.all(m0 == 0.0)), "flux:zero-power-nonzero-density", "beam of zero power has non-zero density",
                      monitor="flux_zero_power", m0=[float(x) for x in m0])
        elif m0[0] <= 0.0:
            ctx.skip("zero density at z = 0: z-dependence not judged (source-level violation reported)")
        elif not env_ok:
            # the quadrature nodes follow the documented envelope; with a different envelope the z-dependence of the
            # quadrature result is not attributable to the line density
            ctx.skip("envelope violated: z-dependence of the flux not judged")
        elif stopc == "none":
            # (2) no stopping: the flux through the cross-section is the same at every z, for any divergence
            ctx.close(m0 / m0[0], np.ones(len(zs)), "flux:no-stopping:z-dependence:%s:%s" % (ctag, "parallel" if case["div_class"] == "zero" else "diverging"),
                      "without stopping the particle flux through the cross-section changes with z", atol=1e-11,
                      monitor="flux_nostop", z=[float(z) for z in zs], div=[b["divergence_x"], b["divergence_y"]])
            ctx.nontrivial()
        else:
            # (3) attenuation factor.  Comparisons whose computed tolerance is below a tenth of the attenuation reached
            # at that z are the deciding ones; the rest are still judged but counted separately.
            want = np.exp(-tau)
            got = m0 / m0[0]
            tight = (tol_rel <= -0.1 * np.expm1(-tau)) & (tau > 0)
            gp = "_gapped" if stopc == "gapped" else ""
            for msk, mon in ((tight, "flux_atten" + gp), (~tight, "flux_atten" + gp + "_loose")):
                if msk.any():
                    ctx.close(got[msk], want[msk], "flux:attenuation-factor:" + flags,
                              "flux(z)/flux(0) differs from exp(-int_0^z S/v) (documented composite S) beyond the discretisation bound",
                              atol=(tol_rel * want)[msk], monitor=mon, z=[float(z) for z in zs[msk]], tau=[float(t) for t in tau[msk]],
                              tol_rel=[float(t) for t in tol_rel[msk]], got_over_want=[float(g_ / w_) if w_ > 0 else None for g_, w_ in zip(got[msk], want[msk])],
                              length=L, step=a["step"])
            if tight.any() and tau[-1] >= 0.01:
                ctx.nontrivial()
    # ---------------- monotone decay on the axis ----------------
    zm = np.unique(np.concatenate([zs, np.linspace(0.0, L, 65)]))
    on = np.array([dens(0.0, 0.0, float(z)) for z in zm])
    ctx.mon("monotone", len(zm) - 1)
    if not np.all(np.isfinite(on)) or np.any(on < 0):
        ctx.viol("density:non-finite-or-negative:on-axis", "on-axis density is NaN/inf/negative", n=[float(x) for x in on[:8]])
    else:
        inc = on[1:] - on[:-1]
        bad = inc > 1e-13 * on[:-1]
        with np.errstate(divide="ignore", invalid="ignore"):
            rel = np.where(on[:-1] > 0, inc / on[:-1], np.where(inc > 0, np.inf, 0.0))
        ctx.margin("monotone", float(max(rel.max(), 0.0) / 1e-13) if len(rel) else 0.0)
        if bad.any():
            i = int(np.argmax(bad))
            ctx.viol("monotone:on-axis-increases:" + flags, "on-axis density increases with z",
                     z1=float(zm[i]), z2=float(zm[i + 1]), n1=float(on[i]), n2=float(on[i + 1]))

    # ---------------- zero regions (always through Beam.density: that is where the z clamp lives) ----------------
    inf = float("inf")
    zb = [-1e-300, -1e-9 * L, -0.5 * L, -L, -1e300, -inf]
    za = [float(np.nextafter(L, inf)), L * (1 + 1e-9), 1.5 * L, 2 * L + 1.0, 1e300, inf]
    sxy = [(0.0, 0.0), (sig, -sig), (-3 * sig, 0.5 * sig)]
    for key, zl, what in (("zero:before-source", zb, "density is not exactly zero before the source (z < 0)"),
                          ("zero:beyond-length", za, "density is not exactly zero beyond the beam length (z > length)")):
        for z in zl:
            for (x, y) in sxy:
                val = beam.density(x, y, z)
                ctx.check(val == 0.0, key, what, monitor="zero_z", x=x, y=y, z=z, got=val, length=L)
    if clamp:
        for z in zs:
            sgx, sgy = sx(z), sy(z)
            for fr in (1.0 + 1e-12, 1.0 + 1e-6, 1.5, 10.0, 1e6):
                for ang in case["angles"]:
                    x = sgx * cs * fr * math.cos(ang)
                    y = sgy * cs * fr * math.sin(ang)
                    val = dens(x, y, float(z))
                    ctx.check(val == 0.0, "zero:outside-clamp-radius",
                              "density is not exactly zero outside the clamp ellipse (x/sigma_x)^2+(y/sigma_y)^2 = clamp_sigma^2",
                              monitor="zero_clamp", x=x, y=y, z=float(z), got=val, clamp_sigma=cs, factor=fr)

        # clamp radius located by bisection of the zero / non-zero transition along several azimuths
        for z in (zs[0], zs[len(zs) // 2], zs[-1]):
            z = float(z)
            if not dens(0.0, 0.0, z) > 0.0:
                ctx.skip("zero on-axis density: clamp radius not located")
                continue
            sgx, sgy = sx(z), sy(z)
            for ang in case["angles"][:4]:
                ca, sa = math.cos(ang), math.sin(ang)
                lo, hi = 0.0, max(2.5 * cs, cs + 4.0)
                if dens(sgx * hi * ca, sgy * hi * sa, z) != 0.0:
                    ctx.viol("clamp:no-zero-region", "density is non-zero far outside the clamp ellipse with clamping on",
                             z=z, r_over_sigma=hi, clamp_sigma=cs)
                    continue
                for _ in range(70):
                    mid = 0.5 * (lo + hi)
                    if dens(sgx * mid * ca, sgy * mid * sa, z) > 0.0:
                        lo = mid
                    else:
                        hi = mid
                ctx.close(0.5 * (lo + hi), cs, "clamp:radius", "the density vanishes at a normalised radius different from clamp_sigma",
                          rtol=1e-10, monitor="clamp_radius", z=z, azimuth=ang, sigma_x=sgx, sigma_y=sgy)

    # ---------------- direction field ----------------
    for ux, uy, fz in case["dir_points"]:
        z = fz * L
        if z <= 0:
            continue
        sgx, sgy = sx(z), sy(z)
        x, y = ux * sgx, uy * sgy
        dv = beam.direction(x, y, z)
        dx, dy, dz = dv.x, dv.y, dv.z
        ctx.close(math.sqrt(dx * dx + dy * dy + dz * dz), 1.0, "direction:not-unit", "Beam.direction is not a unit vector",
                  atol=1e-12, monitor="dir_unit", x=x, y=y, z=z)
        if not (dz != 0.0 and math.isfinite(dz)):
            ctx.viol("direction:no-z-component", "Beam.direction has no finite non-zero z component inside the beam", x=x, y=y, z=z)
            continue
        wantx = x * z * tx * tx / (sgx * sgx)
        wanty = y * z * ty * ty / (sgy * sgy)
        ctx.close(dx / dz, wantx, "direction:streamline-x", "d_x/d_z differs from x sigma_x'(z)/sigma_x(z): streamlines do not keep x/sigma_x(z) constant",
                  rtol=1e-11, atol=1e-300, monitor="dir_stream", x=x, y=y, z=z, sigma=sig, div=b["divergence_x"])
        ctx.close(dy / dz, wanty, "direction:streamline-y", "d_y/d_z differs from y sigma_y'(z)/sigma_y(z): streamlines do not keep y/sigma_y(z) constant",
                  rtol=1e-11, atol=1e-300, monitor="dir_stream", x=x, y=y, z=z, sigma=sig, div=b["divergence_y"])
    for (x, y, z) in ((0.0, 0.0, 0.0), (sig, -2 * sig, 0.0), (sig, sig, -0.3 * L), (0.0, 0.0, -1e300)):
        dv = beam.direction(x, y, z)
        ctx.close(math.sqrt(dv.x ** 2 + dv.y ** 2 + dv.z ** 2), 1.0, "direction:not-unit-behind-source",
                  "Beam.direction is not a unit vector at z <= 0", atol=1e-12, monitor="dir_unit", x=x, y=y, z=z)

    # ---------------- recorders (evidence) ----------------
    ctx.mon("rate_evaluations", log["rate_evaluations"])
    ctx.mon("null_rate_evaluations", log["null_rate_evaluations"])
    ctx.mon("profile_evaluations", counter[0])
    ctx.mon("accessor_calls", len(log["accessor_calls"]))
    n_non_null = len([s for s in case["species"] if not is_null(case, s)])
    if n_non_null and log["rate_evaluations"] == 0 and b["power"] >= 0:
        ctx.skip("non-null rates never evaluated")


def worker_init(ctx):
    """Harness self-consistency: the scalar callables handed to cherab and the vectorised oracle evaluators agree."""
    rng = np.random.default_rng(99)
    p0 = np.array([0.3, -0.2, 0.1])
    d = np.array([0.0, 0.6, 0.8])
    cnt = [0]
    pts = rng.uniform(-2, 2, size=(20, 3))

    class V:
        def __init__(self, x, y, z):
            self.x, self.y, self.z = x, y, z
    for kind in ("lin", "exp", "gau"):
        p = _scalar_profile(rng, kind, 3e18, p0, d, 1.7, 0.01, False)
        f = scalar_fn(p, cnt)
        got = np.array([f(*q) for q in pts])
        if not np.allclose(got, vec_scalar(p, pts), rtol=1e-13, atol=0):
            raise RuntimeError("harness: scalar/vector profile mismatch for %s" % kind)
    for gk in GAP_KINDS:
        p = _gap_profile(rng, _gap_geometry(rng, gk, p0, d, 1.7), 2e19)
        f = scalar_fn(p, cnt)
        q = p0[None, :] + np.linspace(0, 1.7, 400)[:, None] * d[None, :] + 0.01 * rng.normal(size=(400, 3))
        got = np.array([f(*r_) for r_ in q])
        want = vec_scalar(p, q)
        if not np.allclose(got, want, rtol=1e-12, atol=0) or not (want == 0).any() or not (want > 0).any():
            raise RuntimeError("harness: scalar/vector piecewise profile mismatch for %s" % gk)
        # every kink reported by profile_kinks separates two smooth pieces: the profile must be smooth in between
        kz = sorted(profile_kinks(p, p0, d, 1.7))
        ed = [0.0] + kz + [1.7]
        for lo_, hi_ in zip(ed[:-1], ed[1:]):
            if hi_ - lo_ < 1e-6:
                continue
            zz = np.linspace(lo_ + 1e-9, hi_ - 1e-9, 50)
            val = vec_scalar(p, p0[None, :] + zz[:, None] * d[None, :])
            if (val == 0).any() and (val > 0).any():
                raise RuntimeError("harness: missed kink of %s between %r and %r" % (gk, lo_, hi_))
    p = {"k": "gau", "v": [1e4, -2e4, 3e3], "a": 0.7, "c": [0.1, 0.2, 0.3], "w": 0.9}
    f = vector_fn(p, cnt, V)
    got = np.array([[f(*q).x, f(*q).y, f(*q).z] for q in pts])
    if not np.allclose(got, vec_vector(p, pts), rtol=1e-13, atol=0):
        raise RuntimeError("harness: scalar/vector flow profile mismatch")
