"""C05 — beam CX emission is a population-weighted mean, beam emission a charged sum.

Real objects: World / Node / Plasma / Species / Maxwellian / Beam / SingleRayAttenuator / BeamCXLine / BeamEmissionLine /
BeamMaterial, all built in their final configuration before the first evaluation.  Everything around them is harness:
plasma profiles are Python callables defined by plain-dict specs, the atomic data is the recording provider of
vf/mock_c05.py whose tables depend on every argument, node transforms are 4x4 matrices produced with NumPy.

Per evaluation point the monitors compare

  cx_total      wavelength integral of BeamCXLine.emission  vs (1/4pi) n_b n_r (q_1 + sum k_m q_m)/(1 + sum k_m), every q, k
                predicted from the table definitions at the arguments the statement names (independent oracle);
  cx_mean       the same integral vs the weighted mean of the values the tables *returned* during that call
                (isolates the weighting from the arguments);
  cx_bounds     min q_m <= 4pi*integral/(n_b n_r) <= max q_m   (returned values);
  cx_args       arguments received by every BeamCXPEC table: (E_int in the receiver frame, T_r, total ion density,
                Z_eff, |B|), and by every BeamPopulationRate table of a charged species: (E_int,i, sum Z_j^2 n_j/Z_i, T_i);
  bes_total / bes_sum / bes_args   the analogous three for BeamEmissionLine;
  zero_beam / zero_receiver / zero_ions   spectrum untouched (all samples exactly 0) where n_b = 0, n_r = 0, all n_i = 0;
  accessors     which tables the models requested from the provider;
  material      BeamMaterial.emission_function(beam-space point, beam-space ray direction): sum of both models with the
                beam direction and the point mapped into plasma space by the harness' own matrices (+ material_args: the
                arguments that reached the tables during that call).
  sequence_points / history   evidence counters: points evaluated as part of a structured sequence on one model instance
                (shared coordinates, revisits, repeats - every point is judged against the reference for ITS point), and
                evaluations made after a same-instance change (keys carry the suffix @after:<change>; the reference is the
                formula on the final configuration, the tables those of the model's current line).
"""
import math

import numpy as np

ID = "C05"
LEVEL = "exploration"
RULE = ("random scenes: beam (H/D/T/He, 1e3..1e6 eV/amu, sigma 3 mm..0.2 m, divergences 0..5 deg, attenuated by mock stopping "
        "tables, clamping on/off) and plasma (1..5 ion species Z>=1 of 14 elements/isotopes, optional neutrals with null "
        "tables, uniform / sinusoidal / half-space profiles, flows up to 1.5x the beam speed, B uniform / varying / zero) under "
        "independent random rigid transforms (optionally nested parents); 1..4 metastable-resolved CX tables returned in "
        "random order (power-law in all 5 arguments, all-equal constants, one-hot), population and beam-emission tables "
        "per species; per scene either 5 independent points (diverging-field direction, free direction/point, BeamMaterial route, "
        "zero-density points) or a 7-point sequence on the same model instances whose consecutive points share two coordinates "
        "bit for bit and differ in the third (all three axes), with the first point revisited and repeated (in 30% of the scenes "
        "beam and plasma frames are axis-aligned so that marching along a beam axis is marching along one plasma axis); in 30% "
        "of the scenes one same-instance change follows (line -> other transition of the same ion / other ion, composition "
        "re-assigned with fewer species, one species replaced) and 3 more points, the last-evaluated one first, are judged on "
        "the final configuration.  A case is non-trivial when at least one total was compared at a point with n_beam > 0 and n_receiver > 0 "
        "(distinct = distinct fully expanded case descriptors)")
LEVEL_TEXT = ("Exploration by runtime reference-model monitoring with argument recording: the real beam models are executed on "
              "generated scenes; totals are recomputed from the plasma state and the table definitions, and the arguments that "
              "reached every table are compared with the quantities the statement names; right level because the property "
              "quantifies over continuous configurations of deterministic single-threaded code")
LEVEL_NOTE = ("trusted: the table definition rate_value() (shared by mock and oracle, no cherab code), NumPy rigid transforms, "
              "Beam.density / Beam.direction as the recorded beam state (their correctness is C04), Gaussian line-shape "
              "integral = radiance inside a window that covers +-20 sigma around any Doppler shift (C02)")
TECHNIQUE = ("runtime monitoring: reference-model oracle per emission call + argument recorder on mock rate tables "
             "(MOCKAD), bound monitor min<=q<=max, zero-region monitor")
ASSUMPTIONS = [
    "relative beam population of metastable m = sum_i Z_i n_i bmp_m,i(E_int,i, sum_j Z_j^2 n_j/Z_i, T_i) / sum_i Z_i n_i "
    "(docstring of BeamCXLine._beam_population / ADAS 4.4.7), the provider's population tables being non-negative",
    "with neutrals of non-zero density present, 'total ion density' may be read with or without the neutrals "
    "(Plasma.ion_density docstring sums all species); either reading is accepted, anything else is a violation",
    "receiver temperature > 0, electron density/temperature > 0, beam temperature > 0, beam direction non-zero, "
    "|v_beam - v_species| >= 2% of the beam speed (otherwise E_int is rounding noise; such points are skipped and counted)",
    "neutral species get the provider's null tables (value 0); the arguments passed to those tables are not judged",
    "after a line or composition change made through the public API the statement is read for the model's current line and "
    "the plasma's current species (a model may keep or re-request tables; only requests for wrong keys, tables of the current "
    "line never evaluated, wrong arguments and wrong totals are violations)",
]
ASAN_MODULES = ["cherab.core.model.beam.charge_exchange", "cherab.core.model.beam.beam_emission",
                "cherab.core.model.lineshape.beam.mse", "cherab.core.model.lineshape.gaussian"]
ASAN = dict(cases=1500, workers=8, timecap=240)
QUICK = dict(cases=1000, workers=2, timecap=36)
THOROUGH = dict(cases=160000, workers=16, timecap=420)
REQUIRED = {"cx_total": 1500, "cx_mean": 1500, "cx_bounds": 1500, "cx_args": 40000, "bes_total": 1300, "bes_sum": 1300,
            "bes_args": 15000, "zero_beam": 600, "zero_receiver": 200, "zero_ions": 50, "material": 170, "material_args": 6500,
            "accessors": 5000, "sequence_points": 1000, "history": 500}

AMU = 1.66053906660e-27          # CODATA 2018 (the set hard-coded in cherab/core/utility/constants.pyx)
QE = 1.602176634e-19
CLIGHT = 299792458.0
STARK = 2.77e-8

ELEMENTS = {"hydrogen": 1, "deuterium": 1, "tritium": 1, "helium": 2, "helium3": 2, "lithium": 3, "beryllium": 4, "boron": 5,
            "carbon": 6, "nitrogen": 7, "oxygen": 8, "neon": 10, "argon": 18, "krypton": 36}
BEAM_ELEMENTS = ["hydrogen", "deuterium", "tritium", "helium"]


# ----------------------------------------------------------------------------------------------
# profiles (pure Python, no cherab)
# ----------------------------------------------------------------------------------------------

def prof(s, x, y, z):
    k = s["k"]
    if k == "const":
        return s["v"]
    if k == "zero":
        return 0.0
    if k == "wave":
        kv = s["kv"]
        return s["v"] * (1.0 + s["amp"] * math.sin(kv[0] * x + kv[1] * y + kv[2] * z + s["ph"]))
    if k == "step":
        nv = s["nv"]
        return s["v"] if (nv[0] * x + nv[1] * y + nv[2] * z) > s["d"] else 0.0
    raise ValueError(k)


def _rand_unit(rng):
    v = rng.normal(size=3)
    return v / np.linalg.norm(v)


def _rand_rigid(rng, tmax=2.0):
    q = rng.normal(size=4)
    q /= np.linalg.norm(q)
    w, x, y, z = q
    R = np.array([[1 - 2 * (y * y + z * z), 2 * (x * y - z * w), 2 * (x * z + y * w)],
                  [2 * (x * y + z * w), 1 - 2 * (x * x + z * z), 2 * (y * z - x * w)],
                  [2 * (x * z - y * w), 2 * (y * z + x * w), 1 - 2 * (x * x + y * y)]])
    M = np.eye(4)
    M[:3, :3] = R
    M[:3, 3] = rng.uniform(-tmax, tmax, size=3)
    return M.tolist()


def _gen_profile(rng, v0, allow_wave=True):
    if allow_wave and rng.random() < 0.5:
        kv = rng.uniform(-3, 3, size=3)
        if rng.random() < 0.3:            # variation along one plasma axis only
            keep = int(rng.integers(3))
            kv = np.array([kv[i] if i == keep else 0.0 for i in range(3)])
        return {"k": "wave", "v": float(v0), "amp": float(rng.uniform(0.05, 0.8)),
                "kv": [float(c) for c in kv], "ph": float(rng.uniform(0, 2 * math.pi))}
    return {"k": "const", "v": float(v0)}


def _rand_aligned(rng, tmax=2.0):
    """Signed axis permutation (proper rotation) + translation: coordinates map one-to-one, bit for bit."""
    perm = [int(i) for i in rng.permutation(3)]
    sg = [float(rng.choice([-1.0, 1.0])) for _ in range(3)]
    R = np.zeros((3, 3))
    for i in range(3):
        R[i, perm[i]] = sg[i]
    if np.linalg.det(R) < 0:
        R[2, :] *= -1.0
    M = np.eye(4)
    M[:3, :3] = R
    M[:3, 3] = rng.uniform(-tmax, tmax, size=3)
    return M.tolist()


def _power_spec(rng, logc_lo, logc_hi, x0s):
    n = len(x0s)
    return {"mode": "power", "c": float(10 ** rng.uniform(logc_lo, logc_hi)),
            "x0": [float(x0 * 10 ** rng.uniform(-0.5, 0.5)) for x0 in x0s],
            "a": [float(rng.choice([-1.0, 1.0]) * rng.uniform(0.1, 0.6)) for _ in range(n)]}


CX_X0 = [10.0, 0.01, 1e12, 0.5, 0.1]        # energy, temperature, density, z_eff, |B|
B3_X0 = [10.0, 1e12, 0.01]                 # energy, density, temperature


def _gen_cx_rates(rng):
    nexc = int(rng.choice(4, p=[0.2, 0.3, 0.3, 0.2]))
    mets = [1] + sorted(int(m) for m in rng.choice([2, 3, 4], size=nexc, replace=False))
    table_kind = ["power", "power", "power", "all-equal", "one-hot", "const"][int(rng.integers(6))]
    rates = []
    cval = float(10 ** rng.uniform(-35, -31))
    hot = int(rng.integers(len(mets)))
    for j, m in enumerate(mets):
        if table_kind == "power":
            spec = _power_spec(rng, -35, -31, CX_X0)
        elif table_kind == "all-equal":
            spec = {"mode": "const", "c": cval}
        elif table_kind == "one-hot":
            spec = _power_spec(rng, -35, -31, CX_X0) if j == hot else {"mode": "zero"}
        else:
            spec = {"mode": "const", "c": float(10 ** rng.uniform(-35, -31))}
        rates.append({"metastable": m, "spec": spec})
    rates = [rates[int(i)] for i in rng.permutation(len(rates))]
    return rates, mets, table_kind


def _gen_pop_spec(rng, charge):
    if charge == 0:
        return {"mode": "zero"}
    u = rng.random()
    return (_power_spec(rng, -3, 0.5, B3_X0) if u < 0.8 else
            {"mode": "const", "c": float(10 ** rng.uniform(-3, 1))} if u < 0.93 else {"mode": "zero"})


def _gen_point(rng, beam, kinds=("field", "free", "material", "zero-beam"), p=(0.45, 0.2, 0.18, 0.17)):
    length = beam["length"]
    kind = kinds[int(rng.choice(len(kinds), p=np.array(p) / sum(p)))]
    z = float(rng.uniform(0.02, 0.98) * length)
    sx = math.sqrt(beam["sigma"] ** 2 + (z * math.tan(math.radians(beam["div_x"]))) ** 2)
    sy = math.sqrt(beam["sigma"] ** 2 + (z * math.tan(math.radians(beam["div_y"]))) ** 2)
    pt = dict(kind=kind, bp=[float(rng.uniform(-2, 2) * sx), float(rng.uniform(-2, 2) * sy), z],
              obs=[float(c) for c in _rand_unit(rng) * 10 ** rng.uniform(-1, 1)],
              bins=int(rng.integers(3, 120)), wpad=[float(rng.uniform(0, 0.3)), float(rng.uniform(0, 0.3))])
    if kind == "zero-beam":
        w = rng.random()
        if w < 0.35:
            pt["bp"][2] = float(-rng.uniform(1e-6, 1.0))
        elif w < 0.7:
            pt["bp"][2] = float(length * (1 + rng.uniform(1e-6, 0.5)))
        elif beam["clamp_to_zero"]:
            th = rng.uniform(0, 2 * math.pi)
            rr = beam["clamp_sigma"] * rng.uniform(1.001, 1.5)
            pt["bp"][0] = float(rr * sx * math.cos(th))
            pt["bp"][1] = float(rr * sy * math.sin(th))
        else:
            pt["bp"][2] = float(-rng.uniform(1e-6, 1.0))
    if kind == "free":
        pt["pp"] = [float(c) for c in rng.uniform(-3, 3, size=3)]
        pt["dir"] = [float(c) for c in _rand_unit(rng) * 10 ** rng.uniform(-2, 2)]
    return pt


def _gen_sequence(rng, beam, aligned):
    """7 evaluation points on one model instance: consecutive points share two coordinates (bit for bit) and differ in
    the third, for all three axes; the first point is revisited after others and then repeated immediately."""
    length = beam["length"]
    route = "free"
    if aligned and rng.random() < 0.65:
        route = "material" if rng.random() < 0.5 else "field"
    z0 = float(rng.uniform(0.15, 0.5) * length)
    bp0 = np.array([rng.uniform(-0.8, 0.8) * beam["sigma"], rng.uniform(-0.8, 0.8) * beam["sigma"], z0])
    dbp = np.array([rng.uniform(0.1, 0.5) * beam["sigma"] * rng.choice([-1, 1]), rng.uniform(0.1, 0.5) * beam["sigma"] * rng.choice([-1, 1]),
                    rng.uniform(0.03, 0.2) * length])
    pp0 = rng.uniform(-2, 2, size=3)
    dpp = rng.uniform(0.05, 0.6, size=3) * rng.choice([-1, 1], size=3)
    a, b, c = [int(i) for i in rng.permutation(3)]
    e = np.eye(3)
    offs = [0 * e[a], e[a], 2 * e[a], 2 * e[a] + e[b], 0 * e[a], 0 * e[a], e[c]]
    base_dir = _rand_unit(rng) * 10 ** rng.uniform(-2, 2)
    base_obs = _rand_unit(rng) * 10 ** rng.uniform(-1, 1)
    pts = []
    for k, off in enumerate(offs):
        pt = dict(kind=route, bp=[float(v) for v in (bp0 + off * dbp)], obs=[float(v) for v in base_obs],
                  bins=int(rng.integers(3, 120)), wpad=[float(rng.uniform(0, 0.3)), float(rng.uniform(0, 0.3))], seq=k)
        if route == "free":
            pt["pp"] = [float(v) for v in (pp0 + off * dpp)]
            pt["dir"] = [float(v) for v in base_dir]
            if k == 5:        # the immediate repeat of the point looks along / moves along another direction
                pt["dir"] = [float(v) for v in _rand_unit(rng) * 10 ** rng.uniform(-2, 2)]
                pt["obs"] = [float(v) for v in _rand_unit(rng)]
        pts.append(pt)
    return pts, route


def gen_case(rng, tier):
    case = {}
    aligned = bool(rng.random() < 0.3)     # beam and plasma axes parallel: marching along one maps to marching along the other
    frame = _rand_aligned if aligned else _rand_rigid
    case["aligned"] = aligned
    # ---------------- beam ----------------
    bel = BEAM_ELEMENTS[int(rng.choice(4, p=[0.25, 0.4, 0.2, 0.15]))]
    energy = float(10 ** rng.uniform(3, 6))
    vb = math.sqrt(2 * energy * QE / AMU)
    length = float(rng.uniform(0.5, 4.0))
    beam = dict(element=bel, energy=energy, power=float(10 ** rng.uniform(4, 7)), temperature=float(rng.uniform(1, 100)),
                sigma=float(10 ** rng.uniform(-2.5, -0.7)),
                div_x=float(rng.uniform(0, 5)) if rng.random() < 0.7 else 0.0,
                div_y=float(rng.uniform(0, 5)) if rng.random() < 0.7 else 0.0,
                length=length, step=float(length / rng.uniform(4, 60)), clamp_to_zero=bool(rng.random() < 0.5),
                clamp_sigma=float(rng.uniform(2, 6)), M=frame(rng),
                parent_M=frame(rng) if rng.random() < 0.3 else None)
    if rng.random() < 0.08:
        beam["power"] = 0.0
    case["beam"] = beam
    # ---------------- plasma ----------------
    nion = int(rng.integers(1, 6))
    keys = set()
    species = []
    names = list(ELEMENTS)
    while len(species) < nion:
        el = names[int(rng.integers(len(names)))]
        zmax = ELEMENTS[el]
        ch = int(rng.integers(1, zmax + 1)) if rng.random() < 0.6 else int(min(zmax, rng.integers(1, 4)))
        if (el, ch) in keys:
            continue
        keys.add((el, ch))
        species.append(dict(element=el, charge=ch))
    with_neutrals = rng.random() < 0.3
    if with_neutrals:
        for _ in range(int(rng.integers(1, 3))):
            el = names[int(rng.integers(len(names)))]
            if (el, 0) in keys:
                continue
            keys.add((el, 0))
            species.append(dict(element=el, charge=0))
    flows = rng.random() < 0.7
    uniform = rng.random() < 0.3
    for sp in species:
        if sp["charge"] == 0:
            n0 = 0.0 if rng.random() < 0.2 else 10 ** rng.uniform(14, 19)
        else:
            n0 = 10 ** rng.uniform(16, 21)
        sp["n"] = _gen_profile(rng, n0, allow_wave=not uniform) if n0 > 0 else {"k": "zero"}
        sp["T"] = _gen_profile(rng, 10 ** rng.uniform(-1, 4), allow_wave=not uniform)
        if flows and rng.random() < 0.85:
            v = _rand_unit(rng) * vb * (rng.uniform(0, 1.5) if rng.random() < 0.7 else 10 ** rng.uniform(-3, 0))
            sp["v"] = [_gen_profile(rng, float(c), allow_wave=not uniform) for c in v]
        else:
            sp["v"] = [{"k": "const", "v": 0.0}] * 3
    order = rng.permutation(len(species))
    species = [species[int(i)] for i in order]
    ions = [i for i, sp in enumerate(species) if sp["charge"] >= 1]
    receiver = int(ions[int(rng.integers(len(ions)))])
    case["cold_species"] = None
    if len(ions) >= 2 and rng.random() < 0.1:
        # a cold ion species other than the receiver (T = 0, density > 0): its tables are evaluated at T = 0 and still count
        cold = int([i for i in ions if i != receiver][int(rng.integers(len(ions) - 1))])
        species[cold]["T"] = {"k": "zero"}
        case["cold_species"] = cold
    r = rng.random()
    zero_kind = None
    if r < 0.06:
        zero_kind = "receiver-zero"
        species[receiver]["n"] = {"k": "zero"}
    elif r < 0.14:
        zero_kind = "receiver-step"
        species[receiver]["n"] = {"k": "step", "v": float(10 ** rng.uniform(16, 21)),
                                  "nv": [float(c) for c in _rand_unit(rng)], "d": float(rng.uniform(-1, 1))}
    elif r < 0.17:
        zero_kind = "all-ions-zero"
        for i in ions:
            species[i]["n"] = {"k": "zero"}
    rb = rng.random()
    if rb < 0.1:
        bf = None
    elif rb < 0.6:
        bf = [{"k": "const", "v": float(c)} for c in _rand_unit(rng) * rng.uniform(0.1, 8)]
    else:
        bf = [_gen_profile(rng, float(c)) for c in _rand_unit(rng) * rng.uniform(0.1, 8)]
    ne0 = sum(sp["charge"] * sp["n"].get("v", 0.0) for sp in species) or 1e18
    case["plasma"] = dict(species=species, receiver=receiver, b_field=bf, M=frame(rng),
                          parent_M=frame(rng) if rng.random() < 0.3 else None,
                          ne=float(ne0), Te=float(10 ** rng.uniform(0, 4)), zero_kind=zero_kind)
    # ---------------- lines and tables ----------------
    up = int(rng.integers(2, 13))
    lo = int(rng.integers(1, up))
    rsp = species[receiver]
    case["cx_line"] = dict(element=rsp["element"], charge=rsp["charge"] - 1, transition=[up, lo],
                           wavelength=float(rng.uniform(200, 900)))
    case["bes"] = bool(bel != "helium")
    case["bes_wavelength"] = float(rng.uniform(655.5, 656.5))
    if (rsp["element"], rsp["charge"] - 1, up, lo) == (bel, 0, 3, 2):
        # the CX line is the beam's own Balmer-alpha line: one transition, one wavelength in the provider
        case["cx_line"]["wavelength"] = case["bes_wavelength"]
    rates, mets, table_kind = _gen_cx_rates(rng)
    pop, bes, stop = {}, {}, {}
    tau = 0.0 if rng.random() < 0.3 else float(rng.uniform(0, 3))
    zn = sum(sp["charge"] * sp["n"].get("v", 0.0) for sp in species)
    for sp in species:
        k = "%s|%d" % (sp["element"], sp["charge"])
        if sp["charge"] == 0:
            bes[k] = {"mode": "zero"}
            stop[k] = {"mode": "zero"}
        else:
            bes[k] = _power_spec(rng, -35, -31, B3_X0) if rng.random() < 0.85 else {"mode": "const", "c": float(10 ** rng.uniform(-35, -31))}
            stop[k] = ({"mode": "const", "c": float(tau * vb / (length * zn) * rng.uniform(0.5, 1.5))}
                       if tau > 0 and zn > 0 else {"mode": "zero"})
        for m in mets[1:]:
            pop["%d|%s" % (m, k)] = _gen_pop_spec(rng, sp["charge"])
    case["tables"] = {
        "wavelength": {"%s|%d|%d|%d" % (rsp["element"], rsp["charge"] - 1, up, lo): case["cx_line"]["wavelength"],
                       "%s|0|3|2" % bel: case["bes_wavelength"]},
        "cx": {"donor": bel, "receiver": rsp["element"], "receiver_charge": rsp["charge"], "transition": [up, lo], "rates": rates},
        "pop": pop, "bes": bes, "stop": stop, "beam_element": bel, "bes_transition": [3, 2]}
    case["table_kind"] = table_kind
    case["attach"] = "models" if rng.random() < 0.6 else "direct"
    # ---------------- points ----------------
    if rng.random() < 0.45:
        pts, route = _gen_sequence(rng, beam, aligned)
        case["plan"] = "sequence-" + route
    else:
        pts = [_gen_point(rng, beam) for _ in range(5)]
        case["plan"] = "random"
    case["points"] = pts
    # ---------------- same-instance history: one change after the first evaluations, then evaluate again ----------------
    case["history"] = None
    case["points2"] = []
    if rng.random() < 0.3:
        ops = ["line-same-ion", "species-replaced"]
        if len(ions) >= 2:
            ops.append("line-other-ion")
        if len(species) >= 2:
            ops += ["composition-smaller", "composition-smaller"]
        op = ops[int(rng.integers(len(ops)))]
        h = dict(op=op)
        if op in ("line-same-ion", "line-other-ion"):
            r2 = receiver if op == "line-same-ion" else int([i for i in ions if i != receiver][int(rng.integers(len(ions) - 1))])
            sp2 = species[r2]
            while True:
                up2 = int(rng.integers(2, 13))
                lo2 = int(rng.integers(1, up2))
                if not (r2 == receiver and (up2, lo2) == (up, lo)):
                    break
            rates2, mets2, kind2 = _gen_cx_rates(rng)
            wl2 = float(rng.uniform(200, 900))
            if (sp2["element"], sp2["charge"] - 1, up2, lo2) == (bel, 0, 3, 2):
                wl2 = case["bes_wavelength"]
            h.update(receiver=r2, line=dict(element=sp2["element"], charge=sp2["charge"] - 1, transition=[up2, lo2], wavelength=wl2),
                     table_kind=kind2)
            case["tables"]["cx_alt"] = {"donor": bel, "receiver": sp2["element"], "receiver_charge": sp2["charge"],
                                        "transition": [up2, lo2], "rates": rates2}
            case["tables"]["wavelength"]["%s|%d|%d|%d" % (sp2["element"], sp2["charge"] - 1, up2, lo2)] = wl2
            for sp in species:
                k = "%s|%d" % (sp["element"], sp["charge"])
                for m in mets2[1:]:
                    if "%d|%s" % (m, k) not in pop:
                        pop["%d|%s" % (m, k)] = _gen_pop_spec(rng, sp["charge"])
        elif op == "composition-smaller":
            others = [i for i in range(len(species)) if i != receiver]
            nrem = int(rng.integers(1, len(others) + 1))
            h.update(remove=sorted(int(i) for i in rng.choice(others, size=nrem, replace=False)), recreate=bool(rng.random() < 0.5))
        else:
            idx = int(rng.integers(len(species)))
            sp = species[idx]
            n0 = 10 ** rng.uniform(16, 21) if sp["charge"] >= 1 else 10 ** rng.uniform(14, 19)
            if flows:
                v = _rand_unit(rng) * vb * rng.uniform(0, 1.5)
                vnew = [_gen_profile(rng, float(cc), allow_wave=not uniform) for cc in v]
            else:
                vnew = [{"k": "const", "v": 0.0}] * 3
            h.update(index=idx, n=_gen_profile(rng, n0, allow_wave=not uniform),
                     T=_gen_profile(rng, 10 ** rng.uniform(-1, 4), allow_wave=not uniform), v=vnew,
                     via="add" if rng.random() < 0.6 else "set")
        case["history"] = h
        # after the change: the most recently evaluated point again, then new ones
        last = dict(pts[-1])
        case["points2"] = [last] + [_gen_point(rng, beam, p=(0.45, 0.25, 0.2, 0.1)) for _ in range(2)]
    return case


def fixed_cases(tier):
    """Deterministic hostile / regression scenes (run by shard 0)."""
    one = {"k": "const", "v": 0.0}

    def sp(el, ch, n, T, v=(0.0, 0.0, 0.0)):
        return dict(element=el, charge=ch, n={"k": "const", "v": n} if n else {"k": "zero"}, T={"k": "const", "v": T},
                    v=[{"k": "const", "v": float(c)} for c in v])

    def pw(c, x0, a):
        return {"mode": "power", "c": c, "x0": list(x0), "a": list(a)}

    def scene(species, receiver, mets, table, bf, attach, beam_over=None, flows=None):
        beam = dict(element="deuterium", energy=6.0e4, power=2e6, temperature=10.0, sigma=0.05, div_x=0.5, div_y=1.5, length=3.0,
                    step=0.05, clamp_to_zero=True, clamp_sigma=5.0,
                    M=[[0, 0, 1, 0.3], [0, 1, 0, -0.2], [-1, 0, 0, 0.1], [0, 0, 0, 1]], parent_M=None)
        beam.update(beam_over or {})
        rsp = species[receiver]
        rates = []
        for m in mets:
            if table == "equal":
                s = {"mode": "const", "c": 3.4e-34}
            elif table == "hot-excited":
                s = pw(2e-33, CX_X0, [0.3, -0.2, 0.15, 0.4, -0.25]) if m == mets[-1] else {"mode": "zero"}
            else:
                s = pw(1e-33 * m, CX_X0, [0.3 / m, -0.2, 0.15 * m, 0.4, -0.25])
            rates.append({"metastable": m, "spec": s})
        rates = rates[::-1]
        pop, bes, stop = {}, {}, {}
        for i, s_ in enumerate(species):
            k = "%s|%d" % (s_["element"], s_["charge"])
            ion = s_["charge"] > 0
            bes[k] = pw(3e-34 * (i + 1), B3_X0, [-0.3, 0.25, 0.2]) if ion else {"mode": "zero"}
            stop[k] = {"mode": "const", "c": 2e-14} if ion else {"mode": "zero"}
            for m in mets:
                if m > 1:
                    pop["%d|%s" % (m, k)] = pw(0.02 * m * (i + 1), B3_X0, [0.2, 0.3, -0.15]) if ion else {"mode": "zero"}
        case = dict(beam=beam,
                    plasma=dict(species=species, receiver=receiver, b_field=bf, M=[[1, 0, 0, 0.1], [0, 0, -1, 0], [0, 1, 0, 0.2], [0, 0, 0, 1]],
                                parent_M=None, ne=1e19, Te=500.0, zero_kind=None),
                    cx_line=dict(element=rsp["element"], charge=rsp["charge"] - 1, transition=[8, 7], wavelength=529.05),
                    bes=True, bes_wavelength=656.1,
                    tables={"wavelength": {"%s|%d|8|7" % (rsp["element"], rsp["charge"] - 1): 529.05, "deuterium|0|3|2": 656.1},
                            "cx": {"donor": "deuterium", "receiver": rsp["element"], "receiver_charge": rsp["charge"],
                                   "transition": [8, 7], "rates": rates},
                            "pop": pop, "bes": bes, "stop": stop, "beam_element": "deuterium", "bes_transition": [3, 2]},
                    table_kind=table, attach=attach,
                    points=[dict(kind=k, bp=bp, obs=[0.3, -0.5, 0.8], bins=40, wpad=[0.1, 0.2])
                            for k, bp in (("field", [0.01, -0.02, 1.0]), ("material", [0.03, 0.04, 2.2]), ("field", [0.0, 0.0, 0.4]),
                                          ("zero-beam", [0.0, 0.0, -0.1]), ("zero-beam", [0.0, 0.0, 3.2]), ("zero-beam", [2.0, 0.0, 1.0]))]
                           + [dict(kind="free", bp=[0.02, 0.0, 1.5], pp=[0.4, -0.3, 0.2], dir=[0.0, 3.0, 4.0], obs=[0.0, 0.0, 2.0], bins=7,
                                   wpad=[0.0, 0.0])])
        return case

    vb = math.sqrt(2 * 6.0e4 * QE / AMU)
    out = [
        # the #441 configuration: receiver is a trace impurity, density argument must be the total ion density
        scene([sp("deuterium", 1, 5e19, 2000.0), sp("carbon", 6, 5e17, 1800.0), sp("helium", 2, 2e18, 1500.0)], 1, [1, 2, 3], "power",
              [{"k": "const", "v": 0.0}, {"k": "const", "v": 2.5}, {"k": "const", "v": 0.3}], "models"),
        # flows comparable to the beam speed, different for every species
        scene([sp("deuterium", 1, 5e19, 2000.0, (0.6 * vb, 0.1 * vb, 0)), sp("neon", 10, 1e17, 900.0, (-0.4 * vb, 0.5 * vb, 0.3 * vb)),
               sp("carbon", 5, 2e17, 400.0, (0, 0, -1.2 * vb))], 1, [1, 2, 4], "power",
              [{"k": "const", "v": 1.0}, {"k": "const", "v": -2.0}, {"k": "const", "v": 0.5}], "direct"),
        # all tables equal: q must equal the common value whatever the populations
        scene([sp("deuterium", 1, 3e19, 300.0), sp("carbon", 6, 3e17, 280.0)], 1, [1, 2, 3, 4], "equal", None, "models"),
        # only the last excited metastable radiates
        scene([sp("tritium", 1, 3e19, 300.0), sp("beryllium", 4, 3e18, 280.0), sp("hydrogen", 1, 1e19, 100.0)], 1, [1, 3], "hot-excited",
              [{"k": "const", "v": 3.0}, {"k": "const", "v": 0.0}, {"k": "const", "v": 0.0}], "direct"),
        # neutrals (null tables) in the composition, incl. the beam element
        scene([sp("deuterium", 0, 1e17, 3.0), sp("deuterium", 1, 5e19, 2000.0), sp("carbon", 6, 5e17, 1800.0), sp("carbon", 0, 0, 1.0)], 2,
              [1, 2], "power", [{"k": "const", "v": 0.0}, {"k": "const", "v": 2.5}, {"k": "const", "v": 0.3}], "models"),
        # single ion species, single (ground) table: the configuration of the repository's own test
        scene([sp("deuterium", 1, 1e19, 200.0)], 0, [1], "equal", [{"k": "const", "v": 0.0}, {"k": "const", "v": 10.0}, one], "models",
              beam_over=dict(energy=5.0e4, power=1e6, div_x=0.0, div_y=0.0, sigma=0.1, length=1.0, step=0.01)),
        # receiver absent everywhere / all ions absent / no beam power
        scene([sp("deuterium", 1, 5e19, 2000.0), sp("carbon", 6, 0, 1800.0)], 1, [1, 2], "power", None, "models"),
        scene([sp("deuterium", 1, 0, 2000.0), sp("carbon", 6, 0, 1800.0)], 1, [1, 2], "power", None, "direct"),
        scene([sp("deuterium", 1, 5e19, 2000.0), sp("carbon", 6, 5e17, 1800.0)], 1, [1, 2], "power", None, "models", beam_over=dict(power=0.0)),
    ]
    # ---- evaluation-point sequences on one model instance (frames are axis-aligned in these scenes: marching along a beam
    #      axis is marching along one plasma axis with the other two plasma coordinates bit-identical) ----
    def wave(v, kv, amp=0.5, ph=0.3):
        return {"k": "wave", "v": v, "amp": amp, "kv": list(kv), "ph": ph}

    def wsp(el, ch, n, kv, T):
        return dict(element=el, charge=ch, n=wave(n, kv), T=wave(T, kv[::-1], amp=0.3), v=[{"k": "const", "v": 0.0}] * 3)

    def march(kind):
        seq = [(0.01, -0.02, 0.5), (0.01, -0.02, 0.9), (0.01, -0.02, 1.3), (0.03, -0.02, 1.3), (0.03, 0.01, 1.3), (0.01, -0.02, 0.5),
               (0.01, -0.02, 0.5), (0.01, 0.02, 0.5)]
        return [dict(kind=kind, bp=list(bp), obs=[0.3, -0.5, 0.8], bins=30, wpad=[0.1, 0.1], seq=k) for k, bp in enumerate(seq)]

    for attach, kind, plasma_M in (("models", "material", [[0, 1, 0, 0.1], [0, 0, 1, 0.0], [1, 0, 0, 0.2], [0, 0, 0, 1]]),
                                   ("direct", "field", [[1, 0, 0, 0.1], [0, 0, -1, 0], [0, 1, 0, 0.2], [0, 0, 0, 1]]),
                                   ("models", "field", [[0, 0, 1, -0.1], [1, 0, 0, 0.3], [0, 1, 0, 0.2], [0, 0, 0, 1]])):
        c = scene([wsp("deuterium", 1, 5e19, (1.1, 0.7, 1.3), 2000.0), wsp("carbon", 6, 2e18, (-0.9, 1.2, 0.8), 1800.0),
                   wsp("neon", 10, 4e17, (0.5, -1.4, -1.1), 900.0)], 1, [1, 2, 3], "power",
                  [wave(1.0, (0.4, 0.9, -0.7)), {"k": "const", "v": 2.5}, wave(0.3, (1.0, 1.0, 1.0))], attach)
        c["plasma"]["M"] = plasma_M
        c["aligned"] = True
        c["plan"] = "sequence-" + kind
        c["points"] = march(kind)
        out.append(c)

    # ---- same-instance histories: one change after the first evaluations, judged on the final configuration ----
    def with_history(c, h, alt=None):
        c["history"] = h
        c["points2"] = [dict(c["points"][0]), dict(c["points"][1]), dict(c["points"][-1])]
        if alt is not None:
            c["tables"]["cx_alt"] = alt
            c["tables"]["wavelength"]["%s|%d|%d|%d" % (h["line"]["element"], h["line"]["charge"], h["line"]["transition"][0],
                                                       h["line"]["transition"][1])] = h["line"]["wavelength"]
            for s_ in c["plasma"]["species"]:
                for r_ in alt["rates"]:
                    k = "%d|%s|%d" % (r_["metastable"], s_["element"], s_["charge"])
                    if r_["metastable"] > 1 and k not in c["tables"]["pop"]:
                        c["tables"]["pop"][k] = pw(0.05 * r_["metastable"], B3_X0, [0.1, 0.2, -0.3]) if s_["charge"] > 0 else {"mode": "zero"}
        return c

    def base():
        return scene([sp("deuterium", 1, 5e19, 2000.0), sp("carbon", 6, 5e17, 1800.0), sp("helium", 2, 2e18, 1500.0),
                      sp("neon", 10, 1e17, 900.0)], 1, [1, 2], "power",
                     [{"k": "const", "v": 0.0}, {"k": "const", "v": 2.5}, {"k": "const", "v": 0.3}], "models")

    alt_rates = [{"metastable": 3, "spec": pw(7e-34, CX_X0, [-0.2, 0.3, 0.1, -0.3, 0.2])},
                 {"metastable": 1, "spec": pw(2e-32, CX_X0, [0.25, 0.1, -0.2, 0.2, 0.15])}]
    out.append(with_history(base(), dict(op="line-same-ion", receiver=1, table_kind="power",
                                         line=dict(element="carbon", charge=5, transition=[10, 9], wavelength=1070.3)),
                            alt={"donor": "deuterium", "receiver": "carbon", "receiver_charge": 6, "transition": [10, 9], "rates": alt_rates}))
    out.append(with_history(base(), dict(op="line-other-ion", receiver=3, table_kind="power",
                                         line=dict(element="neon", charge=9, transition=[11, 10], wavelength=524.9)),
                            alt={"donor": "deuterium", "receiver": "neon", "receiver_charge": 10, "transition": [11, 10], "rates": alt_rates}))
    out.append(with_history(base(), dict(op="composition-smaller", remove=[3], recreate=False)))
    out.append(with_history(base(), dict(op="composition-smaller", remove=[0, 2], recreate=True)))
    out.append(with_history(base(), dict(op="species-replaced", index=1, n={"k": "const", "v": 3e18}, T={"k": "const", "v": 700.0},
                                         v=[{"k": "const", "v": 1e5}, {"k": "const", "v": 0.0}, {"k": "const", "v": -2e5}], via="add")))
    out.append(with_history(base(), dict(op="species-replaced", index=0, n={"k": "const", "v": 2e19}, T={"k": "const", "v": 300.0},
                                         v=[{"k": "const", "v": 0.0}] * 3, via="set")))
    return out


# ----------------------------------------------------------------------------------------------
# scene construction (real objects)
# ----------------------------------------------------------------------------------------------

def _chain(M, parent_M):
    M = np.array(M, dtype=float)
    return M if parent_M is None else np.array(parent_M, dtype=float) @ M


def _rigid_inv(M):
    R = M[:3, :3]
    out = np.eye(4)
    out[:3, :3] = R.T
    out[:3, 3] = -R.T @ M[:3, 3]
    return out


class Scene:
    pass


def build_scene(case):
    from raysect.core import AffineMatrix3D, Node, Vector3D
    from raysect.optical import World
    from cherab.core import Beam, Plasma, Species, Maxwellian
    from cherab.core.atomic import Line, elements
    from cherab.core.model import SingleRayAttenuator, BeamCXLine, BeamEmissionLine
    from vf.mock_c05 import make_atomic_data

    sc = Scene()
    sc.world = World()
    ad = make_atomic_data(case["tables"])
    sc.ad = ad
    pc = case["plasma"]
    pparent = sc.world if pc["parent_M"] is None else Node(parent=sc.world, transform=AffineMatrix3D(pc["parent_M"]))
    plasma = Plasma(parent=pparent, transform=AffineMatrix3D(pc["M"]), name="c05 plasma")
    sc.keep = [pparent]

    def f3(s):
        if s["k"] == "const":
            return float(s["v"])
        if s["k"] == "zero":
            return 0.0
        return lambda x, y, z, s=s: prof(s, x, y, z)

    def v3(vs):
        if all(s["k"] in ("const", "zero") for s in vs):
            return Vector3D(*[prof(s, 0, 0, 0) for s in vs])
        return lambda x, y, z, vs=vs: Vector3D(prof(vs[0], x, y, z), prof(vs[1], x, y, z), prof(vs[2], x, y, z))

    def make_species(s):
        el = getattr(elements, s["element"])
        return Species(el, s["charge"], Maxwellian(f3(s["n"]), f3(s["T"]), v3(s["v"]), el.atomic_weight * AMU))

    def make_line(cl):
        return Line(getattr(elements, cl["element"]), cl["charge"], tuple(cl["transition"]))

    sc.make_species = make_species
    sc.make_line = make_line
    sc.weight = lambda name: getattr(elements, name).atomic_weight
    comp = [make_species(s) for s in pc["species"]]
    sc.species_objs = comp
    plasma.composition = comp
    plasma.electron_distribution = Maxwellian(pc["ne"], pc["Te"], Vector3D(0, 0, 0), 9.1093837015e-31)
    plasma.b_field = None if pc["b_field"] is None else v3(pc["b_field"])
    sc.plasma = plasma

    bc = case["beam"]
    bparent = sc.world if bc["parent_M"] is None else Node(parent=sc.world, transform=AffineMatrix3D(bc["parent_M"]))
    sc.keep.append(bparent)
    beam = Beam(parent=bparent, transform=AffineMatrix3D(bc["M"]), name="c05 beam")
    bel = getattr(elements, bc["element"])
    beam.plasma = plasma
    beam.atomic_data = ad
    beam.energy = bc["energy"]
    beam.power = bc["power"]
    beam.temperature = bc["temperature"]
    beam.element = bel
    beam.sigma = bc["sigma"]
    beam.divergence_x = bc["div_x"]
    beam.divergence_y = bc["div_y"]
    beam.length = bc["length"]
    beam.attenuator = SingleRayAttenuator(step=bc["step"], clamp_to_zero=bc["clamp_to_zero"], clamp_sigma=bc["clamp_sigma"])
    sc.beam = beam
    sc.beam_weight = bel.atomic_weight

    cx_line = make_line(case["cx_line"])
    bes_line = Line(bel, 0, (3, 2)) if case["bes"] else None
    if case["attach"] == "models":
        sc.cx = BeamCXLine(cx_line)
        sc.bes = BeamEmissionLine(bes_line) if bes_line is not None else None
        beam.models = [m for m in (sc.cx, sc.bes) if m is not None]
        kids = list(beam.children)
        sc.material = kids[0].material if len(kids) == 1 else None
        sc.primitive = kids[0] if len(kids) == 1 else None
    else:
        sc.cx = BeamCXLine(cx_line, beam, plasma, ad)
        sc.bes = BeamEmissionLine(bes_line, beam, plasma, ad) if bes_line is not None else None
        sc.material = None
        sc.primitive = None
    Mb = _chain(bc["M"], bc["parent_M"])
    Mp = _chain(pc["M"], pc["parent_M"])
    sc.b2p = _rigid_inv(Mp) @ Mb
    return sc


# ----------------------------------------------------------------------------------------------
# oracle helpers
# ----------------------------------------------------------------------------------------------

def _state(species, b_field, pp):
    """Plasma state at plasma-space point pp from the profile specs (no cherab)."""
    x, y, z = pp
    st = []
    for s in species:
        st.append(dict(Z=int(s["charge"]), n=prof(s["n"], x, y, z), T=prof(s["T"], x, y, z),
                       v=np.array([prof(c, x, y, z) for c in s["v"]]), key="%s|%d" % (s["element"], s["charge"]),
                       element=s["element"]))
    B = np.zeros(3) if b_field is None else np.array([prof(c, x, y, z) for c in b_field])
    return st, B


def _integral(spectrum):
    s = np.asarray(spectrum.samples, dtype=float)
    return float(s.sum() * spectrum.delta_wavelength), s


def _calls_by(provider_lists):
    """merge the calls of several rate objects"""
    out = []
    for r in provider_lists:
        out.extend(r.calls)
    return out


def _window(lam, centre_shift_max, sigma, extra, wpad):
    half = lam * (1.2 * centre_shift_max / CLIGHT + 0.002) + 20.0 * sigma + extra
    lo = lam - half * (1.0 + wpad[0])
    hi = lam + half * (1.0 + wpad[1])
    return max(lo, 1.0), hi


# ----------------------------------------------------------------------------------------------
# the monitor
# ----------------------------------------------------------------------------------------------

RT_ARG = 1e-9      # arguments other than energies (profiles are re-evaluated at a point that may differ in the last bits)
RT_E = 1e-7        # interaction energies (two CODATA sets inside cherab)
RT_TOT = 1e-8      # totals against the independent oracle
RT_MEAN = 1e-10    # totals against the weighted mean / charged sum of the returned values
UNDERFLOW_NB = 1e-200   # beam densities (m^-3) below this are not judged (products with 1e-35 W m^3 coefficients are subnormal)


def final_config(case):
    """Configuration (species specs, receiver index, CX table entry, CX line) after the case's history step."""
    pc = case["plasma"]
    species = [dict(s) for s in pc["species"]]
    receiver = pc["receiver"]
    cx_name, line = "cx", case["cx_line"]
    h = case.get("history")
    if h:
        if h["op"] in ("line-same-ion", "line-other-ion"):
            receiver, cx_name, line = h["receiver"], "cx_alt", h["line"]
        elif h["op"] == "composition-smaller":
            keep = [i for i in range(len(species)) if i not in h["remove"]]
            receiver = keep.index(receiver)
            species = [species[i] for i in keep]
        elif h["op"] == "species-replaced":
            species[h["index"]] = dict(species[h["index"]], n=h["n"], T=h["T"], v=h["v"])
    return dict(species=species, receiver=receiver, cx_name=cx_name, line=line)


def apply_history(case, sc):
    """The same change on the live objects, through the public API only."""
    h = case["history"]
    op = h["op"]
    if op in ("line-same-ion", "line-other-ion"):
        sc.cx.line = sc.make_line(h["line"])
    elif op == "composition-smaller":
        keep = [i for i in range(len(sc.species_objs)) if i not in h["remove"]]
        if h["recreate"]:
            objs = [sc.make_species(case["plasma"]["species"][i]) for i in keep]
        else:
            objs = [sc.species_objs[i] for i in keep]
        sc.plasma.composition = objs
        sc.species_objs = objs
    elif op == "species-replaced":
        spec = dict(case["plasma"]["species"][h["index"]], n=h["n"], T=h["T"], v=h["v"])
        new = sc.make_species(spec)
        objs = list(sc.species_objs)
        objs[h["index"]] = new
        if h["via"] == "add":
            sc.plasma.composition.add(new)
        else:
            sc.plasma.composition = objs
        sc.species_objs = objs
    else:
        raise ValueError(op)


def run_case(case, ctx):
    sc = build_scene(case)
    bc, pc = case["beam"], case["plasma"]
    species = pc["species"]
    mets = sorted(int(r["metastable"]) for r in case["tables"]["cx"]["rates"])
    ctx.cls("attach=" + case["attach"])
    ctx.cls("metastables=%d" % len(mets))
    ctx.cls("tables=" + case["table_kind"])
    ctx.cls("ions=%d" % sum(1 for s in species if s["charge"] >= 1))
    ctx.cls("plan=" + case.get("plan", "random"))
    if case.get("aligned"):
        ctx.cls("aligned-frames")
    if case.get("cold_species") is not None:
        ctx.cls("cold-ion-species(T=0)")
    if any(s["charge"] == 0 for s in species):
        ctx.cls("neutrals-in-composition")
    if pc["zero_kind"]:
        ctx.cls(pc["zero_kind"])
    if pc["b_field"] is None:
        ctx.cls("b-field-none")
    if any(c["k"] != "const" or c["v"] != 0.0 for s in species for c in s["v"]):
        ctx.cls("flows")
    if any(s[k]["k"] == "wave" for s in species for k in ("n", "T")):
        ctx.cls("non-uniform-profiles")
    if bc["parent_M"] is not None or pc["parent_M"] is not None:
        ctx.cls("nested-parents")
    if not case["bes"]:
        ctx.cls("helium-beam(no BES)")
    if bc["power"] == 0.0:
        ctx.cls("beam-power-zero")

    cfg = dict(species=species, receiver=pc["receiver"], cx_name="cx", line=case["cx_line"], ev0=0, tag="", mon="")
    _eval_points(case, ctx, sc, cfg, case["points"])
    h = case.get("history")
    if h:
        ctx.cls("history=" + h["op"])
        ev0 = len(sc.ad.events)
        apply_history(case, sc)
        cfg = dict(final_config(case), ev0=ev0, tag="@after:" + h["op"], mon="history")
        _eval_points(case, ctx, sc, cfg, case["points2"])


def _eval_points(case, ctx, sc, cfg, points):
    from raysect.core import AffineMatrix3D, Point3D, Vector3D
    from raysect.optical import Spectrum, Ray
    from vf.mock_c05 import rate_value

    ad, beam = sc.ad, sc.beam
    bc, pc = case["beam"], case["plasma"]
    species = cfg["species"]
    rcv = cfg["receiver"]
    tag = cfg["tag"]
    entry = case["tables"][cfg["cx_name"]]
    mets = sorted(int(r["metastable"]) for r in entry["rates"])
    cxspec = {int(r["metastable"]): r["spec"] for r in entry["rates"]}
    speed_b = math.sqrt(2.0 * bc["energy"] * QE / AMU)
    R_b2p = sc.b2p[:3, :3]
    lam_cx = cfg["line"]["wavelength"]
    lam_bes = case["bes_wavelength"]
    receiver_weight = sc.weight(cfg["line"]["element"])

    def mon(name):
        # evaluations after a history step are also counted under the 'history' monitor
        if cfg["mon"]:
            ctx.mon(cfg["mon"])
        return name

    for ip, pt in enumerate(points):
        kind = pt["kind"]
        if kind == "material" and sc.material is None:
            kind = "field"
        ctx.cls("point=" + kind)
        if "seq" in pt:
            ctx.mon("sequence_points")
        bp = [float(c) for c in pt["bp"]]
        # ---- recorded beam state -------------------------------------------------------------
        n_b = float(beam.density(bp[0], bp[1], bp[2]))
        if kind == "free":
            pp = np.array(pt["pp"], dtype=float)
            dvec = np.array(pt["dir"], dtype=float)
        else:
            pp = (sc.b2p @ np.array(bp + [1.0]))[:3]
            d_b = beam.direction(bp[0], bp[1], bp[2])
            dvec = R_b2p @ np.array([d_b.x, d_b.y, d_b.z])
        obs = np.array(pt["obs"], dtype=float)
        obs_p = R_b2p @ obs if kind == "material" else obs      # the ray direction is given in beam space
        st, B = _state(species, pc["b_field"], pp)
        Bmag = float(np.linalg.norm(B))
        vb_vec = dvec / np.linalg.norm(dvec) * speed_b
        ions = [s for s in st if s["Z"] >= 1]
        n_ions = math.fsum(s["n"] for s in ions)
        n_all = math.fsum(s["n"] for s in st)
        zn = math.fsum(s["Z"] * s["n"] for s in ions)
        z2n = math.fsum(s["Z"] ** 2 * s["n"] for s in ions)
        neutral_density = n_all - n_ions
        r_st = st[rcv]
        n_r, T_r = r_st["n"], r_st["T"]
        for s in st:
            s["E"] = 0.5 * AMU * float(np.dot(vb_vec - s["v"], vb_vec - s["v"])) / QE
            s["rel"] = float(np.linalg.norm(vb_vec - s["v"])) / speed_b
        # ---- spectral windows (harness only: must contain the whole line whatever the shift) --------
        vmax = max([float(np.linalg.norm(s["v"])) for s in st] + [speed_b])
        sig_cx = math.sqrt(max(T_r, 0.0) * QE / (receiver_weight * AMU)) * lam_cx / CLIGHT
        sig_bes = math.sqrt(bc["temperature"] * QE / (sc.beam_weight * AMU)) * lam_bes / CLIGHT
        stark = STARK * speed_b * Bmag
        w_cx = _window(lam_cx, vmax, sig_cx, 0.0, pt["wpad"])
        w_bes = _window(lam_bes, vmax, sig_bes, 6.0 * stark, pt["wpad"])
        bins = int(pt["bins"])

        P_b = Point3D(*bp)
        P_p = Point3D(*[float(c) for c in pp])
        V_d = Vector3D(*[float(c) for c in dvec])
        V_o = Vector3D(*[float(c) for c in obs_p])

        near_comoving = [s for s in ions if s["n"] > 0 and s["rel"] < 0.02]
        if 0.0 < n_b < UNDERFLOW_NB:
            # a beam attenuated by hundreds of e-foldings: the emission is a subnormal number, relative comparisons are noise
            ctx.skip("beam density in the floating-point underflow range")
            continue
        J = dict(case=case, ctx=ctx, ad=ad, cfg=cfg, st=st, rcv=rcv, n_b=n_b, n_r=n_r, n_ions=n_ions, n_all=n_all,
                 neutral_density=neutral_density, z2n=z2n, zn=zn, Bmag=Bmag, mets=mets, cxspec=cxspec, rate_value=rate_value,
                 kind=kind, seq=pt.get("seq"))

        # ======================================= material route ==================================
        if kind == "material":
            lo = min(w_cx[0], w_bes[0]) if sc.bes is not None else w_cx[0]
            hi = max(w_cx[1], w_bes[1]) if sc.bes is not None else w_cx[1]
            spec = Spectrum(lo, hi, bins)
            ad.clear_calls()
            ray = Ray(min_wavelength=lo, max_wavelength=hi, bins=bins)
            out = sc.material.emission_function(P_b, Vector3D(*[float(c) for c in obs]), spec, sc.world, ray, sc.primitive,
                                                AffineMatrix3D(), AffineMatrix3D())
            tot, samples = _integral(out)
            if n_b == 0.0:
                ctx.check(bool(np.all(samples == 0.0)), "material:nonzero-at-zero-beam-density" + tag,
                          "BeamMaterial.emission_function adds emission where Beam.density is exactly 0", monitor=mon("zero_beam"),
                          total=tot, bp=bp)
                continue
            if near_comoving or T_r <= 0:
                ctx.skip("near-comoving species (E_int is rounding noise)")
                continue
            want_bes = _bes_oracle(case, st, n_b, z2n, rate_value) if sc.bes is not None else 0.0
            if n_r > 0:
                cands = [_cx_oracle(case, st, rcv, n_b, n_ions, z2n, zn, Bmag, mets, cxspec, rate_value)[0]]
                if neutral_density > 0:       # density reading undecided with neutrals: accept either
                    cands.append(_cx_oracle(case, st, rcv, n_b, n_all, z2n, zn, Bmag, mets, cxspec, rate_value)[0])
                want = min((c + want_bes for c in cands), key=lambda w: abs(tot - w))
            else:
                want = want_bes
            ctx.close(tot, want, "material:total" + tag, "BeamMaterial.emission_function total differs from CX + BES evaluated with the "
                      "beam direction / point / observation direction mapped into plasma space, for the point it was called with",
                      rtol=RT_TOT, monitor=mon("material"), n_b=n_b, n_r=n_r, bp=bp, seq=pt.get("seq"))
            # the arguments handed to the tables during this call must be those of this point
            if n_r > 0:
                _judge_cx_args(J, total=None)
                ctx.nontrivial()
            if sc.bes is not None and n_ions > 0:
                _judge_bes_args(J)
            continue

        # ======================================= CX, direct call =================================
        spec = Spectrum(w_cx[0], w_cx[1], bins)
        ad.clear_calls()
        out = sc.cx.emission(P_b, P_p, V_d, V_o, spec)
        tot, samples = _integral(out)
        _check_cx_accessors(case, ad, ctx, cfg, entry)
        if n_b == 0.0:
            ctx.check(bool(np.all(samples == 0.0)), "cx:nonzero-at-zero-beam-density" + tag,
                      "BeamCXLine.emission adds emission where Beam.density is exactly 0", monitor=mon("zero_beam"), total=tot, bp=bp)
        elif n_r == 0.0:
            ctx.check(bool(np.all(samples == 0.0)), "cx:nonzero-at-zero-receiver-density" + tag,
                      "BeamCXLine.emission adds emission where the receiver density is exactly 0", monitor=mon("zero_receiver"),
                      total=tot, n_b=n_b)
        elif T_r <= 0:
            ctx.skip("receiver temperature <= 0 (statement silent)")
        elif near_comoving:
            ctx.skip("near-comoving species (E_int is rounding noise)")
        else:
            mon("")
            _judge_cx_args(J, total=tot)

        # ======================================= BES, direct call ================================
        if sc.bes is None:
            continue
        spec = Spectrum(w_bes[0], w_bes[1], bins)
        ad.clear_calls()
        out = sc.bes.emission(P_b, P_p, V_d, V_o, spec)
        tot, samples = _integral(out)
        _check_bes_accessors(case, ad, ctx, cfg)
        if n_b == 0.0:
            ctx.check(bool(np.all(samples == 0.0)), "bes:nonzero-at-zero-beam-density" + tag,
                      "BeamEmissionLine.emission adds emission where Beam.density is exactly 0", monitor=mon("zero_beam"), total=tot, bp=bp)
        elif n_ions == 0.0:
            ctx.check(bool(np.all(samples == 0.0)), "bes:nonzero-at-zero-ion-density" + tag,
                      "BeamEmissionLine.emission adds emission where every ion density is exactly 0", monitor=mon("zero_ions"),
                      total=tot, n_b=n_b)
        elif near_comoving:
            ctx.skip("near-comoving species (E_int is rounding noise)")
        else:
            mon("")
            _judge_bes_args(J, total=tot)


# ----------------------------------------------------------------------------------------------

def _pop_expected(case, st, m, z2n, zn, rate_value):
    """k_m = sum_i Z_i n_i bmp_{m,i}(E_int,i, sum_j Z_j^2 n_j / Z_i, T_i) / sum_i Z_i n_i over the charged species."""
    num = 0.0
    for s in st:
        if s["Z"] < 1:
            continue
        spec = case["tables"]["pop"]["%d|%s" % (m, s["key"])]
        num += s["Z"] * s["n"] * rate_value(spec, (s["E"], z2n / s["Z"], s["T"]))
    return num / zn


def _cx_oracle(case, st, rcv, n_b, n_dens, z2n, zn, Bmag, mets, cxspec, rate_value):
    r = st[rcv]
    args = (r["E"], r["T"], n_dens, z2n / zn, Bmag)
    q = {m: rate_value(cxspec[m], args) for m in mets}
    num, den = q[1], 1.0
    kk = {}
    for m in mets:
        if m == 1:
            continue
        k = _pop_expected(case, st, m, z2n, zn, rate_value)
        kk[m] = k
        num += k * q[m]
        den += k
    want = n_b * r["n"] * (num / den) / (4.0 * math.pi)
    return want, dict(q=q, k=kk, args=args)


def _bes_oracle(case, st, n_b, z2n, rate_value):
    tot = 0.0
    for s in st:
        if s["Z"] < 1:
            continue
        spec = case["tables"]["bes"][s["key"]]
        tot += s["Z"] * s["n"] * rate_value(spec, (s["E"], z2n / s["Z"], s["T"]))
    return n_b * tot / (4.0 * math.pi)


def _check_cx_accessors(case, ad, ctx, cfg, entry):
    """Requests made since the last configuration change must be for the current line / species; the current line's
    tables must have been requested at some time."""
    tag = cfg["tag"]
    since = ad.events[cfg["ev0"]:]
    want = ("beam_cx_pec", entry["donor"], entry["receiver"], int(entry["receiver_charge"]), tuple(entry["transition"]))
    reqs = [e for e in since if e[0] == "beam_cx_pec"]
    ever = any(e == want for e in ad.events)
    ctx.check(ever and all(e == want for e in reqs), "cx:accessor:beam_cx_pec-wrong-key" + tag,
              "BeamCXLine requested beam_cx_pec for something other than (beam element, line element, line charge + 1, transition) of "
              "its current line, or never requested it", monitor="accessors", requested=reqs[:3], expected=want)
    mets = sorted(int(r["metastable"]) for r in entry["rates"])
    want_pop = {("beam_population_rate", entry["donor"], m, s["element"], int(s["charge"]))
                for m in mets if m != 1 for s in cfg["species"]}
    got_since = {e for e in since if e[0] == "beam_population_rate"}
    got_ever = {e for e in ad.events if e[0] == "beam_population_rate"}
    ions_missing = {e for e in want_pop - got_ever if e[4] >= 1}
    extra = got_since - want_pop
    ctx.check(not ions_missing and not extra, "cx:accessor:beam_population_rate-wrong-keys" + tag,
              "BeamCXLine did not request the population tables of exactly (beam element, excited metastable, species) pairs of the "
              "current line and composition", monitor="accessors", missing=sorted(ions_missing)[:4], unexpected=sorted(extra)[:4])


def _check_bes_accessors(case, ad, ctx, cfg):
    t = case["tables"]
    since = ad.events[cfg["ev0"]:]
    want = {("beam_emission_pec", t["beam_element"], s["element"], int(s["charge"]), (3, 2)) for s in cfg["species"]}
    got_since = {e for e in since if e[0] == "beam_emission_pec"}
    got_ever = {e for e in ad.events if e[0] == "beam_emission_pec"}
    ions_missing = {e for e in want - got_ever if e[3] >= 1}
    extra = got_since - want
    ctx.check(not ions_missing and not extra, "bes:accessor:beam_emission_pec-wrong-keys" + cfg["tag"],
              "BeamEmissionLine did not request the emission tables of exactly (beam element, species, (3,2)) for the species of the "
              "current composition", monitor="accessors", missing=sorted(ions_missing)[:4], unexpected=sorted(extra)[:4])


def _judge_cx_args(J, total):
    """Arguments that reached the CX / population tables during the call just made (and, when `total` is given, the
    direct-call totals).  total=None: BeamMaterial route, only the arguments are judged here."""
    case, ctx, ad, cfg, st, rcv = J["case"], J["ctx"], J["ad"], J["cfg"], J["st"], J["rcv"]
    n_b, n_r, n_ions, n_all, neutral_density = J["n_b"], J["n_r"], J["n_ions"], J["n_all"], J["neutral_density"]
    z2n, zn, Bmag, mets, cxspec, rate_value, kind = J["z2n"], J["zn"], J["Bmag"], J["mets"], J["cxspec"], J["rate_value"], J["kind"]
    tag = cfg["tag"]
    margs = "cx_args" if total is not None else "material_args"
    # ---- which tables were evaluated with what ---------------------------------------------------
    calls = {m: [] for m in mets}
    foreign = 0
    for name, lst in ad.cx_rates:
        for m, rate in lst:
            if name == cfg["cx_name"]:
                calls[m].extend(rate.calls)
            else:
                foreign += len(rate.calls)
    decoy_calls = sum(len(d.calls) for d in ad.decoys if d.key[0] in ("cx-decoy", "pop-decoy"))
    if decoy_calls:
        ctx.viol("cx:decoy-table-evaluated" + tag, "a table that the provider handed out for a wrong request was evaluated", n=decoy_calls)
    missing = [m for m in mets if not calls[m]]
    if not ctx.check(not missing, "cx:table-not-evaluated" + tag, "a metastable-resolved BeamCXPEC of the model's current line was never "
                     "evaluated although n_beam > 0 and n_receiver > 0", monitor=margs, metastables=missing, all=mets,
                     calls_on_tables_of_another_line=foreign):
        if total is not None:
            # the emission value itself is still judged (either density reading accepted)
            cands = [_cx_oracle(case, st, rcv, n_b, nd, z2n, zn, Bmag, mets, cxspec, rate_value)[0]
                     for nd in ([n_ions, n_all] if neutral_density > 0 else [n_ions])]
            ctx.close(total, min(cands, key=lambda w: abs(total - w)), "cx:total" + tag, "wavelength-integrated BeamCXLine emission "
                      "differs from (1/4pi) n_b n_r (q1 + sum k q)/(1 + sum k) evaluated from the plasma state and the tables of the "
                      "model's current line", rtol=RT_TOT, monitor="cx_total", n_b=n_b, n_r=n_r, point_kind=kind, seq=J["seq"])
        return
    # density reading
    got_dens = calls[mets[0]][0][0][2]
    if neutral_density > 0:
        ok_all = abs(got_dens - n_all) <= RT_ARG * n_all
        ok_ions = abs(got_dens - n_ions) <= RT_ARG * n_ions
        ctx.check(ok_all or ok_ions, "cx:arg:total-ion-density" + tag, "density argument of BeamCXPEC is neither the sum over all species "
                  "nor the sum over charged species", monitor=margs, got=got_dens, sum_all=n_all, sum_ions=n_ions, receiver=n_r)
        ctx.skip("total ion density with neutrals present: reading not decided (accepted %s)" % ("all-species" if ok_all else "charged-only" if ok_ions else "neither"))
        n_dens = n_ions if (ok_ions and not ok_all) else n_all
    else:
        n_dens = n_ions
    want, info = _cx_oracle(case, st, rcv, n_b, n_dens, z2n, zn, Bmag, mets, cxspec, rate_value)
    exp_args = info["args"]
    names = ["interaction-energy", "receiver-temperature", "total-ion-density", "z-effective", "b-field-magnitude"]
    rtols = [RT_E, RT_ARG, RT_ARG, RT_ARG, RT_ARG]
    for m in mets:
        for args, _ in calls[m]:
            for j, nm in enumerate(names):
                if j == 2 and neutral_density > 0:
                    continue
                ctx.close(args[j], exp_args[j], "cx:arg:" + nm + tag, "BeamCXPEC.evaluate received a %s argument different from the "
                          "plasma state at the point of the call" % nm, rtol=rtols[j], atol=(1e-300 if j != 4 else 1e-12 * max(Bmag, 1e-30)),
                          monitor=margs, metastable=m, receiver_density=n_r, sum_ions=n_ions, sum_all=n_all, seq=J["seq"],
                          point_kind=kind)
    # population tables
    pop_ret = {}
    pop_ok = True
    for m in mets:
        if m == 1:
            continue
        num = 0.0
        for s in st:
            objs = ad.pop_rates.get((m, s["element"], s["Z"]), [])
            cl = _calls_by(objs)
            if s["Z"] < 1:
                # neutral: null table; its contribution must be zero whatever it was asked
                continue
            if not cl:
                # a species that is absent at the point contributes nothing whatever its table says: not demanded
                if s["n"] > 0:
                    pop_ok = False
                    ctx.check(False, "cx:population-table-not-evaluated" + tag, "the BeamPopulationRate of a charged species with "
                              "non-zero density was never evaluated", monitor=margs, metastable=m, species=s["key"], density=s["n"])
                continue
            ctx.mon(margs)
            for args, _ in cl:
                ctx.close(args[0], s["E"], "cx:pop-arg:interaction-energy" + tag, "BeamPopulationRate.evaluate received an interaction "
                          "energy different from the beam-species one", rtol=RT_E, monitor=margs, species=s["key"], seq=J["seq"])
                ctx.close(args[1], z2n / s["Z"], "cx:pop-arg:equivalent-density" + tag, "BeamPopulationRate.evaluate received a density "
                          "different from sum_j Z_j^2 n_j / Z_i", rtol=RT_ARG, monitor=margs, species=s["key"], Z=s["Z"], seq=J["seq"])
                ctx.close(args[2], s["T"], "cx:pop-arg:temperature" + tag, "BeamPopulationRate.evaluate received a temperature different "
                          "from the species temperature", rtol=RT_ARG, monitor=margs, species=s["key"], seq=J["seq"])
            num += s["Z"] * s["n"] * cl[-1][1]
        pop_ret[m] = num / zn
    if total is None:
        return
    tot = total
    # ---- totals ------------------------------------------------------------------------------------
    ctx.close(tot, want, "cx:total" + tag, "wavelength-integrated BeamCXLine emission differs from (1/4pi) n_b n_r (q1 + sum k q)/(1 + sum k) "
              "evaluated from the plasma state and the tables of the model's current line", rtol=RT_TOT, monitor="cx_total", n_b=n_b,
              n_r=n_r, q=info["q"], k=info["k"], point_kind=kind, seq=J["seq"])
    if not pop_ok:
        return
    qret = {m: calls[m][-1][1] for m in mets}
    num = qret[1] + math.fsum(pop_ret[m] * qret[m] for m in mets if m != 1)
    den = 1.0 + math.fsum(pop_ret[m] for m in mets if m != 1)
    ctx.close(tot, n_b * n_r * (num / den) / (4 * math.pi), "cx:weighted-mean" + tag, "BeamCXLine emission is not (1/4pi) n_b n_r times the "
              "mean of the returned coefficients weighted by 1 (ground) and the relative populations (excited)", rtol=RT_MEAN,
              monitor="cx_mean", q_returned=qret, k=pop_ret)
    q_obs = tot * 4 * math.pi / (n_b * n_r)
    qmin, qmax = min(qret.values()), max(qret.values())
    ctx.check(qmin * (1 - 1e-9) <= q_obs <= qmax * (1 + 1e-9), "cx:q-outside-[min,max]" + tag,
              "effective coefficient 4pi*emission/(n_b n_r) lies outside [min, max] of the metastable-resolved coefficients",
              monitor="cx_bounds", q=q_obs, qmin=qmin, qmax=qmax)
    if qmax > 0:
        ctx.margin("cx_bounds", max(0.0, (qmin - q_obs) / (1e-9 * qmax) if qmin > q_obs else (q_obs - qmax) / (1e-9 * qmax)))
    ctx.nontrivial()


def _judge_bes_args(J, total=None):
    case, ctx, ad, cfg, st = J["case"], J["ctx"], J["ad"], J["cfg"], J["st"]
    n_b, z2n, rate_value, kind = J["n_b"], J["z2n"], J["rate_value"], J["kind"]
    tag = cfg["tag"]
    margs = "bes_args" if total is not None else "material_args"
    decoy_calls = sum(len(d.calls) for d in ad.decoys if d.key[0] == "bes-decoy")
    if decoy_calls:
        ctx.viol("bes:decoy-table-evaluated" + tag, "a table that the provider handed out for a wrong request was evaluated", n=decoy_calls)
    acc = 0.0
    sum_ok = True
    for s in st:
        if s["Z"] < 1:
            continue
        cl = _calls_by(ad.bes_rates.get((s["element"], s["Z"]), []))
        if not cl:
            # a species that is absent at the point contributes nothing whatever its table says: not demanded
            if s["n"] > 0:
                sum_ok = False
                ctx.check(False, "bes:table-not-evaluated" + tag, "the BeamEmissionPEC of a charged species with non-zero density was "
                          "never evaluated although n_beam > 0", monitor=margs, species=s["key"], density=s["n"])
            continue
        ctx.mon(margs)
        for args, _ in cl:
            ctx.close(args[0], s["E"], "bes:arg:interaction-energy" + tag, "BeamEmissionPEC.evaluate received an interaction energy "
                      "different from the beam-species one", rtol=RT_E, monitor=margs, species=s["key"], seq=J["seq"])
            ctx.close(args[1], z2n / s["Z"], "bes:arg:equivalent-density" + tag, "BeamEmissionPEC.evaluate received a density different "
                      "from sum_j Z_j^2 n_j / Z_i", rtol=RT_ARG, monitor=margs, species=s["key"], Z=s["Z"], seq=J["seq"])
            ctx.close(args[2], s["T"], "bes:arg:temperature" + tag, "BeamEmissionPEC.evaluate received a temperature different from the "
                      "species temperature", rtol=RT_ARG, monitor=margs, species=s["key"], seq=J["seq"])
        acc += s["Z"] * s["n"] * cl[-1][1]
    if total is None:
        return
    tot = total
    want = _bes_oracle(case, st, n_b, z2n, rate_value)
    ctx.close(tot, want, "bes:total" + tag, "wavelength-integrated BeamEmissionLine emission differs from (1/4pi) n_b sum_i Z_i n_i "
              "q_i(E_int,i, sum_j Z_j^2 n_j / Z_i, T_i) over the species of the current composition", rtol=RT_TOT, monitor="bes_total",
              n_b=n_b, point_kind=kind, seq=J["seq"])
    ctx.nontrivial()
    if not sum_ok:
        return
    ctx.close(tot, n_b * acc / (4 * math.pi), "bes:charged-sum" + tag, "BeamEmissionLine emission is not (1/4pi) n_b times the Z_i n_i "
              "weighted sum of the returned coefficients", rtol=RT_MEAN, monitor="bes_sum")
    ctx.nontrivial()
